#!/usr/bin/env python3
"""Regenerate lean/OccaGen/OpTable.lean from the CURRENT sources of the expression front end:

   lang/operator.cpp           rawOperatorType bits, operatorType atoms and composites (as the two
                               64-bit words of `bitfield`), every `op::` operator (spelling, opType,
                               precedence), `op::associativity[19]`, the spellings registered in the
                               tokenizer trie by getOperators()
   lang/expr/expressionParser.cpp   the ambiguous-operator resolution table of updateOperatorToken()
                               (which composite selects which left-unary / other operator)
   lang/expr/binaryOpNode.cpp  which binary operators are printed without surrounding blanks
   lang/expr/leftUnaryOpNode.cpp    the characters after which a prefix operator is separated from a
                               following prefix operator by a blank (empty when print() glues them)
   lang/expr/exprNode.hpp      PRETTIER_MAX_VAR_WIDTH / PRETTIER_MAX_LINE_WIDTH
   utils/string.cpp            whether escape() skips the delimiter at index 0 (`i && escapeChar`)

   Everything is extracted with anchored regular expressions; when a construct no longer has the
   expected shape a TranslateError is raised (never skipped silently).
"""
import os, re, sys
sys.path.insert(0, os.path.dirname(os.path.abspath(__file__)))
from cxx2lean import REPO, VERIF, TranslateError, write_if_changed

LANG = "src/occa/internal/lang"


def read(rel):
    p = os.path.join(REPO, rel)
    if not os.path.exists(p):
        raise TranslateError("missing source file " + rel)
    return open(p).read()


def namespace_body(src, name):
    m = re.search(r"namespace\s+%s\s*\{" % re.escape(name), src)
    if not m:
        raise TranslateError("namespace %s not found" % name)
    i, depth = m.end(), 1
    while i < len(src) and depth:
        c = src[i]
        if c in "\"'":                       # braces inside literals ("{", '}') do not count
            j = i + 1
            while j < len(src) and src[j] != c:
                j += 2 if src[j] == "\\" else 1
            i = j + 1
            continue
        if c == "{":
            depth += 1
        elif c == "}":
            depth -= 1
        i += 1
    return src[m.end():i - 1]


def strip_comments(s):
    """remove // and /* */ comments, leaving string and character literals alone"""
    out, i, n = [], 0, len(s)
    while i < n:
        c = s[i]
        if c in "\"'":
            j = i + 1
            while j < n and s[j] != c:
                j += 2 if s[j] == "\\" else 1
            out.append(s[i:j + 1])
            i = j + 1
        elif s.startswith("//", i):
            while i < n and s[i] != "\n":
                i += 1
        elif s.startswith("/*", i):
            j = s.find("*/", i + 2)
            i = n if j < 0 else j + 2
        else:
            out.append(c)
            i += 1
    return "".join(out)


LEAN_RESERVED = {"attribute", "end", "open", "at", "from", "have", "show", "do", "then", "else", "if", "in", "fun",
                 "let", "match", "with", "where", "instance", "class", "structure", "def", "theorem", "axiom",
                 "none", "some", "export", "import", "section", "variable", "universe", "macro", "syntax", "by"}


def ln(name):
    """a C++ identifier as a Lean identifier"""
    return name + "_" if name in LEAN_RESERVED else name


def lean_str(s):
    return '"' + s.replace("\\", "\\\\").replace('"', '\\"') + '"'


def gen():
    opsrc = read(LANG + "/operator.cpp")
    # ---- raw bits
    raw = {}
    for m in re.finditer(r"const\s+rawOpType_t\s+(\w+)\s*\(\(\(uint64_t\)\s*1\)\s*<<\s*(\d+)\)\s*;",
                         strip_comments(namespace_body(opsrc, "rawOperatorType"))):
        raw[m.group(1)] = int(m.group(2))
    if len(raw) < 60:
        raise TranslateError("rawOperatorType: only %d entries recognised" % len(raw))
    # ---- operatorType atoms and composites, in source order
    body = strip_comments(namespace_body(opsrc, "operatorType"))
    types = {}
    order = []
    for m in re.finditer(r"const\s+opType_t\s+(\w+)\s*(\(([^;]*?)\)|=\s*\(([^;]*?)\))\s*;", body, re.S):
        name = m.group(1)
        if m.group(3) is not None:
            args = [a.strip() for a in m.group(3).split(",")]
            if len(args) != 2:
                raise TranslateError("operatorType::%s: expected (b1, b2)" % name)

            def word(a):
                if re.fullmatch(r"\d+", a):
                    return int(a)
                mm = re.fullmatch(r"rawOperatorType::(\w+)", a)
                if not mm or mm.group(1) not in raw:
                    raise TranslateError("operatorType::%s: unknown word %s" % (name, a))
                return 1 << raw[mm.group(1)]
            types[name] = (word(args[0]), word(args[1]))
        else:
            b1 = b2 = 0
            for part in m.group(4).split("|"):
                part = part.strip()
                if part not in types:
                    raise TranslateError("operatorType::%s uses %s before its definition" % (name, part))
                b1 |= types[part][0]
                b2 |= types[part][1]
            types[name] = (b1, b2)
        order.append(name)
    need = ["none", "leftUnary", "rightUnary", "unary", "binary", "pair", "pairStart", "pairEnd", "ambiguous",
            "special", "increment", "decrement", "parentheses", "braces", "brackets", "cudaCall", "questionMark",
            "colon", "comma", "parenCast", "sizeof_", "new_", "delete_", "throw_", "scope", "dot", "dotStar",
            "arrow", "arrowStar", "plus", "minus", "asterisk", "ampersand"]
    for n in need:
        if n not in types:
            raise TranslateError("operatorType::%s not found" % n)
    # ---- operators
    obody = strip_comments(namespace_body(opsrc, "op"))
    ops = []
    for m in re.finditer(r'const\s+(unaryOperator_t|binaryOperator_t|pairOperator_t|operator_t)\s+(\w+)\s*\(((?:"(?:[^"\\]|\\.)*"|[^;"])*?)\)\s*;',
                         obody, re.S):
        cls, name, args = m.group(1), m.group(2), m.group(3)
        strs = re.findall(r'"((?:[^"\\]|\\.)*)"', args)
        tm = re.search(r"operatorType::(\w+)", args)
        if not strs or not tm or tm.group(1) not in types:
            raise TranslateError("op::%s: unrecognised constructor arguments %s" % (name, args))
        if cls == "pairOperator_t":
            if len(strs) != 2:
                raise TranslateError("op::%s: pair operator needs two spellings" % name)
            prec, pair = 0, strs[1]
        else:
            pm = re.search(r",\s*(\d+)\s*$", args.strip())
            if not pm:
                raise TranslateError("op::%s: precedence not found" % name)
            prec, pair = int(pm.group(1)), ""
        ops.append({"name": name, "cls": cls, "str": strs[0], "pair": pair, "ty": tm.group(1), "prec": prec})
    if len(ops) < 70:
        raise TranslateError("namespace op: only %d operators recognised" % len(ops))
    names = [o["name"] for o in ops]
    if len(set(names)) != len(names):
        raise TranslateError("duplicate operator names")
    # ---- associativity
    m = re.search(r"const\s+int\s+leftAssociative\s*=\s*(\d+)\s*;\s*const\s+int\s+rightAssociative\s*=\s*(\d+)\s*;", obody)
    if not m or (m.group(1), m.group(2)) != ("0", "1"):
        raise TranslateError("leftAssociative/rightAssociative constants changed")
    m = re.search(r"const\s+int\s+associativity\s*\[\s*(\d+)\s*\]\s*=\s*\{([^}]*)\}", obody)
    if not m:
        raise TranslateError("op::associativity not found")
    assoc = [1 if a.strip() == "rightAssociative" else 0 for a in m.group(2).split(",") if a.strip()]
    if len(assoc) != int(m.group(1)) or any(a.strip() not in ("leftAssociative", "rightAssociative")
                                            for a in m.group(2).split(",") if a.strip()):
        raise TranslateError("op::associativity has an unexpected shape")
    if max(o["prec"] for o in ops) >= len(assoc):
        raise TranslateError("an operator precedence exceeds the associativity table")
    # ---- tokenizer registrations
    m = re.search(r"void\s+getOperators\s*\(operatorTrie\s*&operators\)\s*\{(.*?)\n    \}", opsrc, re.S)
    if not m:
        raise TranslateError("getOperators not found")
    reg = []
    for mm in re.finditer(r"operators\.add\(op::(\w+)\.str\s*,\s*&op::(\w+)\)\s*;", strip_comments(m.group(1))):
        if mm.group(1) != mm.group(2) or mm.group(1) not in names:
            raise TranslateError("getOperators: unexpected registration %s" % mm.group(0))
        reg.append(mm.group(1))
    if len(reg) < 60:
        raise TranslateError("getOperators: only %d registrations recognised" % len(reg))
    # ---- ambiguous resolution (expressionParser::updateOperatorToken)
    psrc = read(LANG + "/expr/expressionParser.cpp")
    m = re.search(r"void\s+expressionParser::updateOperatorToken\(.*?\)\s*\{(.*?)\n    \}", psrc, re.S)
    if not m:
        raise TranslateError("updateOperatorToken not found")
    amb = []
    for mm in re.finditer(r"if\s*\(opType\s*&\s*operatorType::(\w+)\)\s*\{[^}]*?\?\s*\(const operator_t\*\)\s*&op::(\w+)"
                          r"\s*:\s*\(const operator_t\*\)\s*&op::(\w+)\)", m.group(1), re.S):
        if mm.group(1) not in types or mm.group(2) not in names or mm.group(3) not in names:
            raise TranslateError("updateOperatorToken: unknown names in %s" % mm.group(0)[:80])
        amb.append((mm.group(1), mm.group(2), mm.group(3)))
    if len(amb) != 7:
        raise TranslateError("updateOperatorToken: expected 7 ambiguous symbols, found %d" % len(amb))
    if not re.search(r"if\s*\(!\(opType\s*&\s*operatorType::ambiguous\)\)\s*\{\s*return;", m.group(1)):
        raise TranslateError("updateOperatorToken: the non-ambiguous early return changed")
    # getInitialExpression: a closing pair without its opening pair is reported (not popPair on the root scope)
    m = re.search(r"void\s+expressionParser::getInitialExpression\(\)\s*\{(.*?)\n    \}", psrc, re.S)
    if not m:
        raise TranslateError("getInitialExpression not found")
    gie = re.sub(r"\s+", " ", strip_comments(m.group(1)))
    unmatched_is_error = "if (state.scopedStates.size() < 2) { state.hasError = true;" in gie
    if not unmatched_is_error and "scopedStates.size()" in gie:
        raise TranslateError("getInitialExpression: the unmatched-closer guard has an unknown shape")
    # ---- printers
    bsrc = read(LANG + "/expr/binaryOpNode.cpp")
    m = re.search(r"void\s+binaryOpNode::print\(printer\s*&pout\)\s*const\s*\{(.*?)\n    \}", bsrc, re.S)
    if not m:
        raise TranslateError("binaryOpNode::print not found")
    pm = re.search(r"if\s*\(op\.opType\s*&\s*\(([^)]*)\)\)\s*\{\s*pout\s*<<\s*\*leftValue\s*<<\s*op\s*<<\s*\*rightValue;\s*\}"
                   r"\s*else\s+if\s*\(op\.opType\s*&\s*operatorType::comma\)\s*\{\s*pout\s*<<\s*\*leftValue\s*<<\s*\", \"\s*<<\s*\*rightValue;\s*\}"
                   r"\s*else\s*\{\s*pout\s*<<\s*\*leftValue\s*<<\s*' '\s*<<\s*op\s*<<\s*' '\s*<<\s*\*rightValue;\s*\}", m.group(1), re.S)
    if not pm:
        raise TranslateError("binaryOpNode::print no longer has the three-way shape (tight / comma / spaced)")
    tight = [t.strip().replace("operatorType::", "") for t in pm.group(1).split("|")]
    for t in tight:
        if t not in types:
            raise TranslateError("binaryOpNode::print: unknown operator type %s" % t)
    tb1 = tb2 = 0
    for t in tight:
        tb1 |= types[t][0]
        tb2 |= types[t][1]
    lsrc = read(LANG + "/expr/leftUnaryOpNode.cpp")
    m = re.search(r"void\s+leftUnaryOpNode::print\(printer\s*&pout\)\s*const\s*\{(.*?)\n    \}", lsrc, re.S)
    if not m:
        raise TranslateError("leftUnaryOpNode::print not found")
    lbody = strip_comments(m.group(1))
    if re.fullmatch(r"\s*pout\s*<<\s*op\s*<<\s*\*value;\s*", lbody):
        clash = []
    else:
        if not (re.search(r"value->type\(\)\s*&\s*exprNodeType::leftUnary", lbody) and
                re.search(r"c\s*==\s*nextOp\[0\]", lbody) and re.search(r"pout\s*<<\s*' ';", lbody)):
            raise TranslateError("leftUnaryOpNode::print has an unknown shape")
        clash = re.findall(r"c\s*==\s*'(.)'", lbody)
        if not clash:
            raise TranslateError("leftUnaryOpNode::print: separator characters not found")
    hsrc = read(LANG + "/expr/exprNode.hpp")
    mv = re.search(r"PRETTIER_MAX_VAR_WIDTH\s*=\s*(\d+)\s*;", hsrc)
    ml = re.search(r"PRETTIER_MAX_LINE_WIDTH\s*=\s*(\d+)\s*;", hsrc)
    if not mv or not ml:
        raise TranslateError("PRETTIER_MAX_* constants not found")
    # sizeofNode::print: always `sizeof(` value `)`, or the operand as it was written
    zsrc = strip_comments(read(LANG + "/expr/sizeofNode.cpp"))
    m = re.search(r"void\s+sizeofNode::print\(printer\s*&pout\)\s*const\s*\{(.*?)\n    \}", zsrc, re.S)
    if not m:
        raise TranslateError("sizeofNode::print not found")
    zbody = re.sub(r"\s+", " ", m.group(1)).strip()
    if zbody == "pout << \"sizeof(\" << *value << ')';":
        sizeof_as_written = False
    elif re.fullmatch(r"if \(value->type\(\) & exprNodeType::parentheses\) \{ pout << \"sizeof\" << \*value; \} "
                      r"else if \(value->type\(\) & \(exprNodeType::type \| exprNodeType::vartype\)\) \{ pout << \"sizeof\(\" << \*value << '\)'; \} "
                      r"else \{ pout << \"sizeof \" << \*value; \}", zbody):
        sizeof_as_written = True
    else:
        raise TranslateError("sizeofNode::print has an unknown shape: " + zbody[:120])
    m = re.search(r"else if \(opType & operatorType::sizeof_\) \{(.*?)\n      \}", psrc, re.S)
    if not m or re.sub(r"\s+", "", strip_comments(m.group(1))) != "state.pushOutput(newsizeofNode(&opToken,value));":
        raise TranslateError("applyLeftUnaryOperator: the sizeof_ branch changed")
    # operatorIsLeftUnary variants
    m = re.search(r"bool\s+expressionParser::operatorIsLeftUnary\(.*?\)\s*\{(.*?)\n    \}", psrc, re.S)
    if not m:
        raise TranslateError("operatorIsLeftUnary not found")
    ilu = strip_comments(m.group(1))
    if not re.search(r"return\s*\(onlyUnary\s*\?\s*prevTokenIsOp\s*:\s*nextTokenIsOp\);", ilu):
        raise TranslateError("operatorIsLeftUnary: the prevTokenIsOp != nextTokenIsOp branch changed")
    # the block "a value or a closed pair (that is not a cast) followed by + - * & is binary"
    ilu_n = re.sub(r"\s+", " ", ilu)
    f39 = ("if (!onlyUnary) { if (!(state.prevToken->type() & tokenType::op)) { return false; } "
           "if (prevOpType & operatorType::pairEnd) { const bool prevPairIsCast = ( state.operatorCount() "
           "&& (state.lastOperator().opType() & operatorType::parenCast) "
           "&& (state.lastOperator().token->origin.position.start == state.prevToken->origin.position.start) ); "
           "if (!prevPairIsCast) { return false; } } }")
    if f39 in ilu_n:
        operand_then_binary = True
        if not re.search(r"if \(!onlyUnary\) \{ return false; \} \} " + re.escape(f39) + r" const bool nextTokenIsOp", ilu_n):
            raise TranslateError("operatorIsLeftUnary: the binary-after-operand block moved")
    elif "prevPairIsCast" in ilu_n or "tokenType::op" in ilu_n:
        raise TranslateError("operatorIsLeftUnary: the binary-after-operand block has an unknown shape")
    else:
        operand_then_binary = False
    cast_end_prefix = bool(re.search(r"state\.prevToken\s*==\s*state\.castEndToken", ilu))
    if cast_end_prefix != bool(re.search(r"state\.pushPair\(state\.prevToken\s*==\s*state\.castEndToken\s*\?\s*NULL\s*:\s*state\.prevToken\)", strip_comments(psrc))):
        raise TranslateError("castEndToken is used in operatorIsLeftUnary but not in pushPair (or the reverse)")
    pairend_ends_operand = bool(re.search(r"nextToken->getOpType\(\)\s*&\s*operatorType::pairEnd", ilu))
    m = re.search(r"void\s+expressionParser::applyFasterOperators\(.*?\)\s*\{(.*?)\n    \}", psrc, re.S)
    if not m:
        raise TranslateError("applyFasterOperators not found")
    afo = strip_comments(m.group(1))
    afo_n = re.sub(r"\s+", " ", afo)
    prec_test = ("(op.precedence > prevOp.precedence) || ((op.precedence == prevOp.precedence) && "
                 "op::associativity[prevOp.precedence] == op::leftAssociative)")
    if prec_test not in afo_n:
        raise TranslateError("applyFasterOperators: the precedence comparison changed")
    tail = ("if (applyPrevOp) { applyOperator(state.popOperator()); if (state.hasError) { return; } "
            "if (foundQuestionMark) { break; } continue; } break; }")
    mode1 = ("bool foundQuestionMark = false; if (op.precedence == prevOp.precedence) { if (op.opType & operatorType::questionMark) "
             "{ applyPrevOp = false; } else if (op.opType & operatorType::colon) { foundQuestionMark = (prevOp.opType & "
             "operatorType::questionMark); } } " + tail)
    mode2 = ("bool foundQuestionMark = false; if (op.opType & operatorType::colon) { applyPrevOp = true; foundQuestionMark = "
             "(prevOp.opType & operatorType::questionMark); } else if (prevOp.opType & operatorType::questionMark) { applyPrevOp = false; } "
             "else if ((op.precedence == prevOp.precedence) && (op.opType & operatorType::questionMark)) { applyPrevOp = false; } " + tail)
    if "applyPrevOp" not in afo_n:
        if not re.search(r"if \(" + re.escape(prec_test) + r"\) \{ applyOperator\(state\.popOperator\(\)\); if \(state\.hasError\) \{ return; \} continue; \} break; \}", afo_n):
            raise TranslateError("applyFasterOperators: unknown loop shape")
        ternary_mode = 0
    elif mode1 in afo_n:
        ternary_mode = 1
    elif mode2 in afo_n:
        ternary_mode = 2
    else:
        raise TranslateError("applyFasterOperators: the handling of ? and : has an unknown shape")
    # string/char nodes: is the encoding prefix printed?
    ssrc = strip_comments(read(LANG + "/expr/stringNode.cpp"))
    csrc = strip_comments(read(LANG + "/expr/charNode.cpp"))
    str_prefix = bool(re.search(r"encoding", re.search(r"stringNode::print\(printer &pout\) const \{(.*?)\n    \}", ssrc, re.S).group(1)))
    chr_prefix = bool(re.search(r"encoding", re.search(r"charNode::print\(printer &pout\) const \{(.*?)\n    \}", csrc, re.S).group(1)))
    # escape()
    usrc = read("src/occa/internal/utils/string.cpp")
    m = re.search(r"std::string escape\(const std::string &str,\s*const char c,\s*const char escapeChar\)\s*\{(.*?)\n  \}", usrc, re.S)
    if not m:
        raise TranslateError("escape() not found")
    if re.search(r"if\s*\(i\s*&&\s*escapeChar\)", m.group(1)):
        skips0 = True
    elif re.search(r"if\s*\(escapeChar\)", m.group(1)):
        skips0 = False
    else:
        raise TranslateError("escape(): guard around the escape character changed")

    def ty(n):
        return "(%d, %d)" % types[n]

    L = ["-- GENERATED by translate/gen_ops.py from lang/operator.cpp, lang/expr/expressionParser.cpp,",
         "-- lang/expr/{binaryOpNode,leftUnaryOpNode,stringNode,charNode}.cpp, lang/expr/exprNode.hpp, utils/string.cpp; do not edit.",
         "namespace Occa.Gen", "",
         "/-- every operator of `namespace op` in lang/operator.cpp, in source order -/",
         "inductive Op where"]
    L += ["  | %s" % ln(n) for n in names]
    L += ["  deriving DecidableEq, Repr, Inhabited", "",
          "def Op.all : List Op := [%s]" % ", ".join("." + ln(n) for n in names), "",
          "/-- spelling (`operator_t::str`) -/", "def Op.str : Op → String"]
    L += ["  | .%s => %s" % (ln(o["name"]), lean_str(o["str"])) for o in ops]
    L += ["", "/-- `operator_t::precedence` (0 for pair operators) -/", "def Op.prec : Op → Nat"]
    L += ["  | .%s => %d" % (ln(o["name"]), o["prec"]) for o in ops]
    L += ["", "/-- `operator_t::opType` as the two words (b1, b2) of `bitfield` -/", "def Op.ty : Op → Nat × Nat"]
    L += ["  | .%s => %s" % (ln(o["name"]), ty(o["ty"])) for o in ops]
    L += ["", "/-- `pairOperator_t::pairStr` (empty for the others) -/", "def Op.pairStr : Op → String"]
    L += ["  | .%s => %s" % (ln(o["name"]), lean_str(o["pair"])) for o in ops]
    L += ["", "/-- name as written in the source (for dumps) -/", "def Op.name : Op → String"]
    L += ["  | .%s => %s" % (ln(n), lean_str(n)) for n in names]
    L += ["", "/-! operatorType constants (atoms and composites) as (b1, b2) -/", "namespace T"]
    L += ["def %s : Nat × Nat := %s" % (ln(n), ty(n)) for n in order]
    L += ["end T", "",
          "/-- `op::associativity[19]`: 0 = leftAssociative, 1 = rightAssociative -/",
          "def assoc : List Nat := [%s]" % ", ".join(str(a) for a in assoc), "",
          "/-- spellings registered in the tokenizer's operator trie by getOperators(), in order -/",
          "def registered : List Op := [%s]" % ", ".join("." + ln(n) for n in reg), "",
          "/-- updateOperatorToken(): (composite tested, operator when left unary, operator otherwise), in order -/",
          "def ambiguousTable : List ((Nat × Nat) × Op × Op) := [%s]" %
          ", ".join("(%s, .%s, .%s)" % (ty(c), ln(l), ln(r)) for c, l, r in amb), "",
          "/-- binaryOpNode::print: operators printed as `left op right` without blanks -/",
          "def tightBinary : Nat × Nat := (%d, %d)" % (tb1, tb2), "",
          "/-- leftUnaryOpNode::print: a blank separates the operator from a following prefix operator when the",
          "    last character of the first equals the first character of the second and is one of these -/",
          "def unarySeparatorChars : List Char := [%s]" % ", ".join("'%s'" % c for c in clash), "",
          "def prettierMaxVarWidth : Nat := %s" % mv.group(1),
          "def prettierMaxLineWidth : Nat := %s" % ml.group(1), "",
          "/-- sizeofNode::print writes the operand as it was parsed (`sizeof(x)`, `sizeof x`) instead of always adding ( ) -/",
          "def sizeofPrintsAsWritten : Bool := %s" % ("true" if sizeof_as_written else "false"),
          "/-- operatorIsLeftUnary: `+ - * & ::` after a value or a closed pair that is not a cast are binary whatever follows -/",
          "def operandThenBinary : Bool := %s" % ("true" if operand_then_binary else "false"),
          "/-- operatorIsLeftUnary: a closing pair after the operator ends the operand -/",
          "def pairEndEndsOperand : Bool := %s" % ("true" if pairend_ends_operand else "false"),
          "/-- getInitialExpression reports a closing pair without its opening pair instead of popping the root scope -/",
          "def unmatchedCloserIsError : Bool := %s" % ("true" if unmatched_is_error else "false"),
          "/-- the ) of a (type) cast counts as a prefix operator (operatorIsLeftUnary, pushPair) -/",
          "def castEndIsPrefix : Bool := %s" % ("true" if cast_end_prefix else "false"),
          "/-- applyFasterOperators: 0 = `?` `:` are ordinary level-16 operators; 1 = `?` keeps a pending `?`/`:` and `:` stops at its `?`;",
          "    2 = additionally a pending `?` is closed only by its `:`, which applies everything in between -/",
          "def ternaryMode : Nat := %d" % ternary_mode,
          "/-- stringNode::print / charNode::print emit the encoding prefix and the suffix -/",
          "def stringNodePrintsEncoding : Bool := %s" % ("true" if str_prefix else "false"),
          "def charNodePrintsEncoding : Bool := %s" % ("true" if chr_prefix else "false"),
          "/-- escape(): the delimiter at index 0 is NOT escaped (`if (i && escapeChar)`) -/",
          "def escapeSkipsIndex0 : Bool := %s" % ("true" if skips0 else "false"),
          "", "end Occa.Gen", ""]
    h = write_if_changed(os.path.join(VERIF, "lean/OccaGen/OpTable.lean"), "\n".join(L))
    return {"OpTable": h}


if __name__ == "__main__":
    try:
        print(gen())
    except TranslateError as e:
        print("TRANSLATE-ERROR:", e)
        sys.exit(3)
