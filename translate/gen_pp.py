#!/usr/bin/env python3
"""Regenerate lean/OccaGen/PpStatus.lean from the CURRENT sources of the preprocessor:

   * the ppStatus flag values                          (src/occa/internal/lang/preprocessor.cpp)
   * the order of the tests in preprocessor_t::processElif: does it look at the finishedIf / reading
     state BEFORE it evaluates the condition (repaired, F17) or after (original)?
   * whether lineIsTrue() itself pushes a status on a malformed condition (original) or leaves that to
     processIf (repaired, F17)
   * whether lineIsTrue() re-types the integer tokens as intmax_t/uintmax_t (repaired, F60)
   * whether binaryOpNode::evaluate short-circuits && and || (C14's F18)
   * whether __VA_ARGS__ substitution re-inserts the separating commas (repaired, F61)
   * the precedence of every operator usable in #if and the associativity table (operator.cpp)

   Everything is a regex over the source text; if a shape is not recognised the translator raises
   TranslateError (a broken tie), it never guesses.
"""
import os, re, sys
sys.path.insert(0, os.path.dirname(os.path.abspath(__file__)))
from cxx2lean import *

PP = "src/occa/internal/lang/preprocessor.cpp"
FLAGS = ["reading", "ignoring", "foundIf", "foundElse", "finishedIf"]
# operators of the #if grammar: spelling -> name of the operator_t object in namespace op
BINOPS = {"*": "mult", "/": "div", "%": "mod", "+": "add", "-": "sub", "<<": "leftShift", ">>": "rightShift",
          "<": "lessThan", "<=": "lessThanEq", ">": "greaterThan", ">=": "greaterThanEq", "==": "equal", "!=": "notEqual",
          "&": "bitAnd", "^": "xor_", "|": "bitOr", "&&": "and_", "||": "or_"}
UNOPS = {"!": "not_", "+": "positive", "-": "negative", "~": "tilde"}


def body_of(src, signature_re, what):
    # comments may contain braces ("a closing ), ] or } ends the operand"): blank them out first
    src = re.sub(r"//[^\n]*", "", src)
    src = re.sub(r"/\*.*?\*/", lambda mm: re.sub(r"[^\n]", " ", mm.group(0)), src, flags=re.S)
    m = re.search(signature_re, src)
    if not m:
        raise TranslateError("%s not found" % what)
    i = src.index("{", m.end() - 1)
    depth, j = 0, i
    while j < len(src):
        if src[j] == "{":
            depth += 1
        elif src[j] == "}":
            depth -= 1
            if depth == 0:
                return src[i:j + 1]
        j += 1
    raise TranslateError("unbalanced braces in %s" % what)


def flags():
    """the shape facts as a python dict (also used by the plugin to steer its generator)"""
    src = open(os.path.join(REPO, PP)).read()
    vals = {}
    for f in FLAGS:
        m = re.search(r"const\s+int\s+%s\s*=\s*\(1\s*<<\s*(\d+)\)\s*;" % f, src)
        if not m:
            raise TranslateError("ppStatus::%s = (1 << k) not found" % f)
        vals[f] = 1 << int(m.group(1))
    if len(set(vals.values())) != len(FLAGS):
        raise TranslateError("ppStatus flags are not distinct bits: %s" % vals)
    elif_ = body_of(src, r"void\s+preprocessor_t::processElif\s*\([^)]*\)\s*\{", "processElif")
    p_eval = elif_.find("lineIsTrue(")
    m_fin = re.search(r"if\s*\(\s*status\s*&\s*ppStatus::finishedIf\s*\)", elif_)
    m_read = re.search(r"if\s*\(\s*status\s*&\s*ppStatus::reading\s*\)", elif_)
    p_fin = m_fin.start() if m_fin else -1
    if p_eval < 0 or p_fin < 0 or not m_read:
        raise TranslateError("processElif: expected a lineIsTrue() call and tests of finishedIf and reading")
    first = p_fin < p_eval and m_read.start() < p_eval
    last = p_fin > p_eval and m_read.start() > p_eval
    if not (first or last):
        raise TranslateError("processElif: the state tests are neither all before nor all after lineIsTrue()")
    lit = body_of(src, r"bool\s+preprocessor_t::lineIsTrue\s*\([^)]*\)\s*\{", "lineIsTrue")
    pushes = "pushStatus(" in lit
    pif = body_of(src, r"void\s+preprocessor_t::processIf\s*\([^)]*\)\s*\{", "processIf")
    if pushes == (pif.count("pushStatus(") >= 3):
        raise TranslateError("lineIsTrue/processIf: cannot tell who pushes the status of a malformed #if")
    if first and pushes:
        raise TranslateError("processElif tests the state first but lineIsTrue still pushes a status")
    intmax = bool(re.search(r"tokenType::primitive", lit)) and "int64_t" in src[src.find("lineIsTrue") - 4000: src.find("lineIsTrue") + 3000]
    if not intmax and re.search(r"int64_t|intmax", lit):
        raise TranslateError("lineIsTrue mentions 64-bit types in an unexpected way")
    bsrc = open(os.path.join(REPO, "src/occa/internal/lang/expr/binaryOpNode.cpp")).read()
    ev = body_of(bsrc, r"primitive\s+binaryOpNode::evaluate\s*\(\s*\)\s*const\s*\{", "binaryOpNode::evaluate")
    stm = [x.strip() for x in re.sub(r"//[^\n]*", "", ev[1:-1]).split(";") if x.strip()]
    if len(stm) == 3 and "leftValue->evaluate()" in stm[0] and "rightValue->evaluate()" in stm[1] and stm[2].startswith("return"):
        short = False
    elif "operatorType::and_" in ev and "operatorType::or_" in ev and ev.find("leftValue->evaluate()") < ev.find("operatorType::and_") < ev.find("rightValue->evaluate()"):
        short = True
    else:
        raise TranslateError("binaryOpNode::evaluate has an unrecognised shape")
    esrc = open(os.path.join(REPO, "src/occa/internal/lang/expr/expressionParser.cpp")).read()
    lu = body_of(esrc, r"bool\s+expressionParser::operatorIsLeftUnary\s*\([^)]*\)\s*\{", "operatorIsLeftUnary")
    # C15's N3: a value followed by + - * & is binary even when a unary operator follows
    unary_fixed = bool(re.search(r"if\s*\(\s*!onlyUnary\s*\)\s*\{\s*if\s*\(\s*!\(state\.prevToken->type\(\)\s*&\s*tokenType::op\)\)\s*\{\s*return\s+false;", lu))
    if not unary_fixed and "prevTokenIsOp != nextTokenIsOp" not in lu:
        raise TranslateError("operatorIsLeftUnary has an unrecognised shape")
    af = body_of(esrc, r"void\s+expressionParser::applyFasterOperators\s*\([^)]*\)\s*\{", "applyFasterOperators")
    # C15's N5: `?` does not pop a pending `?`/`:` and `:` is applied up to its `?`
    tern_fixed = "operatorType::questionMark" in af and "operatorType::colon" in af
    if not tern_fixed and "questionMark" in af:
        raise TranslateError("applyFasterOperators mentions questionMark in an unrecognised way")
    pid = body_of(src, r"void\s+preprocessor_t::processIdentifier\s*\([^)]*\)\s*\{", "processIdentifier")
    # F64: `defined X` (no parentheses) handled before the function-like test, operand fetched raw
    defined_bare = bool(re.search(r"dynamic_cast<definedMacro\s*\*>\s*\(\s*macro\s*\)", pid)) and "getSourceToken()" in pid
    msrc = open(os.path.join(REPO, "src/occa/internal/lang/macro.cpp")).read()
    ma = body_of(msrc, r"bool\s+macroArgument::expand\s*\([^)]*\)\s*\{", "macroArgument::expand")
    commas = "op::comma" in ma
    return dict(vals, elifChecksStateFirst=first, lineIsTruePushes=pushes, intmaxLiterals=intmax,
                shortCircuit=short, vaArgsKeepCommas=commas,
                unaryAfterBinaryFixed=unary_fixed, nestedTernaryFixed=tern_fixed,
                definedWithoutParens=defined_bare)


def precedences():
    src = open(os.path.join(REPO, "src/occa/internal/lang/operator.cpp")).read()
    out = {}
    for table, cls in ((BINOPS, "binaryOperator_t"), (UNOPS, "unaryOperator_t")):
        for sp, name in table.items():
            m = re.search(r"const\s+%s\s+%s\s*\(\s*\"([^\"]+)\"\s*,\s*operatorType::%s\s*,\s*(\d+)\s*\)" % (cls, name, name), src)
            if not m:
                raise TranslateError("operator %s (%s) not found in operator.cpp" % (name, sp))
            if m.group(1) != sp:
                raise TranslateError("operator %s is spelled %r, expected %r" % (name, m.group(1), sp))
            out[(cls, sp)] = int(m.group(2))
    tern = []
    for name, sp in (("questionMark", "?"), ("colon", ":")):
        m = re.search(r"const\s+unaryOperator_t\s+%s\s*\(\s*\"\%s\"\s*,\s*operatorType::%s\s*,\s*(\d+)\s*\)" % (name, sp, name), src)
        if not m:
            raise TranslateError("ternary operator part %s not found" % name)
        tern.append(int(m.group(1)))
    m = re.search(r"const\s+int\s+associativity\[(\d+)\]\s*=\s*\{(.*?)\};", src, re.S)
    if not m:
        raise TranslateError("associativity table not found")
    assoc = re.findall(r"\b(leftAssociative|rightAssociative)\b", re.sub(r"//[^\n]*", "", m.group(2)))
    if len(assoc) != int(m.group(1)):
        raise TranslateError("associativity table has %d entries, declared %s" % (len(assoc), m.group(1)))
    return out, tern, assoc


def lb(b):
    return "true" if b else "false"


def gen():
    fl = flags()
    prec, tern, assoc = precedences()
    out = ["-- GENERATED by translate/gen_pp.py from preprocessor.cpp, macro.cpp, binaryOpNode.cpp, operator.cpp; do not edit.",
           "namespace Occa.Gen.Pp", ""]
    for f in FLAGS:
        out.append("def %s : Nat := %d" % (f + "Flag", fl[f]))
    out += ["",
            "/-- processElif looks at finishedIf / reading BEFORE evaluating its condition (F17 repaired) -/",
            "def elifChecksStateFirst : Bool := %s" % lb(fl["elifChecksStateFirst"]),
            "/-- lineIsTrue() itself pushes `ignoring|foundIf` when the condition is malformed (original code) -/",
            "def lineIsTruePushes : Bool := %s" % lb(fl["lineIsTruePushes"]),
            "/-- lineIsTrue() re-types integer tokens as intmax_t / uintmax_t (F60 repaired) -/",
            "def intmaxLiterals : Bool := %s" % lb(fl["intmaxLiterals"]),
            "/-- binaryOpNode::evaluate does not evaluate the right operand of && / || when the left decides (F18 repaired) -/",
            "def shortCircuit : Bool := %s" % lb(fl["shortCircuit"]),
            "/-- __VA_ARGS__ keeps the commas between the variable arguments (F61 repaired) -/",
            "def vaArgsKeepCommas : Bool := %s" % lb(fl["vaArgsKeepCommas"]),
            "/-- processIdentifier handles `defined X` without parentheses (F64 repaired) -/",
            "def definedWithoutParens : Bool := %s" % lb(fl["definedWithoutParens"]),
            "/-- expressionParser: a binary + - * & before a unary operator is parsed as binary (C15's N3 repaired) -/",
            "def unaryAfterBinaryFixed : Bool := %s" % lb(fl["unaryAfterBinaryFixed"]),
            "/-- expressionParser: nested ?: groups right-to-left (C15's N5 repaired) -/",
            "def nestedTernaryFixed : Bool := %s" % lb(fl["nestedTernaryFixed"]),
            "",
            "/-- (spelling, precedence) of the binary operators usable in #if; smaller binds tighter -/",
            "def binPrec : List (String × Nat) := [%s]" % ", ".join('("%s", %d)' % (sp, prec[("binaryOperator_t", sp)]) for sp in BINOPS),
            "def unPrec : List (String × Nat) := [%s]" % ", ".join('("%s", %d)' % (sp, prec[("unaryOperator_t", sp)]) for sp in UNOPS),
            "def questionPrec : Nat := %d" % tern[0],
            "def colonPrec : Nat := %d" % tern[1],
            "/-- op::associativity[level]: true = rightAssociative -/",
            "def rightAssoc : List Bool := [%s]" % ", ".join(lb(a == "rightAssociative") for a in assoc),
            "", "end Occa.Gen.Pp", ""]
    h = write_if_changed(os.path.join(VERIF, "lean/OccaGen/PpStatus.lean"), "\n".join(out))
    return {"PpStatus": h}


if __name__ == "__main__":
    try:
        print(gen())
        print(flags())
    except TranslateError as e:
        print("TRANSLATE-ERROR:", e)
        sys.exit(3)
