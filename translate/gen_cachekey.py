#!/usr/bin/env python3
"""Regenerate lean/OccaGen/CacheKeyFields.lean from the four places that make up a kernel cache key:

   src/occa/internal/modes/serial/device.cpp   serial::device::kernelHash   (compiler-related properties)
   src/occa/internal/modes/openmp/device.cpp   openmp::device::kernelHash   (serial key + a constant)
   src/core/kernel.cpp                         kernelHeaderHash             (defines/includes/headers/functions)
   src/core/device.cpp                         device::setupKernelInfo      (the parts of the key)
                                               device::applyDependencyHash  (the dependency chain)

   What is extracted: WHICH property names are hashed, in which order, HOW they are combined
   (`xor` of the value hashes, or the hash of one object that labels every value with its name),
   whether unset values are skipped, how hash values are rendered when they become part of
   another hashed object (getFullString = all 256 bits, getString = 64 bits), and for the
   dependency chain: recursion or loop, visited-guard, combinator, labels.

   Both the historical shape (`occa::hash(props["a"]) ^ props["b"] ^ ...`) and the labelled shape
   (`static const char *hashedProps[] = {...}; key[name] = value; return occa::hash(key);`) are
   recognised; anything else raises TranslateError (a broken tie, never skipped).
   The theorems of C06/C07 demand the labelled combinator, the full rendering and the named
   property list, so a dropped field or a changed combinator makes them fail to check.
"""
import os, re, sys
sys.path.insert(0, os.path.dirname(os.path.abspath(__file__)))
from cxx2lean import REPO, VERIF, TranslateError, write_if_changed


def strip_comments(s):
    s = re.sub(r"/\*.*?\*/", " ", s, flags=re.S)
    return re.sub(r"//[^\n]*", "", s)


def body_of(src, header_re, what):
    """text between the braces of the first function whose header matches header_re"""
    m = re.search(header_re, src)
    if not m:
        raise TranslateError("%s: function header not found" % what)
    i = src.index("{", m.end() - 1)
    depth, j = 0, i
    while j < len(src):
        if src[j] == "{":
            depth += 1
        elif src[j] == "}":
            depth -= 1
            if depth == 0:
                return src[i + 1:j]
        j += 1
    raise TranslateError("%s: unbalanced braces" % what)


def lstr(s):
    return '"' + s.replace("\\", "\\\\").replace('"', '\\"') + '"'


def llist(xs):
    return "[" + ", ".join(xs) + "]"


def field_hash(body, what):
    """-> (fields, comb, skips_unset)"""
    b = " ".join(body.split())
    # historical shape:  return ( occa::hash(props["a"]) ^ props["b"] ^ ... );
    m = re.fullmatch(r'return \(? ?occa::hash\(props\["([\w/]+)"\]\)((?: \^ props\["[\w/]+"\])*) ?\)? ?;', b)
    if m:
        fields = [m.group(1)] + re.findall(r'\^ props\["([\w/]+)"\]', m.group(2))
        return fields, "xor", False
    # labelled shape
    m = re.search(r'static const char ?\* ?(\w+)\[\] = \{([^}]*)\};', b)
    if not m:
        raise TranslateError("%s: neither the xor shape nor the labelled shape" % what)
    arr, items = m.group(1), m.group(2)
    fields = re.findall(r'"([^"]*)"', items)
    if not fields or re.sub(r'"[^"]*"|[,\s]', "", items):
        raise TranslateError("%s: cannot read the property-name table" % what)
    rest = b[m.end():].strip()
    pat = (r'occa::json (\w+); for \(const char ?\* ?(\w+) : %s\) \{ const occa::json ?& ?(\w+) = props\[\2\]; '
           r'(if \(\3\.isInitialized\(\)\) \{ )?\1\[\2\] = \3; (\} )?\} return occa::hash\(\1\);') % arr
    m2 = re.fullmatch(pat, rest)
    if not m2:
        raise TranslateError("%s: labelled shape, but the loop/return is not the expected one: %s" % (what, rest[:200]))
    if bool(m2.group(4)) != bool(m2.group(5)):
        raise TranslateError("%s: unbalanced guard" % what)
    return fields, "labelled", bool(m2.group(4))


PART_EXPR = [
    (r'hash\(\)', "deviceHash"),
    (r'modeDevice->kernelHash\(kernelProps\)', "modeHash"),
    (r'kernelHeaderHash\(kernelProps\)', "headerHash"),
    (r'sourceHash', "sourceHash"),
]


def classify_part(e, what):
    """-> (lean KeyPart term, render or None)"""
    e = e.strip()
    for rx, name in PART_EXPR:
        m = re.fullmatch(rx + r'(?:\.(getFullString|getString)\(\))?', e)
        if m:
            return "." + name, {"getFullString": "full", "getString": "short", None: "raw"}[m.group(1)]
    m = re.fullmatch(r'kernelProps\["([\w/]+)"\]', e)
    if m:
        return "(.prop %s)" % lstr(m.group(1)), None
    raise TranslateError("%s: unknown key part `%s`" % (what, e))


def setup_info(body):
    b = " ".join(body.split())
    if not re.search(r'kernelProps = kernelProperties\(props\);', b):
        raise TranslateError("setupKernelInfo: kernelProps = kernelProperties(props) not found")
    then_deps = bool(re.search(r'kernelHash = applyDependencyHash\(kernelHash\);', b))
    m = re.search(r'kernelHash = \(? ?((?:[^;^]+ \^ )+[^;^]+?) ?\)? ?;', b)
    if m and "occa::hash(" not in m.group(0):
        parts = []
        for e in m.group(1).split("^"):
            t, r = classify_part(e, "setupKernelInfo")
            if r != "raw":
                raise TranslateError("setupKernelInfo: xor of a rendered hash")
            parts.append(("", t, False))
        return parts, "xor", "full", then_deps
    m = re.search(r'occa::json (\w+);(.*?)kernelHash = occa::hash\(\1\);', b)
    if not m:
        raise TranslateError("setupKernelInfo: neither the xor shape nor the labelled shape")
    var, mid = m.group(1), m.group(2)
    parts, renders = [], set()
    pos = 0
    stmt = re.compile(r'\s*(?:if \((kernelProps\["[\w/]+"\])\.isInitialized\(\)\) \{ %s\["(\w+)"\] = ([^;]+); \}'
                      r'|%s\["(\w+)"\] = ([^;]+);)' % (var, var))
    while pos < len(mid) and mid[pos:].strip():
        mm = stmt.match(mid, pos)
        if not mm:
            raise TranslateError("setupKernelInfo: unexpected statement in the key assembly: %s" % mid[pos:pos + 120])
        if mm.group(1):
            if mm.group(3).strip() != mm.group(1):
                raise TranslateError("setupKernelInfo: guard and value differ")
            t, r = classify_part(mm.group(3), "setupKernelInfo")
            parts.append((mm.group(2), t, True))
        else:
            t, r = classify_part(mm.group(5), "setupKernelInfo")
            parts.append((mm.group(4), t, False))
        if r == "raw":
            raise TranslateError("setupKernelInfo: a hash_t is stored in the key object without a string rendering")
        if r:
            renders.add(r)
        pos = mm.end()
    render = "full" if renders <= {"full"} else "short"
    return parts, "labelled", render, then_deps


def chain_info(body):
    b = " ".join(body.split())
    info = {}
    info["iterative"] = bool(re.search(r'while \(true\)', b)) and not re.search(r'return applyDependencyHash\(', b)
    if not info["iterative"] and not re.search(r'return applyDependencyHash\(', b):
        raise TranslateError("applyDependencyHash: neither a loop nor a recursion")
    if not (re.search(r'io::hashDir\(\w+\) \+ kc::buildFile', b) or
            re.search(r'const std::string (\w+) = io::hashDir\(\w+\); const std::string \w+ = \1 \+ kc::buildFile;', b)):
        raise TranslateError("applyDependencyHash: build file lookup not found")
    if not re.search(r'buildJson\["kernel/dependencies"\]', b):
        raise TranslateError("applyDependencyHash: kernel/dependencies not read")
    if not re.search(r'if \(io::exists\(dependency\)\)', b) or not re.search(r'hashFile\(dependency\)', b):
        raise TranslateError("applyDependencyHash: dependency existence / hashFile not found")
    if not re.search(r'if \(dependencyHash != newDependencyHash\) \{ foundDependencyChanges = true; \}', b):
        raise TranslateError("applyDependencyHash: changed-dependency test not found")
    if re.search(r'\w+ \^= newDependencyHash;', b):
        info.update(comb="xor", render="full", hashLabel="", depsLabel="", guard=False, guardOn="none")
        return info
    # labelled: <deps>.set(dependency, newDependencyHash.getFullString());  next["hash"] = cur.getFullString();
    m = re.search(r'(\w+)\.set\(dependency, newDependencyHash\.(getFullString|getString)\(\)\);', b)
    if not m:
        raise TranslateError("applyDependencyHash: neither xor nor labelled chaining")
    depsVar, r1 = m.group(1), m.group(2)
    m = re.search(r'json (\w+); \1\["(\w+)"\] = (\w+)\.(getFullString|getString)\(\); \1\["(\w+)"\] = %s;' % depsVar, b)
    if not m:
        raise TranslateError("applyDependencyHash: next-key object not recognised")
    nextVar, hashLabel, curVar, r2, depsLabel = m.groups()
    if not re.search(r'%s = occa::hash\(%s\);' % (curVar, nextVar), b):
        raise TranslateError("applyDependencyHash: next hash is not occa::hash of the key object")
    info.update(comb="labelled", render="full" if (r1, r2) == ("getFullString", "getFullString") else "short",
                hashLabel=hashLabel, depsLabel=depsLabel)
    # visited guard:  std::set<std::string> V; ... OCCA_ERROR(..., V.insert(<dir>).second);
    g = re.search(r'std::set<std::string> (\w+);', b)
    info["guard"], info["guardOn"] = False, "none"
    if g:
        v = g.group(1)
        if re.search(r'OCCA_ERROR\(.*?, ?%s\.insert\((\w+)\)\.second\);' % v, b):
            d = re.search(r'OCCA_ERROR\(.*?, ?%s\.insert\((\w+)\)\.second\);' % v, b).group(1)
            if re.search(r'const std::string %s = io::hashDir\(%s\);' % (d, curVar), b):
                info["guard"], info["guardOn"] = True, "dir"
    return info


def gen():
    rd = lambda p: strip_comments(open(os.path.join(REPO, p)).read())
    serial = rd("src/occa/internal/modes/serial/device.cpp")
    openmp = rd("src/occa/internal/modes/openmp/device.cpp")
    kern = rd("src/core/kernel.cpp")
    dev = rd("src/core/device.cpp")

    sf, sc, ss = field_hash(body_of(serial, r"hash_t device::kernelHash\(const occa::json ?& ?props\) const \{", "serial kernelHash"),
                            "serial::device::kernelHash")
    hf, hc, hs = field_hash(body_of(kern, r"hash_t kernelHeaderHash\(const occa::json ?& ?props\) \{", "kernelHeaderHash"),
                            "kernelHeaderHash")
    ob = " ".join(body_of(openmp, r"hash_t device::kernelHash\(const occa::json ?& ?props\) const \{", "openmp kernelHash").split())
    m = re.fullmatch(r'return \( serial::device::kernelHash\(props\) \^ occa::hash\("([^"]*)"\) \);', ob)
    if not m:
        raise TranslateError("openmp::device::kernelHash is not `serial key ^ hash(constant)`: %s" % ob[:200])
    salt = m.group(1)
    parts, pc, pr, then_deps = setup_info(body_of(dev, r"void device::setupKernelInfo\(", "setupKernelInfo"))
    ci = chain_info(body_of(dev, r"hash_t device::applyDependencyHash\(const hash_t ?& ?kernelHash\) const \{", "applyDependencyHash"))

    B = lambda x: "true" if x else "false"
    out = ["-- GENERATED by translate/gen_cachekey.py from serial/device.cpp, openmp/device.cpp, core/kernel.cpp,",
           "-- core/device.cpp; do not edit.",
           "import OccaModel.CacheKeyBase", "namespace Occa.Gen", "open Occa.CacheKeyBase", "",
           "/-- serial::device::kernelHash: the properties hashed, in source order -/",
           "def serialFields : List String := %s" % llist(lstr(f) for f in sf),
           "def serialComb : Comb := .%s" % sc,
           "def serialSkipsUnset : Bool := %s" % B(ss),
           "/-- openmp::device::kernelHash = serial key xor hash(this constant) -/",
           "def openmpSalt : String := %s" % lstr(salt),
           "/-- kernelHeaderHash -/",
           "def headerFields : List String := %s" % llist(lstr(f) for f in hf),
           "def headerComb : Comb := .%s" % hc,
           "def headerSkipsUnset : Bool := %s" % B(hs),
           "/-- device::setupKernelInfo: (label, part, only-if-set) in source order -/",
           "def setupParts : List (String × KeyPart × Bool) := %s" % llist("(%s, %s, %s)" % (lstr(l), t, B(g)) for l, t, g in parts),
           "def setupComb : Comb := .%s" % pc,
           "def setupRender : Render := .%s" % pr,
           "def setupThenDeps : Bool := %s" % B(then_deps),
           "/-- device::applyDependencyHash -/",
           "def chainComb : Comb := .%s" % ci["comb"],
           "def chainRender : Render := .%s" % ci["render"],
           "def chainHashLabel : String := %s" % lstr(ci["hashLabel"]),
           "def chainDepsLabel : String := %s" % lstr(ci["depsLabel"]),
           "def chainIterative : Bool := %s" % B(ci["iterative"]),
           "/-- the loop refuses to enter a cache directory twice -/",
           "def chainVisitedGuard : Bool := %s" % B(ci["guard"]),
           "", "end Occa.Gen", ""]
    h = write_if_changed(os.path.join(VERIF, "lean/OccaGen/CacheKeyFields.lean"), "\n".join(out))
    return {"CacheKeyFields": h}


if __name__ == "__main__":
    try:
        print(gen())
    except TranslateError as e:
        print("TRANSLATE-ERROR:", e)
        sys.exit(3)
