#!/usr/bin/env python3
"""Regenerate lean/OccaGen/Operators.lean and lean/OccaGen/Charsets.lean from the tokenizer's sources.

   Operators.lean   src/occa/internal/lang/operator.cpp
       allOps       every `op::NAME` definition: name, spelling, operatorType, precedence
       registered   the spellings held by the tokenizer's operator trie after getOperators(), in the
                    order of `trie::values` (operator id = index; trie::add overwrites the value of a
                    spelling that is already present, it does not append), with their names
       lineCommentId / blockCommentId   ids of the two comment openers
   Charsets.lean    src/occa/internal/lang/token/token.cpp (charcodes::*, encodingType::*),
                    src/occa/internal/utils/lex.cpp (whitespaceCharset, numberCharset),
                    src/occa/internal/lang/tokenizer.cpp (getEncodingType prefix letters),
                    src/occa/internal/utils/string.hpp (uppercase)
       character sets as `List Char`, encoding bits, the prefix-letter table, and `sourceShape`:
       for every statement shape the hand-written model depends on (and every repair F16, FL1..FL6)
       a Boolean saying whether the CURRENT source has that shape.  C12_source_shape proves they
       are all true; when the source changes shape that theorem (and nothing else) breaks.
"""
import os, re, sys
sys.path.insert(0, os.path.dirname(os.path.abspath(__file__)))
from cxx2lean import REPO, VERIF, TranslateError, write_if_changed

ESC = {"n": "\n", "t": "\t", "r": "\r", "v": "\v", "f": "\f", "\\": "\\", '"': '"', "'": "'", "0": "\0"}


def read(rel):
    p = os.path.join(REPO, rel)
    if not os.path.exists(p):
        raise TranslateError("missing source file " + rel)
    return open(p).read()


def c_unescape(body):
    out, i = [], 0
    while i < len(body):
        if body[i] == "\\":
            if i + 1 >= len(body) or body[i + 1] not in ESC:
                raise TranslateError("unsupported escape in string literal %r" % body)
            out.append(ESC[body[i + 1]])
            i += 2
        else:
            out.append(body[i])
            i += 1
    return "".join(out)


def c_string_literals(text):
    """value of a sequence of adjacent C string literals"""
    parts = re.findall(r'"((?:[^"\\]|\\.)*)"', text)
    if not parts:
        raise TranslateError("no string literal in %r" % text[:60])
    return "".join(c_unescape(p) for p in parts)


def lean_char(c):
    o = ord(c)
    if c == "'":
        return "'\\''"
    if c == "\\":
        return "'\\\\'"
    if 32 <= o < 127:
        return "'%s'" % c
    return "(Char.ofNat %d)" % o


def lean_chars(s):
    return "[" + ", ".join(lean_char(c) for c in s) + "]"


def charset(src, name, where):
    m = re.search(r"const\s+char\s+%s\s*\[\s*\]\s*=\s*((?:\s*\"(?:[^\"\\]|\\.)*\")+)\s*;" % re.escape(name), src)
    if not m:
        raise TranslateError("character set %s not found in %s" % (name, where))
    return c_string_literals(m.group(1))


def function_body(src, header_re, where):
    m = re.search(header_re, src)
    if not m:
        raise TranslateError("function %s not found in %s" % (header_re, where))
    i = src.index("{", m.end() - 1)
    depth, j = 0, i
    while j < len(src):
        if src[j] == "{":
            depth += 1
        elif src[j] == "}":
            depth -= 1
            if depth == 0:
                return src[i:j + 1]
        j += 1
    raise TranslateError("unbalanced braces after %s in %s" % (header_re, where))


def squeeze(s):
    return re.sub(r"\s+", "", re.sub(r"//[^\n]*", "", s))


def gen_operators():
    src = read("src/occa/internal/lang/operator.cpp")
    ops = {}     # name -> (spelling, optype, precedence)
    order = []
    for m in re.finditer(r"const\s+(\w*[oO]perator_t)\s+(\w+)\s*\(\s*\"((?:[^\"\\]|\\.)*)\"\s*,([^;]*)\)\s*;", src):
        cls, name, sp, rest = m.group(1), m.group(2), c_unescape(m.group(3)), m.group(4)
        mt = re.search(r"operatorType::(\w+)", rest)
        if not mt:
            raise TranslateError("operator %s has no operatorType" % name)
        mp = re.search(r",\s*(\d+)\s*$", rest.strip())
        prec = int(mp.group(1)) if mp else 0
        if name in ops:
            raise TranslateError("operator %s defined twice" % name)
        ops[name] = (sp, mt.group(1), prec)
        order.append(name)
    if len(ops) < 60:
        raise TranslateError("only %d operator definitions found" % len(ops))
    body = function_body(src, r"void\s+getOperators\s*\(\s*operatorTrie\s*&\s*operators\s*\)\s*\{", "operator.cpp")
    adds = re.findall(r"operators\.add\(\s*op::(\w+)\.str\s*,\s*&op::(\w+)\s*\)", body)
    stmts = [s for s in squeeze(body)[1:-1].split(";") if s]
    if len(stmts) != len(adds):
        raise TranslateError("getOperators has statements other than operators.add(op::X.str, &op::X)")
    values = []  # (spelling, name) in trie::values order
    for a, b in adds:
        if a != b:
            raise TranslateError("operators.add(op::%s.str, &op::%s): spelling and value differ" % (a, b))
        if a not in ops:
            raise TranslateError("registered operator %s has no definition" % a)
        sp = ops[a][0]
        for i, (s2, _) in enumerate(values):
            if s2 == sp:
                values[i] = (sp, a)      # trie::add: values[valueIndex] = value
                break
        else:
            values.append((sp, a))
    names = [n for _, n in values]
    for need in ("lineComment", "blockCommentStart"):
        if need not in names:
            raise TranslateError("operator %s is not registered" % need)
    for n, want in (("lineComment", "lineComment"), ("blockCommentStart", "blockCommentStart")):
        if ops[n][1] != want:
            raise TranslateError("operator %s has opType %s" % (n, ops[n][1]))
    out = ["-- GENERATED by translate/gen_lex.py from src/occa/internal/lang/operator.cpp; do not edit.",
           "namespace Occa.Gen", "",
           "/-- every `op::NAME`: (name, spelling, operatorType, precedence) -/",
           "def allOps : List (String × List Char × String × Nat) := ["]
    out.append(",\n".join('  ("%s", %s, "%s", %d)' % (n, lean_chars(ops[n][0]), ops[n][1], ops[n][2]) for n in order))
    out += ["]", "",
            "/-- spellings in the tokenizer's operator trie, in `trie::values` order (operator id = index) -/",
            "def registered : List (List Char) := ["]
    out.append(",\n".join("  %s" % lean_chars(sp) for sp, _ in values))
    out += ["]", "", "def registeredNames : List String := [" + ", ".join('"%s"' % n for n in names) + "]", "",
            "def lineCommentId : Nat := %d" % names.index("lineComment"),
            "def blockCommentId : Nat := %d" % names.index("blockCommentStart"),
            "", "end Occa.Gen", ""]
    return write_if_changed(os.path.join(VERIF, "lean/OccaGen/Operators.lean"), "\n".join(out))


def gen_charsets():
    tok = read("src/occa/internal/lang/token/token.cpp")
    lex = read("src/occa/internal/utils/lex.cpp")
    tkz = read("src/occa/internal/lang/tokenizer.cpp")
    strc = read("src/occa/internal/utils/string.cpp")
    strh = read("src/occa/internal/utils/string.hpp")
    stk = read("src/occa/internal/lang/token/stringToken.cpp")
    chk = read("src/occa/internal/lang/token/charToken.cpp")
    prim = read("src/types/primitive.cpp")
    sets = [(n, charset(tok, n, "token.cpp")) for n in
            ("whitespace", "whitespaceNoNewline", "alpha", "number", "alphanumber", "identifierStart", "identifier")]
    sets.append(("lexWhitespace", charset(lex, "whitespaceCharset", "lex.cpp")))
    sets.append(("lexNumber", charset(lex, "numberCharset", "lex.cpp")))
    enc = {}
    encbody = function_body(tok, r"namespace\s+encodingType\s*\{", "token.cpp")
    for m in re.finditer(r"const\s+int\s+(\w+)\s*=\s*([^;]+);", encbody):
        name, e = m.group(1), m.group(2).strip()
        mm = re.fullmatch(r"\(\s*1\s*<<\s*(\d+)\s*\)", e)
        if mm:
            enc[name] = 1 << int(mm.group(1))
        elif re.fullmatch(r"\d+", e):
            enc[name] = int(e)
        elif name == "ux":
            names = re.findall(r"\w+", e)
            enc[name] = 0
            for n in names:
                enc[name] |= enc[n]
        else:
            raise TranslateError("encodingType::%s = %s not understood" % (name, e))
    for need in ("none", "R", "u8", "u", "U", "L", "ux"):
        if need not in enc:
            raise TranslateError("encodingType::%s missing" % need)
    # prefix letters of getEncodingType
    get = squeeze(function_body(tkz, r"int\s+getEncodingType\s*\(", "tokenizer.cpp"))
    want_get = ("{intencoding=0;intencodingCount=0;constchar*c=str.c_str();while(*c){intnewEncoding=0;switch(*c){"
                "case'u':{if(c[1]=='8'){newEncoding=encodingType::u8;++c;}else{newEncoding=encodingType::u;}break;}"
                "case'U':newEncoding=encodingType::U;break;case'L':newEncoding=encodingType::L;break;"
                "case'R':newEncoding=encodingType::R;break;}if(!newEncoding||(newEncoding&encoding)){returnencodingType::none;}"
                "encoding|=newEncoding;++encodingCount;++c;}if((encodingCount==1)||((encodingCount==2)&&(encoding&encodingType::R)))"
                "{returnencoding;}returnencodingType::none;}")
    chenc = squeeze(function_body(tkz, r"int\s+getCharacterEncoding\s*\(", "tokenizer.cpp"))
    want_chenc = ("{constintencoding=getEncodingType(str);if(!encoding||(encoding&(encodingType::u8|encodingType::R)))"
                  "{returnencodingType::none;}returnencoding;}")

    def has(body, *snips):
        b = squeeze(body)
        return all(squeeze(s) in b for s in snips)

    esc = function_body(strc, r"std::string\s+escape\s*\(", "string.cpp")
    unesc = function_body(strc, r"std::string\s+unescape\s*\(", "string.cpp")
    f_getString = function_body(tkz, r"bool\s+tokenizer_t::getString\s*\(", "tokenizer.cpp")
    f_getRaw = function_body(tkz, r"void\s+tokenizer_t::getRawString\s*\(", "tokenizer.cpp")
    f_getChar = function_body(tkz, r"token_t\*\s+tokenizer_t::getCharToken\s*\(", "tokenizer.cpp")
    f_getHeader = function_body(tkz, r"std::string\s+tokenizer_t::getHeader\s*\(", "tokenizer.cpp")
    f_peekId = function_body(tkz, r"int\s+tokenizer_t::peekForIdentifier\s*\(", "tokenizer.cpp")
    f_shallow = function_body(tkz, r"int\s+tokenizer_t::shallowPeek\s*\(", "tokenizer.cpp")
    f_block = function_body(tkz, r"token_t\*\s+tokenizer_t::getBlockCommentToken\s*\(", "tokenizer.cpp")
    f_skipTo = function_body(tkz, r"void\s+tokenizer_t::skipTo\s*\(\s*const\s+char\s*\*\s*delimiters\s*\)", "tokenizer.cpp")
    f_skipFrom = function_body(tkz, r"void\s+tokenizer_t::skipFrom\s*\(", "tokenizer.cpp")
    f_sprint = function_body(stk, r"void\s+stringToken::print\s*\(", "stringToken.cpp")
    f_cprint = function_body(chk, r"void\s+charToken::print\s*\(", "charToken.cpp")
    f_upper = function_body(strh, r"inline\s+char\s+uppercase\s*\(\s*const\s+char\s+c\s*\)", "string.hpp")
    f_getTok = function_body(tkz, r"token_t\*\s+tokenizer_t::getToken\s*\(", "tokenizer.cpp")
    f_load = function_body(prim, r"primitive\s+primitive::load\s*\(\s*const\s+char\s*\*\s*&\s*c", "primitive.cpp")

    shape = [
        ("getEncodingType has the modelled switch", get == want_get),
        ("getCharacterEncoding rejects u8 and R", chenc == want_chenc),
        ("uppercase maps a..z only", has(f_upper, "if (('a' <= c) && (c <= 'z')) { return ((c + 'A') - 'a'); } return c;")),
        ("tokenizer skip loops: backslash skips 1 + (fp.start[1] != NUL)",
         has(f_skipTo, "fp.start += 1 + (fp.start[1] != '\\0');") and has(f_skipFrom, "fp.start += 1 + (fp.start[1] != '\\0');")),
        ("unescape drops the escape character only before the delimiter",
         has(unesc, "if (escapeChar && (cstr[i] == escapeChar) && (cstr[i + 1] == c)) { continue; } ret += cstr[i];")),
        ("F16 escape() escapes the delimiter at every index",
         has(esc, "} else { if (escapeChar) { ret += escapeChar; } ret += c; }")),
        ("FL1 getString checks for the closing quote", has(f_getString, "if (*fp.start != '\"') { printError(")),
        ("FL1 getRawString checks for the opening parenthesis", has(f_getRaw, "skipTo(\"(\\n\"); if (*fp.start != '(') {")),
        ("FL1 getCharToken checks for the closing quote", has(f_getChar, "skipTo(\"'\\n\"); if (*fp.start != '\\'') {")),
        ("FL1 getHeader checks for the closing bracket and returns an empty name on malformed headers",
         has(f_getHeader, "skipTo(\">\\n\"); if (*fp.start != '>') {", "pop(); pop(); return \"\"; }") and "NULL" not in f_getHeader),
        ("FL2 peekForIdentifier looks at the next character only",
         has(f_peekId, "const char next = *fp.start;") and "shallowPeek" not in f_peekId),
        ("FL3 shallowPeek keeps true1/false0 identifiers",
         has(f_shallow, "const bool isIdentifierPrefix = ( lex::inCharset(c, charcodes::identifierStart) && lex::inCharset(*pos, charcodes::identifier) );",
             "if (isPrimitive && !lex::inCharset(*pos, charcodes::identifierStart) && !isIdentifierPrefix) {")),
        ("FL4 block comment skips its opener", has(f_block, "push(); fp.start += 2; bool finishedComment = false;")),
        ("FL5 block comment scans without escapes",
         has(f_block, "if ((fp.start[0] == '*') && (fp.start[1] == '/')) { fp.start += 2; finishedComment = true; continue; }")
         and "skipTo" not in f_block),
        ("FL6 raw strings are printed with delimiters",
         has(f_sprint, "while (value.find(\")\" + delimiter + \"\\\"\") != std::string::npos) { delimiter += '_'; }",
             "out << \"R\\\"\" << delimiter << '(' << value << ')' << delimiter << '\"' << udf; return;")),
        ("string printer: prefix, quote, escape(value), quote, udf",
         has(f_sprint, "out << '\"' << escape(value, '\"') << '\"' << udf;")),
        ("char printer: prefix, quote, escape(value), quote, udf",
         has(f_cprint, "out << '\\'' << escape(value, '\\'') << '\\'' << udf;")),
        ("getToken dispatch order identifier, primitive, op, newline, char, string, unknown",
         has(f_getTok, "int type = peek(); if (type & tokenType::identifier) { return getIdentifierToken(); } "
                       "if (type & tokenType::primitive) { return getPrimitiveToken(); } if (type & tokenType::op) { return getOperatorToken(); } "
                       "if (type & tokenType::newline) {")),
        ("primitive::load recognises true/false, sign only with includeSign, 0b/0x, exponent by recursion",
         has(f_load, "if (strncmp(c, \"true\", 4) == 0) {", "if (strncmp(c, \"false\", 5) == 0) {",
             "if ((*c == '+') || (*c == '-')) { if (!includeSign) { return primitive(); }",
             "if ((C == 'B') || (C == 'X')) {", "primitive exp = primitive::load(++c);")),
    ]
    out = ["-- GENERATED by translate/gen_lex.py from token.cpp, lex.cpp, tokenizer.cpp, string.cpp, string.hpp,",
           "-- stringToken.cpp, charToken.cpp, primitive.cpp; do not edit.",
           "namespace Occa.Gen", ""]
    for n, s in sets:
        out.append("def %s : List Char := %s" % (n, lean_chars(s)))
    out.append("")
    for n in ("none", "R", "u8", "u", "U", "L", "ux"):
        out.append("def enc%s : Nat := %d" % (n if n != "none" else "None", enc[n]))
    out += ["",
            "/-- for each statement shape the model of the tokenizer relies on: does the current source have it? -/",
            "def sourceShape : List (String × Bool) := ["]
    out.append(",\n".join('  ("%s", %s)' % (n.replace('"', "'"), "true" if b else "false") for n, b in shape))
    out += ["]", "", "end Occa.Gen", ""]
    return write_if_changed(os.path.join(VERIF, "lean/OccaGen/Charsets.lean"), "\n".join(out))


def gen():
    return {"Operators": gen_operators(), "Charsets": gen_charsets()}


if __name__ == "__main__":
    try:
        print(gen())
    except TranslateError as e:
        print("TRANSLATE-ERROR:", e)
        sys.exit(3)
