// C27 correspondence harness: drives the real occa::hash_t with the operations of the
// line protocol (see lean/Driver/Hash.lean) and evaluates the property's own oracles.
#include <occa/utils/hash.hpp>
#include <occa/internal/utils/string.hpp>
#include "hproto.hpp"
#include <thread>
#include <atomic>

static occa::hash_t obj;

static bool lanes(const std::vector<std::string> &t, size_t from, size_t n, int *out) {
  if (t.size() != from + n) return false;
  for (size_t i = 0; i < n; ++i) out[i] = (int) std::strtol(t[from + i].c_str(), NULL, 10);
  return true;
}
static std::string show(const occa::hash_t &h) {
  std::ostringstream ss;
  for (int i = 0; i < 8; ++i) ss << (i ? " " : "") << h.h[i];
  return ss.str();
}

int main() {
  return hp::run(
    []() { obj = occa::hash_t(); },
    [](const std::vector<std::string> &t) -> std::string {
      if (t.empty()) return "bad-op";
      int l[16];
      std::string bytes;
      if (t[0] == "H" && t.size() == 2 && hp::unhex(t[1], bytes)) {
        occa::hash_t h = occa::hash(bytes.data(), bytes.size());
        // oracles: full string reads back; short string is its 16-char prefix, whichever is asked first
        occa::hash_t h2 = occa::hash(std::string(bytes));
        if (h != h2) hp::oracle("hash(ptr,n) != hash(std::string)");
        {
          // equal bytes, different surroundings: an exact-size heap buffer (ASan traps any over-read)
          // and the same bytes embedded in a larger buffer followed by different bytes
          const size_t n = bytes.size();
          char *exact = new char[n];
          if (n) memcpy(exact, bytes.data(), n);
          if (occa::hash(exact, n) != h) hp::oracle("equal bytes in an exact-size buffer hash differently");
          delete [] exact;
          for (int pad = 0; pad < 2; ++pad) {
            std::string big = std::string(3, (char) ('A' + pad)) + bytes + std::string(5, (char) ('x' + pad));
            if (occa::hash(big.data() + 3, n) != h) hp::oracle("equal bytes hash differently depending on the bytes that follow them");
          }
        }
        std::string full = h.getFullString();
        if (occa::hash_t::fromString(full) != h) hp::oracle("fromString(getFullString(h)) != h");
        if (h.getString() != full.substr(0, 16)) hp::oracle("getString() is not the 16-char prefix of getFullString()");
        if (h2.getString() != h2.getFullString().substr(0, 16)) hp::oracle("short-first order: getString() is not the prefix");
        return show(h);
      }
      if (t[0] == "F" && lanes(t, 1, 8, l)) {
        occa::hash_t h(l);
        std::string full = h.getFullString();
        if (full.size() != 64) hp::oracle("full string length != 64");
        if (occa::hash_t::fromString(full) != h) hp::oracle("fromString(getFullString(h)) != h");
        if (h.getString() != full.substr(0, 16)) hp::oracle("getString() is not the 16-char prefix of getFullString()");
        return hp::hex(full);
      }
      if (t[0] == "P" && t.size() == 2 && hp::unhex(t[1], bytes)) {
        return show(occa::hash_t::fromString(bytes));
      }
      if (t[0] == "X" && lanes(t, 1, 16, l)) {
        occa::hash_t a(l), b(l + 8);
        occa::hash_t c = a ^ b;
        if (c.getString() != c.getFullString().substr(0, 16)) hp::oracle("combined hash: getString() is not the prefix");
        return show(c);
      }
      if (t[0] == "MT" && lanes(t, 1, 8, l)) {
        // several threads, each with its own private hash value derived from the lanes
        std::atomic<long> bad(0);
        std::vector<std::thread> th;
        for (int k = 0; k < 4; ++k) {
          th.emplace_back([&, k]() {
            int m[8];
            for (int i = 0; i < 8; ++i) m[i] = (int) ((unsigned) l[i] + 7919u * (unsigned) k);
            occa::hash_t h(m);
            const std::string full = h.getFullString();
            for (int it = 0; it < 400; ++it) {
              occa::hash_t g(m);
              std::string f = g.getFullString();
              if (f != full || occa::hash_t::fromString(f) != g || g.getString() != full.substr(0, 16)) ++bad;
            }
          });
        }
        for (auto &x : th) x.join();
        if (bad.load()) hp::oracle("thread-private hash values: full/short strings differ between threads (shared mutable state)");
        return "ok";
      }
      if (t[0] == "new" && lanes(t, 1, 8, l)) { obj = occa::hash_t(l); return "ok"; }
      if (t[0] == "get" && t.size() == 1) {
        std::string s = obj.getString();
        if (s != obj.getFullString().substr(0, 16)) hp::oracle("getString() is not the 16-char prefix of getFullString()");
        return hp::hex(s);
      }
      if (t[0] == "asg" && lanes(t, 1, 8, l)) { occa::hash_t src(l); obj = src; return "ok"; }
      if (t[0] == "set" && lanes(t, 1, 8, l)) { for (int i = 0; i < 8; ++i) obj.h[i] = l[i]; return "ok"; }
      if (t[0] == "xor" && lanes(t, 1, 8, l)) { occa::hash_t o(l); obj ^= o; return "ok"; }
      return "bad-op";
    });
}
