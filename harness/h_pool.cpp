// C03 / C04 / C05 correspondence harness: drives the real occa::memoryPool, occa::memory and
// occa::device (Serial or OpenMP mode) with the operations of the line protocol (see
// lean/Driver/Pool.lean) and evaluates the properties' own, model-independent oracles:
//   C03  live reservations inside the pool, different allocations byte-disjoint, aliases of one
//        allocation stay aliases, every live memory reads back its shadow copy
//   C04  reserved() == recomputed measure of the union of the alignment-rounded live ranges,
//        numReservations() == number of live reservations, size() >= reserved(), no live
//        reservation => reserved() == 0, resize below reserved() throws and changes nothing
//   C05  memoryAllocated() == bytes of live malloc/clone buffers + sizes of live pool buffers
//        (wrapped memory counts nothing), maxMemoryAllocated() == running maximum (including the
//        moment where a pool holds its old and its new buffer), everything released => 0
//
// Observation line:  <result> | P<i> a=<alignment> s=<size> r=<reserved> n=<numReservations> ... |
//                    M <slot>:<pool or d>:<offset>:<size>:<hash of bytes> ... | D <allocated> <max>
#include <occa.hpp>
#include <occa/internal/core/memory.hpp>
#include <occa/internal/core/buffer.hpp>
#include <occa/internal/core/memoryPool.hpp>
#include <occa/internal/utils/sys.hpp>
#include <algorithm>
#include <map>
#include <memory>
#include "hproto.hpp"

static const int NSLOT = 16, NPOOL = 2;

// one allocation (a pool reservation made by reserve(), or a device buffer) and its shadow bytes
struct Fam {
  int id;
  int pool;                      // pool index, -1: device-level buffer
  bool counted;                  // contributes to memoryAllocated (false: wrapMemory)
  std::vector<unsigned char> shadow;
};
struct Slot {
  occa::memory mem;
  std::shared_ptr<Fam> fam;
  long delta = 0;                // start of this memory inside the allocation's shadow
  long size = 0;
  bool live = false;
};

static occa::device dev;
static occa::memoryPool pools[NPOOL];
static bool poolLive[NPOOL];
static Slot slots[NSLOT];
static std::vector<void*> hostBufs;       // host pointers owned by the harness
static int nextFam = 0;
static unsigned long expectMax = 0;
static std::string devMode = "Serial";

static unsigned char pat(long seed, long i) { return (unsigned char) ((seed * 37 + i * 11 + 5) & 0xff); }

static void makeDevice() {
  dev = occa::device({{"mode", devMode}});
  expectMax = 0;
}

static void releaseAll() {
  for (int k = 0; k < NSLOT; ++k) {
    if (slots[k].live) slots[k].mem.free();
    slots[k] = Slot();
  }
  for (int p = 0; p < NPOOL; ++p) {
    if (poolLive[p]) pools[p].free();
    pools[p] = occa::memoryPool();
    poolLive[p] = false;
  }
}

static void reset() {
  releaseAll();
  if (dev.isInitialized()) dev.free();
  dev = occa::device();
  for (void *h : hostBufs) ::free(h);
  hostBufs.clear();
  nextFam = 0;
  devMode = "Serial";
  makeDevice();
}

static unsigned long hashBytes(const std::vector<unsigned char> &b) {
  unsigned long h = 0;
  for (unsigned char c : b) h = (h * 31 + c + 1) & 0xffffffffUL;
  return h;
}

static std::vector<unsigned char> readBack(const Slot &s) {
  std::vector<unsigned char> b(s.size);
  if (s.size) s.mem.copyTo(b.data());
  return b;
}

// measure of the union of the ranges [floor(off/a)a, ceil((off+size)/a)a), computed from scratch
static long unionMeasure(std::vector<std::pair<long,long>> r, long a) {
  for (auto &x : r) { x.first = (x.first / a) * a; x.second = ((x.second + a - 1) / a) * a; }
  std::sort(r.begin(), r.end());
  long total = 0, curEnd = 0;
  for (auto &x : r) {
    long lo = std::max(x.first, curEnd);
    if (x.second > lo) total += x.second - lo;
    curEnd = std::max(curEnd, x.second);
  }
  return total;
}

static std::string dump(bool oracles) {
  std::ostringstream ss;
  unsigned long poolBytes = 0;
  for (int p = 0; p < NPOOL; ++p) {
    if (!poolLive[p]) continue;
    occa::memoryPool &mp = pools[p];
    ss << " P" << p << " a=" << mp.alignment() << " s=" << mp.size() << " r=" << mp.reserved()
       << " n=" << mp.numReservations();
    poolBytes += mp.size();
    if (!oracles) continue;
    std::vector<std::pair<long,long>> rs;
    int nlive = 0;
    for (int k = 0; k < NSLOT; ++k) {
      Slot &s = slots[k];
      if (!s.live || s.fam->pool != p) continue;
      ++nlive;
      occa::modeMemory_t *mm = s.mem.getModeMemory();
      long off = mm->offset, sz = mm->size;
      rs.push_back({off, off + sz});
      if (off < 0 || (unsigned long) (off + sz) > mp.size()) {
        std::ostringstream m; m << "reservation " << k << " [" << off << "," << off + sz << ") is outside the pool of size " << mp.size();
        hp::oracle(m.str());
      }
      for (int j = 0; j < k; ++j) {
        Slot &t = slots[j];
        if (!t.live || t.fam->pool != p) continue;
        occa::modeMemory_t *tm = t.mem.getModeMemory();
        long toff = tm->offset, tsz = tm->size;
        if (s.fam != t.fam) {
          if (sz > 0 && tsz > 0 && off < toff + tsz && toff < off + sz) {
            std::ostringstream m; m << "reservations " << j << " [" << toff << "," << toff + tsz << ") and " << k << " [" << off << "," << off + sz << ") of different allocations overlap";
            hp::oracle(m.str());
          }
        } else if (s.delta < t.delta + t.size && t.delta < s.delta + s.size) {
          if (off - toff != s.delta - t.delta) {
            std::ostringstream m; m << "aliasing memories " << j << " and " << k << " of one allocation moved apart";
            hp::oracle(m.str());
          }
        }
      }
    }
    if ((long) mp.numReservations() != nlive) hp::oracle("numReservations() != number of live reservations");
    long um = unionMeasure(rs, (long) mp.alignment());
    if ((long) mp.reserved() != um) {
      std::ostringstream m; m << "reserved()=" << mp.reserved() << " but the union of the aligned live ranges measures " << um;
      hp::oracle(m.str());
    }
    if (mp.reserved() > mp.size()) {
      std::ostringstream m; m << "reserved()=" << mp.reserved() << " exceeds size()=" << mp.size();
      hp::oracle(m.str());
    }
  }
  ss << " | M";
  unsigned long bufBytes = 0;
  std::vector<Fam*> seen;
  for (int k = 0; k < NSLOT; ++k) {
    Slot &s = slots[k];
    if (!s.live) continue;
    occa::modeMemory_t *mm = s.mem.getModeMemory();
    std::vector<unsigned char> got = readBack(s);
    ss << " " << k << ":";
    if (s.fam->pool < 0) ss << "d"; else ss << s.fam->pool;
    ss << ":" << mm->offset << ":" << mm->size << ":" << hashBytes(got);
    if (oracles) {
      if ((long) mm->size != s.size) hp::oracle("size of a memory object changed");
      std::vector<unsigned char> want(s.fam->shadow.begin() + s.delta, s.fam->shadow.begin() + s.delta + s.size);
      if (got != want) {
        std::ostringstream m; m << "memory " << k << " does not read back the bytes last written to it";
        hp::oracle(m.str());
      }
    }
    if (s.fam->pool < 0 && s.fam->counted && std::find(seen.begin(), seen.end(), s.fam.get()) == seen.end()) {
      seen.push_back(s.fam.get());
      bufBytes += s.fam->shadow.size();
    }
  }
  unsigned long alloc = dev.memoryAllocated(), mx = dev.maxMemoryAllocated();
  ss << " | D " << alloc << " " << mx;
  if (oracles) {
    if (alloc != bufBytes + poolBytes) {
      std::ostringstream m; m << "memoryAllocated()=" << alloc << " but live buffers hold " << bufBytes << " and pool buffers " << poolBytes << " bytes";
      hp::oracle(m.str());
    }
    if (mx != expectMax) {
      std::ostringstream m; m << "maxMemoryAllocated()=" << mx << " but the largest value memoryAllocated() has taken is " << expectMax;
      hp::oracle(m.str());
    }
  }
  return ss.str();
}

static bool num(const std::string &s, long &v) {
  if (s.empty()) return false;
  char *e = NULL;
  v = std::strtol(s.c_str(), &e, 10);
  return *e == 0;
}

// fill [off, off+len) of slot k with the pattern of `seed`, through the real copyFrom
static void writeSlot(Slot &s, long off, long len, long seed) {
  std::vector<unsigned char> b(len > 0 ? len : 1);   // never hand a null pointer to copyFrom
  for (long i = 0; i < len; ++i) b[i] = pat(seed, i);
  s.mem.copyFrom(b.data(), len, off);
  for (long i = 0; i < len; ++i) s.fam->shadow[s.delta + off + i] = b[i];
}

static void bind(int k, occa::memory m, std::shared_ptr<Fam> f, long delta) {
  Slot &s = slots[k];
  s.mem = m; s.fam = f; s.delta = delta; s.size = (long) m.byte_size(); s.live = true;
}

static std::string step(const std::vector<std::string> &t) {
  if (t.empty()) return "bad-op";
  long a = 0, b = 0, c = 0, d = 0;
  const std::string &op = t[0];
  auto slotFree = [&](long k) { return k >= 0 && k < NSLOT && !slots[k].live; };
  auto slotLive = [&](long k) { return k >= 0 && k < NSLOT && slots[k].live; };
  auto poolOk = [&](long p) { return p >= 0 && p < NPOOL && poolLive[p]; };
  std::string res = "bad-op";
  // transient peak bookkeeping for maxMemoryAllocated (model independent: taken from the
  // implementation's own counters before and after the operation)
  unsigned long before = dev.isInitialized() ? dev.memoryAllocated() : 0;
  int peakPool = -1; occa::modeBuffer_t *oldBuf = NULL; unsigned long oldN = 0, resBefore = 0;
  auto watch = [&](long p) {
    peakPool = (int) p; oldBuf = pools[p].getModeMemoryPool()->buffer; oldN = pools[p].numReservations(); resBefore = pools[p].reserved();
  };
  std::string pre;
  try {
    if (op == "dev" && t.size() == 2 && (t[1] == "S" || t[1] == "O")) {
      bool any = false;
      for (int k = 0; k < NSLOT; ++k) any = any || slots[k].live;
      for (int p = 0; p < NPOOL; ++p) any = any || poolLive[p];
      if (any || dev.memoryAllocated() != 0 || dev.maxMemoryAllocated() != 0) return "bad-op";
      dev.free();
      devMode = (t[1] == "S") ? "Serial" : "OpenMP";
      makeDevice();
      before = 0;
      res = "ok";
    } else if (op == "pool" && t.size() == 2 && num(t[1], a) && a >= 0 && a < NPOOL && !poolLive[a]) {
      pools[a] = dev.createMemoryPool();
      poolLive[a] = true;
      res = "ok";
    } else if (op == "pfree" && t.size() == 2 && num(t[1], a) && poolOk(a)) {
      pools[a].free();
      pools[a] = occa::memoryPool();
      poolLive[a] = false;
      for (int k = 0; k < NSLOT; ++k) {
        if (slots[k].live && slots[k].fam->pool == a) {
          if (slots[k].mem.isInitialized()) hp::oracle("memory of a freed pool is still initialized");
          slots[k] = Slot();
        }
      }
      res = "ok";
    } else if (op == "reserve" && t.size() == 4 && num(t[1], a) && num(t[2], b) && num(t[3], c) && poolOk(a) && slotFree(b) && c >= 0) {
      watch(a);
      occa::memory m = pools[a].reserve(c, occa::dtype::byte);
      if (!m.isInitialized()) res = "empty";
      else {
        std::shared_ptr<Fam> f(new Fam{nextFam++, (int) a, true, std::vector<unsigned char>(c)});
        bind(b, m, f, 0);
        writeSlot(slots[b], 0, c, 1000 + f->id);       // every reservation starts with its own pattern
        res = "ok";
      }
    } else if ((op == "release" || op == "drop") && t.size() == 2 && num(t[1], a) && slotLive(a)) {
      if (op == "release") slots[a].mem.free();
      slots[a] = Slot();
      res = "ok";
    } else if (op == "slice" && t.size() == 5 && num(t[1], a) && num(t[2], b) && num(t[3], c) && num(t[4], d)
               && slotFree(a) && slotLive(b) && c >= 0 && d >= -1) {
      occa::memory m = slots[b].mem.slice(c, d);
      if (!m.isInitialized()) res = "empty";
      else { bind(a, m, slots[b].fam, slots[b].delta + c); res = "ok"; }
    } else if (op == "resize" && t.size() == 3 && num(t[1], a) && num(t[2], b) && poolOk(a) && b >= 0) {
      watch(a);
      pre = dump(false);
      pools[a].resize(b);
      res = "ok";
    } else if (op == "shrink" && t.size() == 2 && num(t[1], a) && poolOk(a)) {
      watch(a);
      pools[a].shrinkToFit();
      res = "ok";
    } else if (op == "align" && t.size() == 3 && num(t[1], a) && num(t[2], b) && poolOk(a) && b >= 0) {
      watch(a);
      pre = dump(false);
      pools[a].setAlignment(b);
      res = "ok";
    } else if (op == "write" && t.size() == 5 && num(t[1], a) && num(t[2], b) && num(t[3], c) && num(t[4], d)
               && slotLive(a) && b >= 0 && c >= 0) {
      if (b + c > slots[a].size) {
        // out of range: must be rejected; do not touch the shadow
        std::vector<unsigned char> tmp(c > 0 ? c : 1);
        slots[a].mem.copyFrom(tmp.data(), c, b);
        hp::oracle("copyFrom beyond the end of a memory object was accepted");
        res = "ok";
      } else {
        writeSlot(slots[a], b, c, d);
        res = "ok";
      }
    } else if (op == "read" && t.size() == 2 && num(t[1], a) && slotLive(a)) {
      std::vector<unsigned char> got = readBack(slots[a]);
      res = hp::hex(std::string(got.begin(), got.end()));
    } else if (op == "malloc" && t.size() == 3 && num(t[1], a) && num(t[2], b) && slotFree(a) && b >= 0) {
      occa::memory m = dev.malloc<void>(b);
      if (!m.isInitialized()) res = "empty";
      else {
        std::shared_ptr<Fam> f(new Fam{nextFam++, -1, true, std::vector<unsigned char>(b)});
        bind(a, m, f, 0);
        writeSlot(slots[a], 0, b, 1000 + f->id);
        res = "ok";
      }
    } else if (op == "mallocsrc" && t.size() == 4 && num(t[1], a) && num(t[2], b) && num(t[3], c) && slotFree(a) && b >= 0) {
      std::vector<unsigned char> src(b > 0 ? b : 1);
      for (long i = 0; i < b; ++i) src[i] = pat(c, i);
      src.resize(b);
      occa::memory m = dev.malloc<void>(b, (const void*) src.data());
      if (!m.isInitialized()) res = "empty";
      else {
        std::shared_ptr<Fam> f(new Fam{nextFam++, -1, true, src});
        bind(a, m, f, 0);
        res = "ok";
      }
    } else if (op == "mallochost" && t.size() == 5 && num(t[1], a) && num(t[2], b) && num(t[3], c) && num(t[4], d)
               && slotFree(a) && b >= 0 && (c == 0 || c == 1)) {
      // use_host_pointer: the memory object lives in the caller's buffer; own_host_pointer=c
      unsigned char *host = (unsigned char*) occa::sys::malloc(b ? b : 1);
      for (long i = 0; i < b; ++i) host[i] = pat(d, i);
      occa::json props;
      props["use_host_pointer"] = true;
      props["own_host_pointer"] = (c == 1);
      occa::memory m;
      try {
        m = dev.malloc<void>(b, (const void*) host, props);
      } catch (...) { ::free(host); throw; }
      if (!m.isInitialized()) { ::free(host); res = "empty"; }
      else {
        if (c == 0) hostBufs.push_back(host);      // the harness keeps ownership
        std::shared_ptr<Fam> f(new Fam{nextFam++, -1, true, std::vector<unsigned char>(host, host + b)});
        bind(a, m, f, 0);
        res = "ok";
      }
    } else if (op == "wrap" && t.size() == 4 && num(t[1], a) && num(t[2], b) && num(t[3], c) && slotFree(a) && b >= 0) {
      unsigned char *host = (unsigned char*) ::malloc(b ? b : 1);
      for (long i = 0; i < b; ++i) host[i] = pat(c, i);
      hostBufs.push_back(host);
      occa::memory m = dev.wrapMemory<void>((const void*) host, b);
      if (!m.isInitialized()) res = "empty";
      else {
        std::shared_ptr<Fam> f(new Fam{nextFam++, -1, false, std::vector<unsigned char>(host, host + b)});
        bind(a, m, f, 0);
        res = "ok";
      }
    } else if (op == "clone" && t.size() == 3 && num(t[1], a) && num(t[2], b) && slotFree(a) && slotLive(b)) {
      occa::memory m = slots[b].mem.clone();
      if (!m.isInitialized()) res = "empty";
      else {
        Slot &s = slots[b];
        std::shared_ptr<Fam> f(new Fam{nextFam++, -1, true,
          std::vector<unsigned char>(s.fam->shadow.begin() + s.delta, s.fam->shadow.begin() + s.delta + s.size)});
        bind(a, m, f, 0);
        res = "ok";
      }
    } else if (op == "freeall" && t.size() == 1) {
      releaseAll();
      if (dev.memoryAllocated() != 0) {
        std::ostringstream m; m << "everything released but memoryAllocated()=" << dev.memoryAllocated();
        hp::oracle(m.str());
      }
      res = "ok";
    } else {
      return "bad-op";
    }
  } catch (occa::exception &e) {
    res = "err";
    if (!pre.empty() && pre != dump(false)) hp::oracle("an operation that raised an error changed the pool state");
  }
  if (op == "resize" && res == "ok" && (unsigned long) std::strtol(t[2].c_str(), NULL, 10) < resBefore) {
    hp::oracle("resize below reserved() did not raise an error");
  }
  // running maximum of memoryAllocated(), including the moment where a pool that has live
  // reservations holds both its old and its new buffer
  unsigned long after = dev.memoryAllocated();
  unsigned long peak = after;
  if (peakPool >= 0 && poolLive[peakPool] && oldN > 0 &&
      pools[peakPool].getModeMemoryPool()->buffer != oldBuf) {
    peak = std::max(peak, before + (unsigned long) pools[peakPool].size());
  }
  expectMax = std::max(expectMax, peak);
  return res + " |" + dump(true);
}

int main() {
  for (int p = 0; p < NPOOL; ++p) poolLive[p] = false;
  int rc = hp::run(reset, step);
  releaseAll();
  if (dev.isInitialized()) dev.free();
  for (void *h : hostBufs) ::free(h);
  return rc;
}
