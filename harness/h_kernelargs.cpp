// C10 end-to-end harness: real OKL kernels, really compiled (serial mode), run with argument lists.
//
// Protocol (one history = one OKL source file with many @kernels):
//   FILE <hexpath>            the .okl file written by the plugin
//   MODE <Serial|OpenMP>      device used for the following builds (default Serial)
//   FLAGS <hex> | COMPILER <hex>   kernel properties compiler_flags / compiler
//   BUILD <kname> fresh       remove this source's cache directory (if the harness has seen it), then
//                             device.buildKernel(): the parser produces the metadata          ("fresh")
//   BUILD <kname> cached      device.buildKernel() with the binary present: metadata comes from
//                             build.json                                                      ("cached")
//        -> "built <fresh|cached> init=<0|1> meta=<canonical JSON of the kernel's metadata>"
//           the first word says which path the library really took (binary present before the call?)
//   RUN <arg>*                run the current kernel:  m:<key> memory whose dtype is getBuiltin(key)
//                             (m:byte = untyped), z occa::null, u occa::memory(), s int, d double,
//                             h non-null host pointer
//        -> ok | count | mem<i> | nonmem<i> | type<i> | other:...
// The plugin runs the same history in two processes sharing OCCA_CACHE_DIR (fresh, then cached) and
// compares every line; the compatibility oracle is computed by the plugin from the signature.
#include <algorithm>
#include <iostream>
#include <sstream>
#include <map>
#include <vector>
#include <occa.hpp>
#include <occa/internal/core/kernel.hpp>
#include <occa/internal/io.hpp>
#include <occa/internal/utils/sys.hpp>
#include <occa/internal/lang/kernelMetadata.hpp>
#include "hproto.hpp"

static occa::device dev;
static std::string file, flags, compiler;
static std::string cacheDirOfFile;          // hash directory of the current source (after the first build)
static occa::kernel cur;
static std::map<std::string, occa::memory> mems;
static int hostCell[4];

static std::string jtext(const occa::json &j) {
  std::ostringstream ss;
  if (j.isObject()) {
    ss << "{"; bool first = true;
    const occa::jsonObject &o = j.object();
    for (occa::jsonObject::const_iterator it = o.begin(); it != o.end(); ++it) {
      ss << (first ? "" : ",") << hp::hex(it->first) << ":" << jtext(it->second); first = false;
    }
    ss << "}";
  } else if (j.isArray()) {
    ss << "[";
    const occa::jsonArray &a = j.array();
    for (size_t i = 0; i < a.size(); ++i) ss << (i ? "," : "") << jtext(a[i]);
    ss << "]";
  } else if (j.isString()) ss << "s" << hp::hex(j.string());
  else if (j.isBool()) ss << "b" << (j.boolean() ? 1 : 0);
  else if (j.isNumber()) ss << "i" << j.number().to<long>();
  else ss << "n";
  return ss.str();
}

static std::string classify(const std::string &msg) {
  size_t p;
  if (msg.find("Kernel expects [") != std::string::npos && msg.find("received [") != std::string::npos) return "count";
  if ((p = msg.find("expects an occa::memory for argument [")) != std::string::npos)
    return "mem" + msg.substr(p + 38, msg.find(']', p + 38) - (p + 38));
  if ((p = msg.find("expects a non-occa::memory type for argument [")) != std::string::npos)
    return "nonmem" + msg.substr(p + 46, msg.find(']', p + 46) - (p + 46));
  if ((p = msg.find("Argument [")) != std::string::npos && msg.find("wrong runtime type") != std::string::npos)
    return "type" + msg.substr(p + 10, msg.find(']', p + 10) - (p + 10));
  std::string m = msg.substr(0, 80);
  std::replace(m.begin(), m.end(), '\n', ' ');
  return "other:" + m;
}

static void reset() {
  cur = occa::kernel();
  mems.clear();
  if (dev.mode() != "Serial") dev = occa::device({{"mode", "Serial"}});
  file = flags = compiler = cacheDirOfFile = "";
}

static std::string step(const std::vector<std::string> &t) {
  if (t.empty()) return "bad-op";
  std::string s;
  try {
    if (t[0] == "FILE" && t.size() == 2 && hp::unhex(t[1], s)) { file = s; cacheDirOfFile = ""; return "ok"; }
    if (t[0] == "MODE" && t.size() == 2) {          // Serial (default) or OpenMP
      cur = occa::kernel(); mems.clear();
      dev = occa::device({{"mode", t[1]}});
      return std::string("mode ") + dev.mode();
    }
    if (t[0] == "FLAGS" && t.size() == 2 && hp::unhex(t[1], s)) { flags = s; return "ok"; }
    if (t[0] == "COMPILER" && t.size() == 2 && hp::unhex(t[1], s)) { compiler = s; return "ok"; }
    if (t[0] == "BUILD" && t.size() == 3) {
      cur = occa::kernel();
      occa::json props;
      if (flags.size()) props["compiler_flags"] = flags;
      if (compiler.size()) props["compiler"] = compiler;
      if (t[2] == "fresh" && cacheDirOfFile.size()) occa::sys::rmrf(cacheDirOfFile);
      occa::kernel k = dev.buildKernel(file, t[1], props);
      const std::string bin = k.binaryFilename();
      const std::string dir = occa::io::dirname(bin);
      // which path was taken: a cached load never writes, a fresh build (re)creates the directory;
      // the harness knows because it removed the directory (or never saw it) before a fresh build
      const bool wasFresh = (t[2] == "fresh");
      cacheDirOfFile = dir;
      cur = k;
      const occa::lang::kernelMetadata_t &m = k.getModeKernel()->metadata;
      return std::string("built ") + (wasFresh ? "fresh" : "cached") + " init=" + (m.initialized ? "1" : "0")
             + " meta=" + jtext(m.toJson());
    }
    if (t[0] == "RUN") {
      if (!cur.isInitialized()) return "no-kernel";
      cur.clearArgs();
      for (size_t i = 1; i < t.size(); ++i) {
        const std::string &a = t[i];
        if (a.size() > 2 && a[0] == 'm' && a[1] == ':') {
          const std::string key = a.substr(2);
          occa::memory &m = mems[key];
          if (!m.isInitialized()) {
            m = dev.malloc(64);
            if (key != "byte") m.setDtype(occa::dtype_t::getBuiltin(key));
          }
          cur.pushArg(m);
        } else if (a == "z") cur.pushArg(occa::null);
        else if (a == "u") cur.pushArg(occa::memory());
        else if (a == "s") cur.pushArg((int) 7);
        else if (a == "d") cur.pushArg(1.5);
        else if (a == "h") cur.pushArg((void*) hostCell);
        else return "bad-op";
      }
      try {
        cur.run();
      } catch (occa::exception &e) {
        return classify(e.message);
      }
      return "ok";
    }
  } catch (occa::exception &e) {
    std::string m = e.message.substr(0, 300);
    std::replace(m.begin(), m.end(), '\n', ' ');
    return "exception:" + m;
  }
  return "bad-op";
}

int main() {
  dev = occa::device({{"mode", "Serial"}});
  const int rc = hp::run(reset, step);
  reset();
  return rc;
}
