// C13 correspondence harness: drives the REAL occa::lang::preprocessor_t (tokenizer -> preprocessor)
// with translation units given line by line in the op protocol of lean/Driver/Cpp.lean and, as the
// property's own model-independent oracle, preprocesses the same unit with the system C
// preprocessor (`cpp -P -undef`) and compares kept lines / token sequences.
//
// ops (one source line each; tokens are separated by single spaces):
//   D NAME : body...              #define NAME body
//   F NAME p1 p2 ... : body...    #define NAME(p1, p2, ...) body     (a parameter may be `...`)
//   U NAME                        #undef NAME
//   IF toks | IFDEF N | IFNDEF N | ELIF toks | ELSE | ENDIF
//   T toks                        a text line
//   end                           preprocess the unit collected so far; observation:
//        out=<line> <NL> <line> <NL> ... err=<pp.errors> st=<statusStack.size()-1>
//   endref                        (driver only: reference semantics) -> harness prints the cpp result
// every other op answers "ok".
#include <csignal>
#include <fcntl.h>
#include <fstream>
#include <sys/time.h>
#include <unistd.h>
#include <occa/internal/lang/tokenizer.hpp>
#include <occa/internal/lang/preprocessor.hpp>
#include "hproto.hpp"

using namespace occa::lang;

static std::vector<std::string> unitLines;   // C source lines of the current unit
static bool badOp = false;
// `expect HASH ok|err <lines>`: the result of cpp on the unit whose source text has FNV-1a hash HASH, computed
// by the plugin in one batched cpp run; used instead of running cpp here when the hash matches the unit
// (during shrinking the unit changes, the hash no longer matches and cpp is run on the spot)
static std::string expectHash, expectStatus, expectOut;

static std::string fnv1a(const std::string &s) {
  unsigned long long h = 0xcbf29ce484222325ULL;
  for (unsigned char c : s) { h ^= c; h *= 0x100000001b3ULL; }
  char b[32]; snprintf(b, sizeof b, "%016llx", h);
  return b;
}

static std::string joinFrom(const std::vector<std::string> &t, size_t from) {
  std::string s;
  for (size_t i = from; i < t.size(); ++i) { if (i > from) s += " "; s += t[i]; }
  return s;
}

// ---------------------------------------------------------------- a small C token splitter for cpp's output
static bool idStart(char c) { return (c >= 'a' && c <= 'z') || (c >= 'A' && c <= 'Z') || c == '_'; }
static bool idChar(char c) { return idStart(c) || (c >= '0' && c <= '9'); }
static std::vector<std::string> ctokens(const std::string &s) {
  static const char *ops[] = {"<<=", ">>=", "...", "->*", "<<", ">>", "<=", ">=", "==", "!=", "&&", "||", "++", "--",
                              "->", "+=", "-=", "*=", "/=", "%=", "&=", "|=", "^=", "::", "##", NULL};
  std::vector<std::string> out;
  size_t i = 0;
  while (i < s.size()) {
    char c = s[i];
    if (c == ' ' || c == '\t' || c == '\r') { ++i; continue; }
    if (idStart(c)) { size_t j = i; while (j < s.size() && idChar(s[j])) ++j; out.push_back(s.substr(i, j - i)); i = j; continue; }
    if (c >= '0' && c <= '9') { size_t j = i; while (j < s.size() && (idChar(s[j]) || s[j] == '.')) ++j; out.push_back(s.substr(i, j - i)); i = j; continue; }
    bool m = false;
    for (int k = 0; ops[k]; ++k) {
      size_t n = strlen(ops[k]);
      if (s.compare(i, n, ops[k]) == 0) { out.push_back(ops[k]); i += n; m = true; break; }
    }
    if (!m) { out.push_back(std::string(1, c)); ++i; }
  }
  return out;
}
static std::string joinToks(const std::vector<std::string> &t) {
  std::string s;
  for (size_t i = 0; i < t.size(); ++i) { if (i) s += " "; s += t[i]; }
  return s;
}

// ---------------------------------------------------------------- the oracle: system cpp
static std::string tmpDir() {
  const char *b = getenv("VERIF_BUILD");
  std::string d = std::string(b ? b : "/tmp") + "/tmp";
  return d;
}
// returns false when cpp rejected the unit (error exit or diagnostics that are errors)
static bool runCpp(const std::string &src, std::vector<std::string> &lines, std::string &diag) {
  char path[512];
  snprintf(path, sizeof path, "%s/h_pp_%d.c", tmpDir().c_str(), (int) getpid());
  { std::ofstream f(path); f << src; }
  std::string cmd = std::string("cpp -P -undef -w ") + path + " 2>&1; echo \"@@rc=$?\"";
  FILE *p = popen(cmd.c_str(), "r");
  if (!p) { diag = "popen failed"; return false; }
  std::string all; char buf[4096]; size_t n;
  while ((n = fread(buf, 1, sizeof buf, p)) > 0) all.append(buf, n);
  pclose(p);
  unlink(path);
  bool ok = false;
  std::istringstream ss(all); std::string l;
  lines.clear();
  while (std::getline(ss, l)) {
    if (l.compare(0, 5, "@@rc=") == 0) { ok = (l == "@@rc=0"); continue; }
    std::vector<std::string> t = ctokens(l);
    if (!t.empty()) lines.push_back(joinToks(t));
  }
  if (!ok) { diag = all.substr(0, 300); }
  return ok;
}

// ---------------------------------------------------------------- the implementation under test
static std::string unitText;
static int protoFd = 1;     // where protocol lines go while fd 1 is parked on /dev/null (occa prints parser debug output to stdout)
static void onCpuLimit(int) {
  // the per-unit CPU budget is exhausted: the preprocessor does not terminate on this unit
  const char m[] = "!ORACLE preprocessor_t does not terminate (unit exceeded its CPU budget)\nHANG\n";
  ssize_t r = write(protoFd, m, sizeof m - 1); (void) r;
  _exit(97);
}
static void onFpe(int) {
  const char m[] = "!ORACLE preprocessor_t died with SIGFPE (integer division by zero) while preprocessing\nTRAP\n";
  ssize_t r = write(protoFd, m, sizeof m - 1); (void) r;
  _exit(98);
}
static void setCpuLimit(int sec) {
  struct itimerval it; memset(&it, 0, sizeof it);
  it.it_value.tv_sec = sec;
  setitimer(ITIMER_PROF, &it, NULL);
}

// false: an occa::exception (e.g. integer division by zero in an EVALUATED condition, since fix N01) left the
// preprocessor; `what` holds its message
static bool runOcca(const std::string &src, std::vector<std::string> &lines, int &errors, int &depth, std::string &what) {
  tokenizer_t tokenizer;
  preprocessor_t pp;
  occa::lang::stream<token_t*> ts = tokenizer.map(pp);
  unitText = src;
  tokenizer.set(unitText.c_str());
  pp.clear();
  lines.clear();
  std::vector<std::string> cur;
  std::cout.flush(); fflush(stdout);
  int saved = dup(1), devnull = open("/dev/null", O_WRONLY);
  protoFd = saved; dup2(devnull, 1); close(devnull);
  setCpuLimit(3);
  bool threw = false;
  try {
    while (!ts.isEmpty()) {
      token_t *t = NULL;
      ts >> t;
      if (!t) break;
      if (t->type() & tokenType::newline) {
        if (!cur.empty()) lines.push_back(joinToks(cur));
        cur.clear();
      } else {
        cur.push_back(t->str());
      }
      delete t;
    }
  } catch (const std::exception &e) {
    threw = true;
    what = e.what();
  } catch (...) {
    threw = true;
    what = "unknown exception";
  }
  setCpuLimit(0);
  std::cout.flush(); fflush(stdout);
  dup2(saved, 1); close(saved); protoFd = 1;
  if (!cur.empty()) lines.push_back(joinToks(cur));
  preprocessor_t &p2 = *((preprocessor_t*) ts.getInput("preprocessor_t"));
  errors = p2.errors + tokenizer.errors;
  depth = (int) p2.statusStack.size() - 1;   // init() pushes one entry
  return !threw;
}

static std::string showLines(const std::vector<std::string> &l) {
  std::string s;
  for (size_t i = 0; i < l.size(); ++i) { if (i) s += " <NL> "; s += l[i]; }
  return s.empty() ? "<EMPTY>" : s;
}

int main() {
  signal(SIGPROF, onCpuLimit);
  signal(SIGFPE, onFpe);
  // error messages of the preprocessor go to stderr; keep them out of the way
  return hp::run(
    []() { unitLines.clear(); badOp = false; expectHash.clear(); },
    [](const std::vector<std::string> &t) -> std::string {
      if (t.empty()) return "bad-op";
      const std::string &k = t[0];
      if (k == "D" && t.size() >= 3 && t[2] == ":") {
        unitLines.push_back("#define " + t[1] + " " + joinFrom(t, 3)); return "ok";
      }
      if (k == "F" && t.size() >= 3) {
        size_t c = 2; std::string ps;
        while (c < t.size() && t[c] != ":") { if (!ps.empty()) ps += ", "; ps += t[c]; ++c; }
        if (c == t.size()) return "bad-op";
        unitLines.push_back("#define " + t[1] + "(" + ps + ") " + joinFrom(t, c + 1)); return "ok";
      }
      if (k == "U" && t.size() == 2) { unitLines.push_back("#undef " + t[1]); return "ok"; }
      if (k == "IF" && t.size() >= 2) { unitLines.push_back("#if " + joinFrom(t, 1)); return "ok"; }
      if (k == "ELIF" && t.size() >= 2) { unitLines.push_back("#elif " + joinFrom(t, 1)); return "ok"; }
      if (k == "IFDEF" && t.size() == 2) { unitLines.push_back("#ifdef " + t[1]); return "ok"; }
      if (k == "IFNDEF" && t.size() == 2) { unitLines.push_back("#ifndef " + t[1]); return "ok"; }
      if (k == "ELSE" && t.size() == 1) { unitLines.push_back("#else"); return "ok"; }
      if (k == "ENDIF" && t.size() == 1) { unitLines.push_back("#endif"); return "ok"; }
      if (k == "T") { unitLines.push_back(joinFrom(t, 1)); return "ok"; }
      if (k == "expect" && t.size() >= 3) { expectHash = t[1]; expectStatus = t[2]; expectOut = joinFrom(t, 3); return "ok"; }
      if ((k == "end" || k == "endref") && t.size() == 1) {
        std::string src;
        for (size_t i = 0; i < unitLines.size(); ++i) src += unitLines[i] + "\n";
        std::vector<std::string> cl; std::string diag;
        bool cppOk;
        if (!expectHash.empty() && expectHash == fnv1a(src)) {
          cppOk = (expectStatus == "ok");
          std::string cur; std::istringstream es(expectOut); std::string w;
          while (es >> w) { if (w == "<NL>") { if (!cur.empty()) cl.push_back(cur); cur.clear(); } else { if (!cur.empty()) cur += " "; cur += w; } }
          if (!cur.empty() && cur != "<EMPTY>") cl.push_back(cur);
        } else {
          cppOk = runCpp(src, cl, diag);
        }
        if (k == "endref") return cppOk ? ("ref=" + showLines(cl)) : std::string("ref=ERROR");
        std::vector<std::string> ol; int errors = 0, depth = 0; std::string what;
        if (!runOcca(src, ol, errors, depth, what)) {
          // the model's TRAP outcome: evaluation of a condition failed hard (division by zero, bool & bool)
          for (char &ch : what) if (ch == '\n' || ch == '\r') ch = ' ';
          if (cppOk) hp::oracle("OCCA raised an exception on a unit the C preprocessor accepts: " + what.substr(0, 160));
          return "TRAP";
        }
        if (cppOk) {
          if (errors) hp::oracle("OCCA reports " + std::to_string(errors) + " error(s) on a unit the C preprocessor accepts");
          if (ol != cl) {
            size_t i = 0; while (i < ol.size() && i < cl.size() && ol[i] == cl[i]) ++i;
            hp::oracle("output differs from cpp at kept line " + std::to_string(i) + ": occa=[" +
                       (i < ol.size() ? ol[i] : "<none>") + "] cpp=[" + (i < cl.size() ? cl[i] : "<none>") + "]");
          }
          if (depth != 0) hp::oracle("conditional stack not empty at the end of a unit the C preprocessor accepts: depth " + std::to_string(depth));
        }
        std::ostringstream ss;
        ss << "out=" << showLines(ol) << " err=" << errors << " st=" << depth;
        return ss.str();
      }
      return "bad-op";
    });
}
