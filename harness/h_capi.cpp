// C29 correspondence harness: drives the real C API of occa (include/occa/c/*.h only for the
// calls under test) with the operations of the line protocol described in lean/Driver/CApi.lean
// and evaluates the property's own, model-independent oracles:
//   * the value/tag/bytes read back from an occaType equal what was passed to its constructor,
//   * a value stored with occaJsonObjectSet / occaJsonArrayPush reads back with the same value and
//     C type, immediately and after any later history of other set/push/get/free operations,
//   * the bytes a kernel receives for an argument are the bytes of the C value,
//   * handles keep designating the object they were created for (dtype name/bytes, memory contents).
// The internal C++ headers are used for two things only: printing a canonical picture of a json
// tree (`show`) and catching occa::exception.  ASan/UBSan/LSan watch the whole run.
#include <occa.h>
#include <occa/internal/c/types.hpp>   // observation only: occa::c::json() for `show`
#include <cmath>
#include <cstdint>
#include <map>
#include <set>
#include "hproto.hpp"

typedef std::vector<std::string> toks;

//---[ values ]-------------------------------------------------------------------------------
struct Val {            // a value of the protocol, turned into an occaType on demand
  std::string kind;     // ctor name | str | null | undef | default | true | false | nullptr | ptr | struct | h
  uint64_t bits = 0;
  std::string str;      // backing store for occaString (must outlive the occaType)
  int slot = -1;
  bool ok = false;
};

static const char *CTORS[] = {"bool", "int8", "uint8", "int16", "uint16", "int32", "uint32", "int64", "uint64",
                              "char", "uchar", "short", "ushort", "int", "uint", "long", "ulong", "float", "double"};

static bool isCtor(const std::string &k) {
  for (const char *c : CTORS) if (k == c) return true;
  return false;
}

static std::map<int, occaType> slots;
static std::map<int, std::string> slotStr;    // backing store of string values kept in slots
static double structBuf[2] = {1.5, -2.5};
static int ptrTarget = 7;

template <class T> static T fromBits(uint64_t b) { T v; memcpy(&v, &b, sizeof(T)); return v; }
template <class T> static uint64_t toBits(T v) { uint64_t b = 0; memcpy(&b, &v, sizeof(T)); return b; }

static Val parseVal(const std::string &s) {
  Val v;
  size_t c = s.find(':');
  v.kind = s.substr(0, c);
  std::string rest = (c == std::string::npos) ? "" : s.substr(c + 1);
  if (isCtor(v.kind)) {
    if (rest.empty() || rest.size() > 16) return v;
    for (char ch : rest) if (hp::hexv(ch) < 0) return v;
    v.bits = strtoull(rest.c_str(), NULL, 16);
    v.ok = true;
  } else if (v.kind == "str") {
    v.ok = hp::unhex(rest, v.str) && v.str.find('\0') == std::string::npos;
  } else if (v.kind == "h") {
    v.slot = atoi(rest.c_str());
    v.ok = !rest.empty();
  } else {
    v.ok = (v.kind == "null" || v.kind == "undef" || v.kind == "default" || v.kind == "true" || v.kind == "false" ||
            v.kind == "nullptr" || v.kind == "ptr" || v.kind == "struct") && rest.empty();
  }
  return v;
}

// the occaType for a protocol value, built with the public constructor named by the value
static bool build(const Val &v, occaType &out) {
  const std::string &k = v.kind;
  uint64_t b = v.bits;
  if (k == "bool") out = occaBool((b & 1) != 0);
  else if (k == "int8") out = occaInt8(fromBits<int8_t>(b));
  else if (k == "uint8") out = occaUInt8(fromBits<uint8_t>(b));
  else if (k == "int16") out = occaInt16(fromBits<int16_t>(b));
  else if (k == "uint16") out = occaUInt16(fromBits<uint16_t>(b));
  else if (k == "int32") out = occaInt32(fromBits<int32_t>(b));
  else if (k == "uint32") out = occaUInt32(fromBits<uint32_t>(b));
  else if (k == "int64") out = occaInt64(fromBits<int64_t>(b));
  else if (k == "uint64") out = occaUInt64(fromBits<uint64_t>(b));
  else if (k == "char") out = occaChar(fromBits<char>(b));
  else if (k == "uchar") out = occaUChar(fromBits<unsigned char>(b));
  else if (k == "short") out = occaShort(fromBits<short>(b));
  else if (k == "ushort") out = occaUShort(fromBits<unsigned short>(b));
  else if (k == "int") out = occaInt(fromBits<int>(b));
  else if (k == "uint") out = occaUInt(fromBits<unsigned int>(b));
  else if (k == "long") out = occaLong(fromBits<long>(b));
  else if (k == "ulong") out = occaULong(fromBits<unsigned long>(b));
  else if (k == "float") out = occaFloat(fromBits<float>(b));
  else if (k == "double") out = occaDouble(fromBits<double>(b));
  else if (k == "str") out = occaString(v.str.c_str());
  else if (k == "null") out = occaNull;
  else if (k == "undef") out = occaUndefined;
  else if (k == "default") out = occaDefault;
  else if (k == "true") out = occaTrue;
  else if (k == "false") out = occaFalse;
  else if (k == "nullptr") out = occaPtr(NULL);
  else if (k == "ptr") out = occaPtr(&ptrTarget);
  else if (k == "struct") out = occaStruct(structBuf, sizeof(structBuf));
  else if (k == "h") {
    std::map<int, occaType>::iterator it = slots.find(v.slot);
    if (it == slots.end()) return false;
    out = it->second;
  } else return false;
  return true;
}

// what the C programmer expects for a constructor: C type -> (tag, size, bits), computed from the
// language's own type traits, not from occa
struct Expect { int tag; size_t bytes; uint64_t bits; bool scalar; };
template <class T> static int tagOfInt() {
  const bool s = std::is_signed<T>::value;
  switch (sizeof(T)) {
    case 1: return s ? OCCA_INT8 : OCCA_UINT8;
    case 2: return s ? OCCA_INT16 : OCCA_UINT16;
    case 4: return s ? OCCA_INT32 : OCCA_UINT32;
    default: return s ? OCCA_INT64 : OCCA_UINT64;
  }
}
static uint64_t lowBytes(uint64_t b, size_t n) { return n >= 8 ? b : (b & ((1ull << (8 * n)) - 1)); }

static Expect expectOf(const Val &v) {
  Expect e = {0, 0, 0, true};
  const std::string &k = v.kind;
#define INTCASE(NAME, T) if (k == NAME) { e.tag = tagOfInt<T>(); e.bytes = sizeof(T); e.bits = lowBytes(v.bits, sizeof(T)); return e; }
  INTCASE("int8", int8_t) INTCASE("uint8", uint8_t) INTCASE("int16", int16_t) INTCASE("uint16", uint16_t)
  INTCASE("int32", int32_t) INTCASE("uint32", uint32_t) INTCASE("int64", int64_t) INTCASE("uint64", uint64_t)
  INTCASE("char", char) INTCASE("uchar", unsigned char) INTCASE("short", short) INTCASE("ushort", unsigned short)
  INTCASE("int", int) INTCASE("uint", unsigned int) INTCASE("long", long) INTCASE("ulong", unsigned long)
#undef INTCASE
  if (k == "bool" || k == "true" || k == "false") {
    e.tag = OCCA_BOOL; e.bytes = sizeof(bool); e.bits = (k == "true") ? 1 : (k == "false") ? 0 : (v.bits & 1); return e;
  }
  if (k == "float") { e.tag = OCCA_FLOAT; e.bytes = 4; e.bits = lowBytes(v.bits, 4); return e; }
  if (k == "double") { e.tag = OCCA_DOUBLE; e.bytes = 8; e.bits = v.bits; return e; }
  e.scalar = false;
  return e;
}

static bool isScalarTag(int t) { return t == OCCA_BOOL || (t >= OCCA_INT8 && t <= OCCA_DOUBLE && t != OCCA_STRUCT); }

// the union member a C programmer reads for tag `t`, as a bit pattern
static uint64_t memberBits(const occaType &t) {
  if (t.type == OCCA_BOOL || t.type == OCCA_INT8) return toBits<int8_t>(t.value.int8_);
  if (t.type == OCCA_UINT8) return toBits<uint8_t>(t.value.uint8_);
  if (t.type == OCCA_INT16) return toBits<int16_t>(t.value.int16_);
  if (t.type == OCCA_UINT16) return toBits<uint16_t>(t.value.uint16_);
  if (t.type == OCCA_INT32) return toBits<int32_t>(t.value.int32_);
  if (t.type == OCCA_UINT32) return toBits<uint32_t>(t.value.uint32_);
  if (t.type == OCCA_INT64) return toBits<int64_t>(t.value.int64_);
  if (t.type == OCCA_UINT64) return toBits<uint64_t>(t.value.uint64_);
  if (t.type == OCCA_FLOAT) return toBits<float>(t.value.float_);
  if (t.type == OCCA_DOUBLE) return toBits<double>(t.value.double_);
  return 0;
}

static std::string hex64(uint64_t b) { char buf[32]; snprintf(buf, sizeof(buf), "%llx", (unsigned long long) b); return buf; }

// canonical description of an occaType (only fields that are defined for its tag)
static std::string desc(const occaType &t) {
  if (occaIsUndefined(t)) return "undef";
  std::ostringstream ss;
  if (isScalarTag(t.type)) ss << "t" << t.type << ":b" << t.bytes << ":" << hex64(memberBits(t)) << ":nf" << (int) t.needsFree;
  else if (t.type == OCCA_NULL) ss << "null";
  else if (t.type == OCCA_DEFAULT) ss << "default";
  else if (t.type == OCCA_PTR) ss << "ptr:" << (t.value.ptr ? "nz" : "0") << ":b" << t.bytes;
  else if (t.type == OCCA_STRING) ss << "str:" << hp::hex(std::string(t.value.ptr)) << ":b" << t.bytes;
  else if (t.type == OCCA_STRUCT) ss << "struct:b" << t.bytes;
  else if (t.type == OCCA_JSON) ss << "json:nf" << (int) t.needsFree;
  else if (t.type == OCCA_DTYPE) ss << "dtype:nf" << (int) t.needsFree;
  else if (t.type == OCCA_MEMORY) ss << "memory:nf" << (int) t.needsFree;
  else ss << "t" << t.type;
  return ss.str();
}

static void checkCtor(const Val &v, const occaType &t) {
  Expect e = expectOf(v);
  if (e.scalar) {
    if (occaIsUndefined(t)) { hp::oracle("constructor " + v.kind + " returned an undefined occaType"); return; }
    if (t.type != e.tag) hp::oracle("constructor " + v.kind + ": tag " + std::to_string(t.type) + " is not the tag of the C type (" + std::to_string(e.tag) + ")");
    else if (memberBits(t) != e.bits) hp::oracle("constructor " + v.kind + ": value read back " + hex64(memberBits(t)) + " != value passed " + hex64(e.bits));
    if (t.bytes != e.bytes) hp::oracle("constructor " + v.kind + ": bytes " + std::to_string(t.bytes) + " != sizeof " + std::to_string(e.bytes));
    if (t.needsFree) hp::oracle("constructor " + v.kind + ": needsFree set on a scalar");
  } else if (v.kind == "str") {
    if (t.type != OCCA_STRING || std::string(t.value.ptr) != v.str || t.bytes != v.str.size()) hp::oracle("occaString: string/length read back differs");
  } else if (v.kind == "null") {
    if (t.type != OCCA_NULL || occaIsUndefined(t)) hp::oracle("occaNull has the wrong tag");
  } else if (v.kind == "nullptr" || v.kind == "ptr") {
    if (t.type != OCCA_PTR || (t.value.ptr != NULL) != (v.kind == "ptr") || t.bytes != sizeof(void*)) hp::oracle("occaPtr: pointer/bytes read back differs");
  } else if (v.kind == "struct") {
    if (t.type != OCCA_STRUCT || t.value.ptr != (char*) structBuf || t.bytes != sizeof(structBuf)) hp::oracle("occaStruct: pointer/bytes read back differs");
  } else if (v.kind == "undef") {
    if (!occaIsUndefined(t)) hp::oracle("occaUndefined is not undefined");
  } else if (v.kind == "default") {
    if (!occaIsDefault(t) || occaIsUndefined(t)) hp::oracle("occaDefault is not default");
  }
}

//---[ canonical picture of a json tree (observation through the internal API) ]----------------
static const char *primName(int t) {
  using namespace occa::primitiveType;
  switch (t) {
    case bool_: return "bool"; case int8_: return "int8"; case uint8_: return "uint8"; case int16_: return "int16";
    case uint16_: return "uint16"; case int32_: return "int32"; case uint32_: return "uint32"; case int64_: return "int64";
    case uint64_: return "uint64"; case float_: return "float"; case double_: return "double"; case none: return "none";
  }
  return "other";
}
static uint64_t primBits(const occa::primitive &p) {
  using namespace occa::primitiveType;
  switch (p.type) {
    case bool_: return p.value.bool_ ? 1 : 0;
    case int8_: case uint8_: return p.value.uint8_;
    case int16_: case uint16_: return p.value.uint16_;
    case int32_: case uint32_: case float_: return p.value.uint32_;
    case int64_: case uint64_: case double_: return p.value.uint64_;
  }
  return 0;
}
static void showJson(const occa::json &j, std::string &out) {
  switch (j.type) {
    case occa::json::none_: out += "U"; break;
    case occa::json::null_: out += "Z"; break;
    case occa::json::number_: out += std::string("N") + primName(j.value_.number.type) + ":" + hex64(primBits(j.value_.number)); break;
    case occa::json::string_: out += "S" + hp::hex(j.value_.string); break;
    case occa::json::array_: {
      out += "[";
      for (size_t i = 0; i < j.value_.array.size(); ++i) { if (i) out += ","; showJson(j.value_.array[i], out); }
      out += "]";
      break;
    }
    case occa::json::object_: {
      out += "{";
      bool first = true;
      for (occa::jsonObject::const_iterator it = j.value_.object.begin(); it != j.value_.object.end(); ++it) {
        if (!first) out += ",";
        first = false;
        out += hp::hex(it->first) + "=";
        showJson(it->second, out);
      }
      out += "}";
      break;
    }
    default: out += "?";
  }
}

//---[ read-back oracles ]----------------------------------------------------------------------
// `r` is what the API returned for a place where `v` (built as `t`) was stored
static std::string dumpOf(occaJson j) {
  const char *d = occaJsonDump(j, 0);
  std::string s(d);
  ::free((void*) d);
  return s;
}

struct Stored { Val v; std::string dump; };   // dump: for json-handle values, their text at store time

static void checkReadBack(const std::string &where, const Stored &st, occaType r) {
  const Val &v = st.v;
  Expect e = expectOf(v);
  if (e.scalar) {
    if (occaIsUndefined(r) || r.type != OCCA_JSON) { hp::oracle(where + ": stored " + v.kind + " does not read back as a json value (" + desc(r) + ")"); return; }
    if (!occaJsonIsNumber(r)) { hp::oracle(where + ": stored " + v.kind + " is not a json number"); return; }
    if (e.tag == OCCA_BOOL) {
      if (!occaJsonIsBoolean(r)) hp::oracle(where + ": stored boolean is not a json boolean");
      else if (occaJsonGetBoolean(r) != (e.bits != 0)) hp::oracle(where + ": stored boolean reads back with the other value");
    } else if (occaJsonIsBoolean(r)) hp::oracle(where + ": stored " + v.kind + " reads back as a boolean");
    occaType n = occaJsonGetNumber(r, e.tag);
    if (occaIsUndefined(n)) hp::oracle(where + ": occaJsonGetNumber(type of the stored " + v.kind + ") is undefined: the value is lost");
    else if (n.type != e.tag || n.bytes != e.bytes) hp::oracle(where + ": stored " + v.kind + " reads back with tag " + std::to_string(n.type));
    else if (memberBits(n) != e.bits) hp::oracle(where + ": stored " + v.kind + " " + hex64(e.bits) + " reads back as " + hex64(memberBits(n)));
    // the same value, not only the same bits: read through a wider type and compare with the C conversion
    if (e.tag != OCCA_FLOAT && e.tag != OCCA_DOUBLE) {
      const bool sgn = (e.tag == OCCA_INT8 || e.tag == OCCA_INT16 || e.tag == OCCA_INT32 || e.tag == OCCA_INT64);
      uint64_t wide = e.bits;
      if (sgn && e.bytes < 8 && (e.bits >> (8 * e.bytes - 1))) wide |= ~0ull << (8 * e.bytes);
      occaType w = occaJsonGetNumber(r, OCCA_INT64);
      if (occaIsUndefined(w) || w.type != OCCA_INT64 || memberBits(w) != wide)
        hp::oracle(where + ": stored " + v.kind + " " + hex64(e.bits) + " converts to int64 " + (occaIsUndefined(w) ? std::string("undef") : hex64(memberBits(w))) + " instead of " + hex64(wide));
    } else if (e.tag == OCCA_FLOAT) {
      const float f = fromBits<float>(e.bits);
      occaType w = occaJsonGetNumber(r, OCCA_DOUBLE);
      if (occaIsUndefined(w) || w.type != OCCA_DOUBLE || (f == f ? memberBits(w) != toBits<double>((double) f) : w.value.double_ == w.value.double_))
        hp::oracle(where + ": stored float does not convert to the same double");
    }
  } else if (v.kind == "str") {
    if (occaIsUndefined(r) || r.type != OCCA_JSON || !occaJsonIsString(r)) { hp::oracle(where + ": stored string does not read back as a json string"); return; }
    if (std::string(occaJsonGetString(r)) != v.str) hp::oracle(where + ": stored string reads back with other bytes");
  } else if (v.kind == "null" || v.kind == "nullptr") {
    if (occaIsUndefined(r) || r.type != OCCA_NULL) hp::oracle(where + ": stored null reads back as " + desc(r));
  } else if (v.kind == "h" && !st.dump.empty()) {
    if (st.dump == "null") {
      if (r.type != OCCA_NULL) hp::oracle(where + ": stored null json reads back as " + desc(r));
    } else if (occaIsUndefined(r) || r.type != OCCA_JSON) hp::oracle(where + ": stored json does not read back as json");
    else if (dumpOf(r) != st.dump) hp::oracle(where + ": stored json reads back as a different document");
  }
}

// what has been written and must still be there: per json handle slot, for keys without path syntax /
// array positions, while only operations through that same slot touched the tree
static std::map<int, std::map<std::string, Stored> > objShadow;
static std::map<int, std::vector<Stored> > arrShadow;
static std::map<int, bool> arrShadowValid;
static std::map<void*, std::set<int> > aliases;       // object address -> slots holding a handle to (part of) it
static std::map<int, void*> rootOf;                   // slot -> address of the owning root object
static std::map<void*, occaType> liveOwned;           // owned objects not yet freed (freed by reset())

static void forgetTree(int slot) {                    // the tree of `slot` was changed through another path
  std::map<int, void*>::iterator it = rootOf.find(slot);
  if (it == rootOf.end()) return;
  for (int s : aliases[it->second]) { objShadow.erase(s); arrShadow.erase(s); arrShadowValid[s] = false; }
}
static void forgetOthers(int slot) {
  std::map<int, void*>::iterator it = rootOf.find(slot);
  if (it == rootOf.end()) return;
  for (int s : aliases[it->second]) if (s != slot) { objShadow.erase(s); arrShadow.erase(s); arrShadowValid[s] = false; }
}
static void registerHandle(int slot, void *root) { rootOf[slot] = root; aliases[root].insert(slot); }

static Stored makeStored(const Val &v, const occaType &t) {
  Stored s; s.v = v;
  if (v.kind == "h") {
    // keep the kind of the stored thing so it can be compared later
    if (!occaIsUndefined(t) && t.type == OCCA_JSON) s.dump = dumpOf(t);
    else if (!occaIsUndefined(t) && t.type == OCCA_NULL) s.dump = "null";
    else if (!occaIsUndefined(t) && isScalarTag(t.type)) {
      // a scalar kept in a slot (e.g. the default returned by an earlier get): compare as that scalar
      s.v.kind = (t.type == OCCA_BOOL) ? "bool" : (t.type == OCCA_FLOAT) ? "float" : (t.type == OCCA_DOUBLE) ? "double" :
                 (t.type == OCCA_INT8) ? "int8" : (t.type == OCCA_UINT8) ? "uint8" : (t.type == OCCA_INT16) ? "int16" :
                 (t.type == OCCA_UINT16) ? "uint16" : (t.type == OCCA_INT32) ? "int32" : (t.type == OCCA_UINT32) ? "uint32" :
                 (t.type == OCCA_INT64) ? "int64" : "uint64";
      s.v.bits = memberBits(t);
    } else if (!occaIsUndefined(t) && t.type == OCCA_STRING) { s.v.kind = "str"; s.v.str = t.value.ptr; }
  }
  return s;
}

static bool plainKey(const std::string &k) {
  return !k.empty() && k.find('/') == std::string::npos && k.find('\\') == std::string::npos;
}

static void verifyShadow(int slot, const char *when) {
  std::map<int, occaType>::iterator it = slots.find(slot);
  if (it == slots.end() || occaIsUndefined(it->second) || it->second.type != OCCA_JSON) return;
  occaType j = it->second;
  std::map<int, std::map<std::string, Stored> >::iterator o = objShadow.find(slot);
  if (o != objShadow.end() && occaJsonIsObject(j)) {
    for (std::map<std::string, Stored>::iterator k = o->second.begin(); k != o->second.end(); ++k) {
      if (!occaJsonObjectHas(j, k->first.c_str())) { hp::oracle(std::string(when) + ": key written earlier is gone"); continue; }
      checkReadBack(std::string(when) + " key " + hp::hex(k->first), k->second, occaJsonObjectGet(j, k->first.c_str(), occaUndefined));
    }
  }
  std::map<int, std::vector<Stored> >::iterator a = arrShadow.find(slot);
  if (a != arrShadow.end() && arrShadowValid[slot] && occaJsonIsArray(j)) {
    if ((size_t) occaJsonArraySize(j) != a->second.size()) hp::oracle(std::string(when) + ": array size differs from the number of pushed values");
    else for (size_t i = 0; i < a->second.size(); ++i)
      checkReadBack(std::string(when) + " index " + std::to_string(i), a->second[i], occaJsonArrayGet(j, (int) i));
  }
}

//---[ other handle kinds ]---------------------------------------------------------------------
struct DtInfo { std::string name; int bytes; };
static std::map<void*, DtInfo> dtInfo;
struct MemInfo { size_t bytes; unsigned seed; };
static std::map<void*, MemInfo> memInfo;
static unsigned char patternByte(unsigned seed, size_t i) { return (unsigned char) ((seed * 2654435761u + i * 40503u) >> 7); }

//---[ kernels ]--------------------------------------------------------------------------------
static const char *KSRC = R"(
typedef struct { double x, y; } mystruct;
@kernel void copyArgs(char i8, unsigned char u8, short i16, unsigned short u16,
                      int i32, unsigned int u32, long i64, unsigned long u64,
                      float f, double d, mystruct xy, const char *str, void *np, char *out) {
  for (int i = 0; i < 1; ++i; @tile(1, @outer, @inner)) {
    *((char*) (out + 0)) = i8;
    *((unsigned char*) (out + 1)) = u8;
    *((short*) (out + 2)) = i16;
    *((unsigned short*) (out + 4)) = u16;
    *((int*) (out + 8)) = i32;
    *((unsigned int*) (out + 12)) = u32;
    *((long*) (out + 16)) = i64;
    *((unsigned long*) (out + 24)) = u64;
    *((float*) (out + 32)) = f;
    *((double*) (out + 40)) = d;
    *((double*) (out + 48)) = xy.x;
    *((double*) (out + 56)) = xy.y;
    out[64] = (np == 0);
    int k = 0;
    while (str[k] && k < 60) { out[66 + k] = str[k]; ++k; }
    out[65] = (char) k;
  }
}
@kernel void copyScalars(char i8, unsigned char u8, short i16, unsigned short u16,
                         int i32, unsigned int u32, long i64, unsigned long u64,
                         float f, double d, char *out) {
  for (int i = 0; i < 1; ++i; @tile(1, @outer, @inner)) {
    *((char*) (out + 0)) = i8;
    *((unsigned char*) (out + 1)) = u8;
    *((short*) (out + 2)) = i16;
    *((unsigned short*) (out + 4)) = u16;
    *((int*) (out + 8)) = i32;
    *((unsigned int*) (out + 12)) = u32;
    *((long*) (out + 16)) = i64;
    *((unsigned long*) (out + 24)) = u64;
    *((float*) (out + 32)) = f;
    *((double*) (out + 40)) = d;
  }
}
)";
static occaKernel kAll, kScalars;
static occaMemory kOut;
static bool kernelsBuilt = false;
static void buildKernels() {
  if (kernelsBuilt) return;
  occaJson props = occaJsonParse("{type_validation: false}");
  kAll = occaBuildKernelFromString(KSRC, "copyArgs", props);
  occaFree(&props);
  kScalars = occaBuildKernelFromString(KSRC, "copyScalars", occaDefault);   // argument types validated
  kOut = occaMalloc(128, NULL, occaDefault);
  kernelsBuilt = true;
}

//---[ the step function ]----------------------------------------------------------------------
static void resetAll() {
  for (std::map<void*, occaType>::iterator it = liveOwned.begin(); it != liveOwned.end(); ++it) {
    occaType t = it->second;
    occaFree(&t);
  }
  liveOwned.clear(); slots.clear(); slotStr.clear(); objShadow.clear(); arrShadow.clear(); arrShadowValid.clear();
  aliases.clear(); rootOf.clear(); dtInfo.clear(); memInfo.clear();
}

static bool getSlot(const std::string &s, occaType &out, int &id) {
  id = atoi(s.c_str());
  std::map<int, occaType>::iterator it = slots.find(id);
  if (it == slots.end()) return false;
  out = it->second;
  return true;
}

static void storeSlot(int id, const occaType &t, const Val *src) {
  slots[id] = t;
  if (!occaIsUndefined(t) && t.type == OCCA_STRING) {       // keep the characters alive with the slot
    slotStr[id] = std::string(t.value.ptr);
    slots[id].value.ptr = const_cast<char*>(slotStr[id].c_str());
  }
  (void) src;
}

static std::string kindFlags(occaJson j) {
  std::string f;
  f += occaJsonIsBoolean(j) ? '1' : '0';
  f += occaJsonIsNumber(j) ? '1' : '0';
  f += occaJsonIsString(j) ? '1' : '0';
  f += occaJsonIsArray(j) ? '1' : '0';
  f += occaJsonIsObject(j) ? '1' : '0';
  return f;
}

static std::string step(const toks &t) {
  if (t.empty()) return "bad-op";
  const std::string &op = t[0];
  occaType h, h2, vt;
  int id = 0, id2 = 0;
  std::string key;

  //--- pure: constructors
  if (op == "mk" && t.size() == 2) {
    Val v = parseVal(t[1]);
    if (!v.ok || v.kind == "h" || !build(v, vt)) return "bad-op";
    checkCtor(v, vt);
    return desc(vt);
  }
  //--- pure: a scalar through a json object and back with a requested type
  if (op == "rt" && t.size() == 3) {
    Val v = parseVal(t[1]);
    int totag = atoi(t[2].c_str());
    if (!v.ok || v.kind == "h" || !build(v, vt)) return "bad-op";
    occaJson j = occaCreateJson();
    std::string out;
    try {
      occaJsonObjectSet(j, "v", vt);
      occaType r = occaJsonObjectGet(j, "v", occaUndefined);
      if (occaIsUndefined(r) || r.type != OCCA_JSON) out = desc(r);
      else {
        Stored st = makeStored(v, vt);
        checkReadBack("json round trip", st, r);
        out = kindFlags(r) + " ";
        if (occaJsonIsNumber(r)) out += desc(occaJsonGetNumber(r, totag));
        else if (occaJsonIsString(r)) out += "S" + hp::hex(occaJsonGetString(r));
        else out += "-";
      }
    } catch (...) { out = "err"; }
    occaFree(&j);
    return out;
  }
  //--- kernel arguments
  if ((op == "krun" || op == "krunb") && t.size() == 15) {
    // krun <style> i8 u8 i16 u16 i32 u32 i64 u64 f d <struct 16 bytes hex> <str hex> <null|nullptr>
    const bool amb = (t[1] == "ambig");
    uint64_t b[10];
    for (int i = 0; i < 10; ++i) b[i] = strtoull(t[2 + i].c_str(), NULL, 16);
    std::string sb, str;
    if (!hp::unhex(t[12], sb) || sb.size() != 16 || !hp::unhex(t[13], str) || str.find('\0') != std::string::npos || str.size() > 58) return "bad-op";
    unsigned char xy[16]; memcpy(xy, sb.data(), 16);
    try {
      buildKernels();
      occaType a[10];
      if (amb) {
        a[0] = occaChar(fromBits<char>(b[0])); a[1] = occaUChar(fromBits<unsigned char>(b[1]));
        a[2] = occaShort(fromBits<short>(b[2])); a[3] = occaUShort(fromBits<unsigned short>(b[3]));
        a[4] = occaInt(fromBits<int>(b[4])); a[5] = occaUInt(fromBits<unsigned int>(b[5]));
        a[6] = occaLong(fromBits<long>(b[6])); a[7] = occaULong(fromBits<unsigned long>(b[7]));
      } else {
        a[0] = occaInt8(fromBits<int8_t>(b[0])); a[1] = occaUInt8(fromBits<uint8_t>(b[1]));
        a[2] = occaInt16(fromBits<int16_t>(b[2])); a[3] = occaUInt16(fromBits<uint16_t>(b[3]));
        a[4] = occaInt32(fromBits<int32_t>(b[4])); a[5] = occaUInt32(fromBits<uint32_t>(b[5]));
        a[6] = occaInt64(fromBits<int64_t>(b[6])); a[7] = occaUInt64(fromBits<uint64_t>(b[7]));
      }
      a[8] = occaFloat(fromBits<float>(b[8])); a[9] = occaDouble(fromBits<double>(b[9]));
      if (op == "krunb") a[0] = occaBool(b[0] & 1);
      unsigned char fill[128]; memset(fill, 0xAA, sizeof(fill));
      occaCopyPtrToMem(kOut, fill, 128, 0, occaDefault);
      occaType np = (t[14] == "nullptr") ? occaPtr(NULL) : occaNull;
      if (amb) {   // the third calling convention: array of arguments
        occaType args[14] = {a[0], a[1], a[2], a[3], a[4], a[5], a[6], a[7], a[8], a[9], occaStruct(xy, 16), occaString(str.c_str()), np, kOut};
        occaKernelRunWithArgs(kAll, 14, args);
      } else {
        occaKernelRunN(kAll, 14, a[0], a[1], a[2], a[3], a[4], a[5], a[6], a[7], a[8], a[9], occaStruct(xy, 16), occaString(str.c_str()), np, kOut);
      }
      unsigned char out[128];
      occaCopyMemToPtr(out, kOut, 128, 0, occaDefault);
      // oracle: the kernel saw exactly the bytes of the C values
      unsigned char want[128]; memset(want, 0xAA, sizeof(want));
      static const int off[10] = {0, 1, 2, 4, 8, 12, 16, 24, 32, 40};
      static const int wid[10] = {1, 1, 2, 2, 4, 4, 8, 8, 4, 8};
      for (int i = 0; i < 10; ++i) memcpy(want + off[i], &b[i], wid[i]);
      memcpy(want + 48, xy, 16);
      want[64] = 1; want[65] = (unsigned char) str.size(); memcpy(want + 66, str.data(), str.size());
      if (memcmp(out, want, 128)) hp::oracle("kernel arguments: the bytes seen by the kernel differ from the bytes of the C values");
      std::string r = hp::hex(std::string((char*) out, 66 + str.size()));
      // second kernel: argument types validated against the kernel signature, pushed one by one
      occaCopyPtrToMem(kOut, fill, 128, 0, occaDefault);
      occaKernelClearArgs(kScalars);
      for (int i = 0; i < 10; ++i) occaKernelPushArg(kScalars, a[i]);
      occaKernelPushArg(kScalars, kOut);
      occaKernelRunFromArgs(kScalars);
      occaCopyMemToPtr(out, kOut, 128, 0, occaDefault);
      memset(want + 48, 0xAA, 80);
      if (memcmp(out, want, 128)) hp::oracle("kernel arguments (validated kernel): bytes seen by the kernel differ from the C values");
      return r + " " + hp::hex(std::string((char*) out, 48));
    } catch (...) { return "err"; }
  }

  //--- strings returned by the API: kernel hash (malloc'ed C strings)
  if (op == "khash" && t.size() == 1) {
    try {
      buildKernels();
      const char *h = occaKernelHash(kAll);
      const char *f = occaKernelFullHash(kAll);
      if (!h || !f) return "null";
      const size_t lh = strlen(h), lf = strlen(f);          // reads the result as the C string it is declared to be
      if (lh != 16 || lf != 64) hp::oracle("occaKernelHash/occaKernelFullHash: returned strings have lengths " + std::to_string(lh) + "/" + std::to_string(lf));
      else if (strncmp(h, f, 16)) hp::oracle("occaKernelHash is not the prefix of occaKernelFullHash");
      std::string r = std::to_string(lh) + " " + std::to_string(lf);
      ::free((void*) h); ::free((void*) f);
      return r;
    } catch (...) { return "err"; }
  }

  //--- handles
  try {
    if (op == "jnew" && t.size() == 2) {
      id = atoi(t[1].c_str());
      occaType j = occaCreateJson();
      if (occaIsUndefined(j) || j.type != OCCA_JSON || !j.needsFree) hp::oracle("occaCreateJson did not return an owned json handle");
      storeSlot(id, j, NULL);
      liveOwned[j.value.ptr] = j;
      registerHandle(id, j.value.ptr);
      arrShadowValid[id] = true;
      return desc(j);
    }
    if (op == "cp" && t.size() == 3) {
      id = atoi(t[1].c_str());
      if (!getSlot(t[2], h, id2)) return "nosuch";
      storeSlot(id, h, NULL);
      if (rootOf.count(id2)) registerHandle(id, rootOf[id2]);
      return desc(h);
    }
    if (op == "free" && t.size() == 2) {
      if (slots.find(atoi(t[1].c_str())) == slots.end()) return "nosuch";
      id = atoi(t[1].c_str());
      occaType &ref = slots[id];
      const bool wasUndef = occaIsUndefined(ref);
      if (!wasUndef && ref.type == OCCA_JSON) verifyShadow(id, "before free");
      if (!wasUndef && ref.type == OCCA_JSON && ref.needsFree) forgetTree(id);
      void *p = ref.value.ptr;
      const bool owning = !wasUndef && ((ref.type == OCCA_JSON && ref.needsFree) || ref.type == OCCA_DTYPE || ref.type == OCCA_MEMORY);
      occaFree(&ref);
      if (!occaIsUndefined(ref)) hp::oracle("occaFree left the handle defined");
      if (owning) { liveOwned.erase(p); dtInfo.erase(p); memInfo.erase(p); }
      objShadow.erase(id); arrShadow.erase(id);
      return "ok";
    }
    if (op == "set" && t.size() == 4) {
      if (!getSlot(t[1], h, id)) return "nosuch";
      Val v = parseVal(t[3]);
      if (!hp::unhex(t[2], key) || key.find('\0') != std::string::npos || !v.ok) return "bad-op";
      if (!build(v, vt)) return "nosuch";
      Stored st = makeStored(v, vt);
      const bool selfAlias = (v.kind == "h" && rootOf.count(v.slot) && rootOf.count(id) && rootOf[v.slot] == rootOf[id]);
      forgetOthers(id);
      if (!plainKey(key) || selfAlias) forgetTree(id);
      occaJsonObjectSet(h, key.c_str(), vt);
      // immediate read-back (the empty key replaces the document itself: nothing to look up then)
      if (!key.empty() && !selfAlias) {
        if (!occaJsonObjectHas(h, key.c_str())) hp::oracle("occaJsonObjectSet: the key is not there afterwards");
        else checkReadBack("read-back after set", st, occaJsonObjectGet(h, key.c_str(), occaUndefined));
      }
      if (plainKey(key) && !selfAlias) objShadow[id][key] = st;
      arrShadow.erase(id);
      return "ok";
    }
    if (op == "get" && t.size() == 5) {
      id = atoi(t[1].c_str());
      if (!getSlot(t[2], h, id2)) return "nosuch";
      Val dv = parseVal(t[4]);
      if (!hp::unhex(t[3], key) || key.find('\0') != std::string::npos || !dv.ok) return "bad-op";
      if (!build(dv, vt)) return "nosuch";
      occaType r = occaJsonObjectGet(h, key.c_str(), vt);
      if (plainKey(key) && objShadow.count(id2) && objShadow[id2].count(key)) checkReadBack("get after history", objShadow[id2][key], r);
      storeSlot(id, r, NULL);
      const bool fromDefault = (dv.kind == "h" && !occaIsUndefined(r) && r.type == OCCA_JSON && r.value.ptr == vt.value.ptr);
      if (!fromDefault && !occaIsUndefined(r) && r.type == OCCA_JSON) {
        if (r.needsFree) hp::oracle("occaJsonObjectGet returned an owning handle for a member of the document");
        if (rootOf.count(id2)) registerHandle(id, rootOf[id2]);
      } else if (fromDefault && rootOf.count(dv.slot)) registerHandle(id, rootOf[dv.slot]);
      std::string d = desc(r);
      if (!occaIsUndefined(r) && r.type == OCCA_JSON) d += ":" + kindFlags(r);
      return d;
    }
    if (op == "has" && t.size() == 3) {
      if (!getSlot(t[1], h, id)) return "nosuch";
      if (!hp::unhex(t[2], key) || key.find('\0') != std::string::npos) return "bad-op";
      return occaJsonObjectHas(h, key.c_str()) ? "1" : "0";
    }
    if (op == "push" && t.size() == 3) {
      if (!getSlot(t[1], h, id)) return "nosuch";
      Val v = parseVal(t[2]);
      if (!v.ok) return "bad-op";
      if (!build(v, vt)) return "nosuch";
      Stored st = makeStored(v, vt);
      const bool selfAlias = (v.kind == "h" && rootOf.count(v.slot) && rootOf.count(id) && rootOf[v.slot] == rootOf[id]);
      forgetOthers(id);
      const bool noneArg = (v.kind == "h" && !occaIsUndefined(vt) && vt.type == OCCA_JSON && kindFlags(vt) == "00000" && dumpOf(vt).empty());
      occaJsonArrayPush(h, vt);
      const int n = occaJsonArraySize(h);
      if (selfAlias) { forgetTree(id); arrShadowValid[id] = false; }     // the value was read after the array was prepared
      else if (!noneArg) {
        if (n < 1) hp::oracle("occaJsonArrayPush: array is empty afterwards");
        else checkReadBack("read-back after push", st, occaJsonArrayGet(h, n - 1));
        if (arrShadowValid[id]) arrShadow[id].push_back(st);
      }
      objShadow.erase(id);
      return "ok";
    }
    if (op == "aget" && t.size() == 4) {
      id = atoi(t[1].c_str());
      if (!getSlot(t[2], h, id2)) return "nosuch";
      const int idx = atoi(t[3].c_str());
      if (idx < 0) return "bad-op";                       // no bounds check in the API: outside the protocol
      const bool inRange = (!occaIsUndefined(h) && h.type == OCCA_JSON && occaJsonIsArray(h) && idx < occaJsonArraySize(h));
      if (!inRange) { forgetTree(id2); arrShadowValid[id2] = false; }
      occaType r = occaJsonArrayGet(h, idx);
      if (inRange && arrShadowValid[id2] && arrShadow.count(id2) && (size_t) idx < arrShadow[id2].size())
        checkReadBack("array get after history", arrShadow[id2][idx], r);
      storeSlot(id, r, NULL);
      if (!occaIsUndefined(r) && r.type == OCCA_JSON && r.needsFree) hp::oracle("occaJsonArrayGet returned an owning handle for an element of the array");
      if (!occaIsUndefined(r) && r.type == OCCA_JSON && rootOf.count(id2)) registerHandle(id, rootOf[id2]);
      std::string d = desc(r);
      if (!occaIsUndefined(r) && r.type == OCCA_JSON) d += ":" + kindFlags(r);
      return d;
    }
    if (op == "asize" && t.size() == 2) {
      if (!getSlot(t[1], h, id)) return "nosuch";
      return std::to_string(occaJsonArraySize(h));
    }
    if (op == "pop" && t.size() == 2) {
      if (!getSlot(t[1], h, id)) return "nosuch";
      if (!occaIsUndefined(h) && h.type == OCCA_JSON && occaJsonIsArray(h) && occaJsonArraySize(h) == 0) return "empty";   // pop_back on empty: outside the protocol
      if (!occaIsUndefined(h) && h.type == OCCA_JSON && kindFlags(h) == "00000" && dumpOf(h).empty()) return "empty";
      forgetOthers(id);
      occaJsonArrayPop(h);
      if (arrShadowValid[id] && arrShadow.count(id) && !arrShadow[id].empty()) arrShadow[id].pop_back();
      return "ok";
    }
    if (op == "ins" && t.size() == 4) {
      if (!getSlot(t[1], h, id)) return "nosuch";
      const int idx = atoi(t[2].c_str());
      Val v = parseVal(t[3]);
      if (!v.ok) return "bad-op";
      if (!build(v, vt)) return "nosuch";
      Stored st = makeStored(v, vt);
      const bool selfAlias = (v.kind == "h" && rootOf.count(v.slot) && rootOf.count(id) && rootOf[v.slot] == rootOf[id]);
      forgetOthers(id);
      occaJsonArrayInsert(h, idx, vt);
      if (selfAlias) { forgetTree(id); arrShadowValid[id] = false; }
      else {
        checkReadBack("read-back after insert", st, occaJsonArrayGet(h, idx));
        if (arrShadowValid[id] && arrShadow.count(id) && (size_t) idx <= arrShadow[id].size()) arrShadow[id].insert(arrShadow[id].begin() + idx, st);
        else arrShadowValid[id] = false;
      }
      return "ok";
    }
    if (op == "clr" && t.size() == 2) {
      if (!getSlot(t[1], h, id)) return "nosuch";
      forgetOthers(id);
      occaJsonArrayClear(h);
      if (occaJsonArraySize(h) != 0) hp::oracle("occaJsonArrayClear: size is not 0 afterwards");
      arrShadow[id].clear();
      return "ok";
    }
    if (op == "kind" && t.size() == 2) {
      if (!getSlot(t[1], h, id)) return "nosuch";
      return kindFlags(h);
    }
    if (op == "gb" && t.size() == 2) {
      if (!getSlot(t[1], h, id)) return "nosuch";
      if (!occaJsonIsBoolean(h)) return "notbool";      // raw union read of a non-boolean: outside the protocol
      return occaJsonGetBoolean(h) ? "1" : "0";
    }
    if (op == "gn" && t.size() == 3) {
      if (!getSlot(t[1], h, id)) return "nosuch";
      if (!occaJsonIsNumber(h)) return "notnum";
      return desc(occaJsonGetNumber(h, atoi(t[2].c_str())));
    }
    if (op == "gs" && t.size() == 2) {
      if (!getSlot(t[1], h, id)) return "nosuch";
      if (!occaJsonIsString(h)) return "notstr";
      return "S" + hp::hex(occaJsonGetString(h));
    }
    if (op == "cast" && t.size() == 3) {
      if (!getSlot(t[1], h, id)) return "nosuch";
      forgetTree(id);
      if (t[2] == "b") occaJsonCastToBoolean(h);
      else if (t[2] == "n") occaJsonCastToNumber(h);
      else if (t[2] == "s") occaJsonCastToString(h);
      else if (t[2] == "a") occaJsonCastToArray(h);
      else if (t[2] == "o") occaJsonCastToObject(h);
      else return "bad-op";
      return "ok";
    }
    if (op == "show" && t.size() == 2) {
      if (!getSlot(t[1], h, id)) return "nosuch";
      if (occaIsUndefined(h) || h.type != OCCA_JSON) return desc(h);
      verifyShadow(id, "show");
      std::string out;
      showJson(occa::c::json(h), out);
      return out;
    }
    if (op == "parse" && t.size() == 3) {
      id = atoi(t[1].c_str());
      std::string text;
      if (!hp::unhex(t[2], text) || text.find('\0') != std::string::npos) return "bad-op";
      occaType j = occaJsonParse(text.c_str());
      storeSlot(id, j, NULL);
      if (!occaIsUndefined(j) && j.type == OCCA_JSON) { liveOwned[j.value.ptr] = j; registerHandle(id, j.value.ptr); }
      return desc(j);
    }
    //--- dtype handles
    if (op == "dtnew" && t.size() == 4) {
      id = atoi(t[1].c_str());
      std::string name;
      if (!hp::unhex(t[2], name) || name.find('\0') != std::string::npos) return "bad-op";
      const int bytes = atoi(t[3].c_str());
      occaType d = occaCreateDtype(name.c_str(), bytes);
      storeSlot(id, d, NULL);
      liveOwned[d.value.ptr] = d;
      DtInfo info = {name, bytes};
      dtInfo[d.value.ptr] = info;
      return desc(d);
    }
    if (op == "dtq" && t.size() == 2) {
      if (!getSlot(t[1], h, id)) return "nosuch";
      std::string name = occaDtypeName(h);
      const int bytes = occaDtypeBytes(h);
      std::map<void*, DtInfo>::iterator it = dtInfo.find(h.value.ptr);
      if (it != dtInfo.end() && (it->second.name != name || it->second.bytes != bytes)) hp::oracle("dtype handle no longer designates the dtype it was created for");
      return hp::hex(name) + " " + std::to_string(bytes);
    }
    //--- memory handles
    if (op == "mnew" && t.size() == 4) {
      id = atoi(t[1].c_str());
      const size_t bytes = (size_t) atoi(t[2].c_str());
      const unsigned seed = (unsigned) atoi(t[3].c_str());
      if (bytes == 0 || bytes > 4096) return "bad-op";
      std::vector<unsigned char> src(bytes);
      for (size_t i = 0; i < bytes; ++i) src[i] = patternByte(seed, i);
      occaType m = occaMalloc(bytes, src.data(), occaDefault);
      storeSlot(id, m, NULL);
      liveOwned[m.value.ptr] = m;
      MemInfo info = {bytes, seed};
      memInfo[m.value.ptr] = info;
      return desc(m);
    }
    if (op == "mq" && t.size() == 2) {
      if (!getSlot(t[1], h, id)) return "nosuch";
      if (!occaMemoryIsInitialized(h)) return "uninit";
      const size_t bytes = occaMemorySize(h);
      std::vector<unsigned char> buf(bytes);
      occaCopyMemToPtr(buf.data(), h, bytes, 0, occaDefault);
      unsigned sum = 0;
      for (size_t i = 0; i < bytes; ++i) sum = sum * 31 + buf[i];
      std::map<void*, MemInfo>::iterator it = memInfo.find(h.value.ptr);
      if (it != memInfo.end()) {
        bool same = (it->second.bytes == bytes);
        for (size_t i = 0; same && i < bytes; ++i) same = (buf[i] == patternByte(it->second.seed, i));
        if (!same) hp::oracle("memory handle no longer designates the bytes it was created with");
      }
      return std::to_string(bytes) + " " + std::to_string(sum);
    }
  } catch (...) {
    return "err";
  }
  return "bad-op";
}

//---[ main loop ]-----------------------------------------------------------------------------
// Like hp::run, plus: at the end of every history the objects the history still holds are freed and
// LeakSanitizer is asked whether anything allocated so far has become unreachable (an object no handle
// designates can never be freed by the C program).  LSan re-reports old leaks on every check, so the
// process ends after the first report and the checker restarts it for the remaining histories.
// The check stops the world and scans the heap (~0.5 s under ASan), so the plugin asks for it after every
// history only for the corpus and when a batched run has reported a leak (H_CAPI_LEAK_EVERY).
#include <sanitizer/lsan_interface.h>
#include <unistd.h>
extern "C" const char *__lsan_default_suppressions() {
  return "leak:occa::lang::\nleak:buildKernel\n";       // the OKL parser's own leaks while a kernel is compiled are not C29's business
}
static int leakEvery = 1, historiesDone = 0;
static void endHistory(bool last) {
  resetAll();
  ++historiesDone;
  if (!last && (historiesDone % leakEvery) != 0) return;     // H_CAPI_LEAK_EVERY=N: the (slow) check every N histories
  if (__lsan_do_recoverable_leak_check()) {
    hp::oracle("LeakSanitizer: an object allocated by the C API is unreachable and was never freed");
    std::cout << "LEAK" << std::endl;
    _exit(67);
  }
}

int main() {
  if (getenv("H_CAPI_LEAK_EVERY")) leakEvery = std::max(1, atoi(getenv("H_CAPI_LEAK_EVERY")));
  std::string line;
  bool active = false;
  while (std::getline(std::cin, line)) {
    if (!line.empty() && line[0] == '#') {
      if (active) endHistory(false);
      std::cout << line << "\n";
      std::cerr << line << std::endl;     // lets the checker attribute sanitizer reports to a history
      active = true;
      continue;
    }
    toks t = hp::split(line);
    std::cout << step(t) << std::endl;
  }
  if (active) endHistory(true);
  return 0;
}
