// C12 correspondence harness: drives the real occa::lang::tokenizer_t (internal header, -I/repo/src)
// with the operations of the line protocol of lean/Driver/Lex.lean and evaluates the property's
// own, model-independent oracles.
//
//   T <hex>            tokenize the byte string (exact-size heap buffer + terminating NUL, so ASan sees a
//                      read past the terminator) -> "e=<errors> <tok> <tok> ..."
//   R <item> ...       items are token specs  I:<hex>  P:<hex spelling>  O:<id>  S:<enc>:<hex>:<hex udf>
//                      C:<enc>:<hex>:<hex udf>  M:<hex>  and raw separators  W:<hex>.
//                      Builds REAL token objects, prints them with token_t::print, re-tokenizes the text
//                      -> "t=<hex text> e=<errors> <tok> ..."; oracle: re-read tokens equal the originals.
//   E <q> <hex>        escape(value, q)   -> hex        (q = 22 or 27)
//   U <q> <hex>        unescape(text, q)  -> hex
//   G <hex>            getEncodingType / getStringEncoding / getCharacterEncoding -> "<s> <c>"
//   H <hex>            tokenizer_t::getHeader() at the start of the source -> "h=<hex|NULL> p=<offset> e=<errors>"
//
// canonical token:  I:<hex> | P:<hex> | O:<id> | N | S:<enc>:<hex>:<hex> | C:<enc>:<hex>:<hex> | M:<hex> | U:<hex>
#include <occa/internal/lang/tokenizer.hpp>
#include <occa/internal/lang/token.hpp>
#include <occa/internal/lang/operator.hpp>
#include <occa/internal/utils/string.hpp>
#include <occa/internal/io/output.hpp>
#include <csignal>
#include <stdexcept>
#include <unistd.h>
#include "hproto.hpp"

using namespace occa;
using namespace occa::lang;

static void swallow(const char *) {}

static void onAlarm(int) {
  const char m[] = "\n!ORACLE tokenizer did not terminate within the alarm\n";
  if (write(1, m, sizeof(m) - 1)) {}
  _exit(14);
}

// the registered operators in registration order (operator id = index), from a trie filled by the
// real getOperators()
static std::vector<const operator_t*> regOps;

static void initOps() {
  operatorTrie t;
  t.autoFreeze = false;
  getOperators(t);
  for (size_t i = 0; i < t.values.size(); ++i) regOps.push_back(t.values[i]);
}

static int opId(const operator_t *op) {
  for (size_t i = 0; i < regOps.size(); ++i) if (regOps[i] == op) return (int) i;
  return -1;
}

static std::string hx(const std::string &s) { return hp::hex(s); }

static std::string canon(token_t *t) {
  std::ostringstream ss;
  const int ty = t->type();
  if (ty == tokenType::identifier) ss << "I:" << hx(t->to<identifierToken>().value);
  else if (ty == tokenType::primitive) ss << "P:" << hx(t->to<primitiveToken>().strValue);
  else if (ty == tokenType::op) ss << "O:" << opId(t->to<operatorToken>().op);
  else if (ty == tokenType::newline) ss << "N";
  else if (ty == tokenType::string) {
    stringToken &s = t->to<stringToken>();
    ss << "S:" << s.encoding << ":" << hx(s.value) << ":" << hx(s.udf);
  } else if (ty == tokenType::char_) {
    charToken &s = t->to<charToken>();
    ss << "C:" << s.encoding << ":" << hx(s.value) << ":" << hx(s.udf);
  } else if (ty == tokenType::comment) ss << "M:" << hx(t->to<commentToken>().value);
  else if (ty == tokenType::unknown) ss << "U:" << hx(std::string(1, t->origin.position.start[0]));
  else ss << "?" << ty;
  return ss.str();
}

struct Run {
  std::vector<std::string> toks;
  int errors;
};

// naive reference: the longest registered spelling that is a prefix of p (no trie involved)
static int naiveLongest(const char *p) {
  int best = -1; size_t bl = 0;
  for (size_t i = 0; i < regOps.size(); ++i) {
    const std::string &s = regOps[i]->str;
    if (strncmp(p, s.c_str(), s.size()) == 0 && s.size() > bl) { best = (int) i; bl = s.size(); }
  }
  return best;
}

// Tokenize `src` with the real tokenizer; fileMode = through a file_t (as parseFile does) or through a
// bare NUL-terminated buffer of exactly src.size()+1 bytes (as parseSource does).
static Run tokenizeReal(const std::string &src, bool fileMode, bool oracles) {
  Run r; r.errors = 0;
  char *buf = NULL;
  const char *base;
  // one tokenizer object for all sources, re-targeted with set() — as parser_t uses its tokenizer
  static tokenizer_t *tk = new tokenizer_t();
  file_t *file = NULL;
  if (fileMode) {
    file = new file_t(std::string("(h_lex)"), src);   // std::string: a literal would select file_t(bool, name)
    tk->set(file);                       // as parser_t::setSource(filename, true) does
    base = file->content.c_str();
  } else {
    buf = (char*) malloc(src.size() + 1);
    memcpy(buf, src.data(), src.size());
    buf[src.size()] = '\0';
    tk->set((const char*) buf);          // as parser_t::setSource(source, false) does
    base = buf;
  }
  // the C string the tokenizer sees ends at the first NUL
  const size_t n = strlen(base);
  const char *prevEnd = base;
  alarm(20);
  while (!tk->isEmpty()) {
    token_t *t = NULL;
    tk->setNext(t);
    if (!t) break;
    if (oracles) {
      const char *s = t->origin.position.start, *e = t->origin.position.end;
      if (s < base || e > base + n || s > e)
        hp::oracle("token span lies outside the input buffer [0," + std::to_string(n) + "]: start=" +
                   std::to_string((long) (s - base)) + " end=" + std::to_string((long) (e - base)));
      else {
        if (s < prevEnd) hp::oracle("token spans overlap or go backwards");
        if (e == s && t->type() != tokenType::newline && !(t->type() == tokenType::string))
          hp::oracle("token consumed no input");
        if (t->type() == tokenType::op) {
          int want = naiveLongest(s);
          if (want != opId(t->to<operatorToken>().op) || (size_t) (e - s) != regOps[want]->str.size())
            hp::oracle("operator token is not the longest registered spelling at its position");
        }
        prevEnd = e;
      }
    }
    r.toks.push_back(canon(t));
    delete t;
  }
  if (oracles) {
    const char *fin = tk->fp.start;
    if (fin < base || fin > base + n)
      hp::oracle("tokenizer position ends outside the input buffer [0," + std::to_string(n) + "]: " +
                 std::to_string((long) (fin - base)));
  }
  alarm(0);
  r.errors = tk->errors;
  tk->clear();                           // drops the references to the file / buffer
  if (buf) free(buf);
  return r;
}

static std::string show(const Run &r) {
  std::ostringstream ss;
  ss << "e=" << r.errors;
  for (auto &t : r.toks) ss << " " << t;
  return ss.str();
}

static bool split3(const std::string &s, std::vector<std::string> &parts) {
  parts.clear();
  size_t p = 0;
  while (true) {
    size_t q = s.find(':', p);
    if (q == std::string::npos) { parts.push_back(s.substr(p)); break; }
    parts.push_back(s.substr(p, q - p));
    p = q + 1;
  }
  return true;
}

int main() {
  io::stderr.setOverride(swallow);
  io::stdout.setOverride(swallow);
  signal(SIGALRM, onAlarm);
  initOps();
  return hp::run(
    []() {},
    [](const std::vector<std::string> &t) -> std::string {
      if (t.empty()) return "bad-op";
      std::string bytes;
      if (t[0] == "T" && t.size() == 2 && hp::unhex(t[1], bytes)) {
        Run a = tokenizeReal(bytes, false, true);
        Run b = tokenizeReal(bytes, true, false);
        if (show(a) != show(b)) hp::oracle("string-source and file-source tokenization differ: " + show(b));
        return show(a);
      }
      if (t[0] == "R") {
        fileOrigin org;
        std::vector<token_t*> toks;       // NULL = separator
        std::vector<std::string> expect;  // canonical originals (separators skipped)
        std::string text;
        bool bad = false;
        for (size_t i = 1; i < t.size() && !bad; ++i) {
          std::vector<std::string> p;
          split3(t[i], p);
          std::string a, b;
          token_t *tok = NULL;
          if (p[0] == "W" && p.size() == 2 && hp::unhex(p[1], a)) { text += a; continue; }
          else if (p[0] == "I" && p.size() == 2 && hp::unhex(p[1], a)) tok = new identifierToken(org, a);
          else if (p[0] == "P" && p.size() == 2 && hp::unhex(p[1], a)) {
            const char *c = a.c_str();
            primitive v = primitive::load(c, false);
            tok = new primitiveToken(org, v, a);
          }
          else if (p[0] == "O" && p.size() == 2) {
            int id = atoi(p[1].c_str());
            if (id < 0 || id >= (int) regOps.size()) { bad = true; break; }
            tok = new operatorToken(org, *regOps[id]);
          }
          else if (p[0] == "S" && p.size() == 4 && hp::unhex(p[2], a) && hp::unhex(p[3], b))
            tok = new stringToken(org, atoi(p[1].c_str()), a, b);
          else if (p[0] == "C" && p.size() == 4 && hp::unhex(p[2], a) && hp::unhex(p[3], b))
            tok = new charToken(org, atoi(p[1].c_str()), a, b);
          else if (p[0] == "M" && p.size() == 2 && hp::unhex(p[1], a)) tok = new commentToken(org, a, 0);
          else { bad = true; break; }
          expect.push_back(canon(tok));
          text += tok->str();            // the REAL printer of the token class
          toks.push_back(tok);
        }
        for (auto x : toks) delete x;
        if (bad) return "bad-op";
        Run r = tokenizeReal(text, false, true);
        // oracle: the non-newline tokens read back are exactly the originals
        std::vector<std::string> got;
        for (auto &x : r.toks) if (x != "N") got.push_back(x);
        if (got != expect) {
          std::string g, e;
          size_t k = 0;
          while (k < got.size() && k < expect.size() && got[k] == expect[k]) ++k;
          g = k < got.size() ? got[k] : "<end>";
          e = k < expect.size() ? expect[k] : "<end>";
          hp::oracle("printed tokens do not re-tokenize to the originals: token " + std::to_string(k) +
                     " expected " + e + " got " + g);
        } else if (r.errors) {
          hp::oracle("re-tokenizing printed tokens reported errors");
        }
        return "t=" + hx(text) + " " + show(r);
      }
      if ((t[0] == "E" || t[0] == "U") && t.size() == 3 && hp::unhex(t[2], bytes)) {
        std::string q;
        if (!hp::unhex(t[1], q) || q.size() != 1) return "bad-op";
        if (t[0] == "E") {
          std::string e = escape(bytes, q[0]);
          return hx(e);
        }
        return hx(unescape(bytes, q[0]));
      }
      if (t[0] == "H" && t.size() == 2 && hp::unhex(t[1], bytes)) {
        // tokenizer_t::getHeader() on an exact-size buffer (the #include path of the preprocessor)
        static tokenizer_t *th = new tokenizer_t();
        char *buf = (char*) malloc(bytes.size() + 1);
        memcpy(buf, bytes.data(), bytes.size());
        buf[bytes.size()] = '\0';
        const size_t n = strlen(buf);
        th->set((const char*) buf);
        std::string out;
        alarm(20);
        try {
          std::string h = th->getHeader();
          out = "h=" + hx(h);
        } catch (const std::logic_error &) {   // `return NULL;` from a function returning std::string
          out = "h=NULL";
        }
        alarm(0);
        const char *fin = th->fp.start;
        if (fin < buf || fin > buf + n)
          hp::oracle("getHeader leaves the position outside the input buffer [0," + std::to_string(n) + "]: " +
                     std::to_string((long) (fin - buf)));
        out += " p=" + std::to_string((long) (fin - buf)) + " e=" + std::to_string(th->errors);
        th->clear();
        free(buf);
        return out;
      }
      if (t[0] == "G" && t.size() == 2 && hp::unhex(t[1], bytes)) {
        return std::to_string(getStringEncoding(bytes)) + " " + std::to_string(getCharacterEncoding(bytes));
      }
      return "bad-op";
    });
}
