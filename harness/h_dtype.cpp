// C11 / C10 correspondence harness: drives the REAL occa::dtype_t (construction, toJson, fromJson,
// canBeCastedTo), lang::argMetadata_t / kernelMetadata_t (toJson, fromJson) and
// modeKernel_t::setupRun (through occa::kernel::run on a kernel object whose run() is a no-op)
// with the operations of the line protocol (see lean/Driver/Dtype.lean), prints one canonical
// observation per operation and evaluates the properties' own, model-independent oracles:
//   * a dtype read back from its JSON *text* has the same kind, field names and order, element
//     types, leaf names and byte sizes (descE) and serialises to the same JSON again;
//   * the cast relation among originals equals the one among / with their round-tripped values;
//   * kernel metadata read back from JSON text is equivalent, and the validation decision on the
//     read-back ("cached") metadata equals the decision on the original ("fresh") metadata;
//   * the validation decision equals a declarative recomputation (argument count, pointer-ness,
//     repetition of the flattened leaves) done here on the harness' own flattening.
#include <algorithm>
#include <iostream>
#include <sstream>
#include <map>
#include <vector>
#include <set>
#include <occa/types/typedefs.hpp>
// dtype_t has no public accessors for tuples (isTuple()/tupleSize() are declared but not defined)
// and none for the reference/registered state: open the class for inspection (layout is unchanged).
#define private public
#include <occa/dtype/dtype.hpp>
#undef private
#include <occa.hpp>
#include <occa/internal/core/kernel.hpp>
#include <occa/internal/core/device.hpp>
#include <occa/internal/core/memory.hpp>
#include <occa/internal/lang/kernelMetadata.hpp>
#include "hproto.hpp"

using occa::dtype_t;
typedef std::vector<std::string> toks_t;

// ---------------------------------------------------------------- state
static std::vector<dtype_t*> slots;
static std::vector<std::pair<int,int> > rtPairs;       // (original slot, round-tripped slot)
static std::vector<dtype_t*> registeredCopies;         // dtypes registered for memories
static occa::lang::kernelMetadata_t meta, metaRT;
static bool haveRT = false;
static occa::device dev;
static std::map<const dtype_t*, occa::memory> memories;

class testKernel : public occa::modeKernel_t {
 public:
  mutable int runs;
  testKernel(occa::modeDevice_t *d, const occa::json &props) :
    occa::modeKernel_t(d, "k", "", props), runs(0) {}
  ~testKernel() {}
  int maxDims() const override { return 3; }
  occa::dim maxOuterDims() const override { return occa::dim(-1, -1, -1); }
  occa::dim maxInnerDims() const override { return occa::dim(-1, -1, -1); }
  const occa::lang::kernelMetadata_t& getMetadata() const override { return metadata; }
  void run() const override { ++runs; }
};

static bool hx(const std::string &h, std::string &out) { return hp::unhex(h, out); }
static bool toInt(const std::string &s, long &v) {
  char *e = NULL; v = std::strtol(s.c_str(), &e, 10); return e && *e == '\0' && !s.empty();
}
static dtype_t* slot(const std::string &s) {
  long i; if (!toInt(s, i) || i < 0 || i >= (long) slots.size()) return NULL; return slots[i];
}

// ---------------------------------------------------------------- canonical text of a dtype
static bool isBuiltinObject(const dtype_t &d) {
  return (&d != &occa::dtype::none) && (&dtype_t::getBuiltin(d.name_) == &d);
}
// withNames: own names of enum/tuple/struct/union nodes included (desc) or not (descE)
static std::string desc(const dtype_t &d0, bool withNames = true) {
  const dtype_t &d = d0.self();
  std::ostringstream ss;
  const std::string nm = withNames ? hp::hex(d.name_) : std::string("*");
  if (d.enum_) {
    ss << "E(" << nm << "," << d.bytes_ << ";";
    for (size_t i = 0; i < d.enum_->enumeratorNames.size(); ++i) ss << (i ? "," : "") << hp::hex(d.enum_->enumeratorNames[i]);
    ss << ")";
  } else if (d.struct_ || (d.union_ && !d.tuple_)) {
    // same precedence as dtype_t::toJson: enum, struct, tuple, union
    const occa::strVector &names = d.struct_ ? d.struct_->fieldNames : d.union_->fieldNames;
    const occa::dtypeNameMap_t &types = d.struct_ ? d.struct_->fieldTypes : d.union_->fieldTypes;
    ss << (d.struct_ ? "S(" : "U(") << nm << "," << d.bytes_ << ";";
    for (size_t i = 0; i < names.size(); ++i)
      ss << (i ? "," : "") << hp::hex(names[i]) << "=" << desc(types.find(names[i])->second, withNames);
    ss << ")";
  } else if (d.tuple_) {
    ss << "T(" << nm << "," << d.bytes_ << "," << d.tuple_->size << "," << desc(d.tuple_->dtype, withNames) << ")";
  } else if (isBuiltinObject(d)) {
    ss << "B(" << hp::hex(d.name_) << "," << d.bytes_ << ")";
  } else {
    ss << "C(" << hp::hex(d.name_) << "," << d.bytes_ << ")";
  }
  return ss.str();
}

// harness' own flattening into leaf keys (what the property calls "element types")
static void flat(const dtype_t &d0, std::vector<std::string> &out) {
  const dtype_t &d = d0.self();
  if (d.struct_ || d.union_) {
    const occa::strVector &names = d.struct_ ? d.struct_->fieldNames : d.union_->fieldNames;
    const occa::dtypeNameMap_t &types = d.struct_ ? d.struct_->fieldTypes : d.union_->fieldTypes;
    for (size_t i = 0; i < names.size(); ++i) flat(types.find(names[i])->second, out);
  } else if (d.tuple_) {
    const int entries = (d.tuple_->size < 0) ? 1 : d.tuple_->size;     // unknown extent: any number of entries
    for (int i = 0; i < entries; ++i) flat(d.tuple_->dtype, out);
  } else {
    out.push_back(desc(d, false));
  }
}
// declarative cast relation: byte on either side, or the longer flattening is a whole number
// (>= 1) of repetitions of the shorter one
static bool castSpec(const dtype_t &a, const dtype_t &b) {
  if (&a.self() == &occa::dtype::byte || &b.self() == &occa::dtype::byte) return true;
  std::vector<std::string> x, y; flat(a, x); flat(b, y);
  if (x.size() > y.size()) x.swap(y);
  if (x.empty()) return y.empty();
  if (y.size() % x.size()) return false;
  for (size_t i = 0; i < y.size(); ++i) if (y[i] != x[i % x.size()]) return false;
  return true;
}

// ---------------------------------------------------------------- canonical text of a json
static std::string jtext(const occa::json &j) {
  std::ostringstream ss;
  if (j.isObject()) {
    ss << "{"; bool first = true;       // std::map: already sorted by key
    const occa::jsonObject &o = j.object();
    for (occa::jsonObject::const_iterator it = o.begin(); it != o.end(); ++it) {
      ss << (first ? "" : ",") << hp::hex(it->first) << ":" << jtext(it->second); first = false;
    }
    ss << "}";
  } else if (j.isArray()) {
    ss << "[";
    const occa::jsonArray &a = j.array();
    for (size_t i = 0; i < a.size(); ++i) ss << (i ? "," : "") << jtext(a[i]);
    ss << "]";
  } else if (j.isString()) {
    ss << "s" << hp::hex(j.string());
  } else if (j.isBool()) {
    ss << "b" << (j.boolean() ? 1 : 0);
  } else if (j.isNumber()) {
    ss << "i" << j.number().to<long>();
  } else {
    ss << "n";
  }
  return ss.str();
}
static bool jparse(const std::string &s, size_t &p, occa::json &out);
static std::string jtok(const std::string &s, size_t &p) {
  size_t q = p;
  while (q < s.size() && s[q] != ',' && s[q] != ']' && s[q] != '}' && s[q] != ':') ++q;
  std::string t = s.substr(p, q - p); p = q; return t;
}
static bool jparse(const std::string &s, size_t &p, occa::json &out) {
  if (p >= s.size()) return false;
  char c = s[p++];
  if (c == 'n') { out = occa::json(occa::json::null_); return true; }
  if (c == 'b') { if (p >= s.size()) return false; out = occa::json(s[p++] == '1'); return true; }
  if (c == 'i') { long v; if (!toInt(jtok(s, p), v)) return false; out = occa::json((int) v); return true; }
  if (c == 's') { std::string v; if (!hx(jtok(s, p), v)) return false; out = occa::json(v); return true; }
  if (c == '[') {
    out = occa::json(occa::json::array_);
    if (p < s.size() && s[p] == ']') { ++p; return true; }
    for (;;) {
      occa::json v; if (!jparse(s, p, v)) return false;
      out += v;
      if (p >= s.size()) return false;
      if (s[p] == ',') { ++p; continue; }
      if (s[p] == ']') { ++p; return true; }
      return false;
    }
  }
  if (c == '{') {
    out = occa::json(occa::json::object_);
    if (p < s.size() && s[p] == '}') { ++p; return true; }
    for (;;) {
      std::string key; if (!hx(jtok(s, p), key)) return false;
      if (p >= s.size() || s[p] != ':') return false;
      ++p;
      occa::json v; if (!jparse(s, p, v)) return false;
      out.object()[key] = v;
      if (p >= s.size()) return false;
      if (s[p] == ',') { ++p; continue; }
      if (s[p] == '}') { ++p; return true; }
      return false;
    }
  }
  return false;
}

// ---------------------------------------------------------------- helpers
static std::string push(dtype_t *d) { slots.push_back(d); return desc(*d); }

static std::string castStr(const dtype_t &a, const dtype_t &b) { return a.canBeCastedTo(b) ? "1" : "0"; }

static std::string descMeta(const occa::lang::kernelMetadata_t &m, bool withNames = true) {
  std::ostringstream ss;
  ss << (m.initialized ? 1 : 0) << "|" << hp::hex(m.name) << "|";
  for (size_t i = 0; i < m.arguments.size(); ++i) {
    const occa::lang::argMetadata_t &a = m.arguments[i];
    ss << (i ? ";" : "") << (a.isConst ? 1 : 0) << "," << (a.isPtr ? 1 : 0) << "," << hp::hex(a.name) << "," << desc(a.dtype, withNames);
  }
  return ss.str();
}

// a registered dtype object usable as memory element type for slot d
static const dtype_t& memDtype(dtype_t *d) {
  if (d->self().registered) return d->self();
  dtype_t *c = new dtype_t(*d);
  c->registerType();
  registeredCopies.push_back(c);
  return *c;
}

enum argKind { A_MEM, A_NULL, A_SCALAR, A_HOST };
struct harg { argKind kind; dtype_t *d; char sc; };

static std::string classify(const std::string &msg) {
  size_t p;
  if (msg.find("Kernel expects [") != std::string::npos && msg.find("received [") != std::string::npos) return "count";
  if ((p = msg.find("expects an occa::memory for argument [")) != std::string::npos)
    return "mem" + msg.substr(p + 38, msg.find(']', p + 38) - (p + 38));
  if ((p = msg.find("expects a non-occa::memory type for argument [")) != std::string::npos)
    return "nonmem" + msg.substr(p + 46, msg.find(']', p + 46) - (p + 46));
  if ((p = msg.find("Argument [")) != std::string::npos && msg.find("wrong runtime type") != std::string::npos)
    return "type" + msg.substr(p + 10, msg.find(']', p + 10) - (p + 10));
  return "other:" + msg.substr(0, 60);
}

static int hostCell[4];

static std::string runValidate(const occa::lang::kernelMetadata_t &m, bool tv, const std::vector<harg> &args) {
  occa::json props;
  props["type_validation"] = tv;
  testKernel *tk = new testKernel(dev.getModeDevice(), props);
  tk->metadata = m;
  tk->dontUseRefs();
  std::string res;
  {
    occa::kernel k(tk);
    k.setRunDims(occa::dim(1, 1, 1), occa::dim(1, 1, 1));
    try {
      for (size_t i = 0; i < args.size(); ++i) {
        const harg &a = args[i];
        if (a.kind == A_MEM) {
          const dtype_t &md = memDtype(a.d);
          occa::memory &mem = memories[&md];
          if (!mem.isInitialized()) { mem = dev.malloc(64); mem.setDtype(md); }
          k.pushArg(mem);
        } else if (a.kind == A_NULL) {
          if (a.sc == 'u') k.pushArg(occa::memory()); else k.pushArg(occa::null);
        } else if (a.kind == A_SCALAR) {
          if (a.sc == 'd') k.pushArg(1.5); else k.pushArg((int) 7);
        } else {
          k.pushArg((void*) hostCell);
        }
      }
      const int before = tk->runs;
      k.run();
      res = (tk->runs == before + 1) ? "ok" : "norun";
    } catch (occa::exception &e) {
      res = classify(e.message);
    }
  }
  delete tk;
  return res;
}

// declarative recomputation of the decision from the metadata (model independent)
static std::string specValidate(const occa::lang::kernelMetadata_t &m, bool tv, const std::vector<harg> &args) {
  if (!m.initialized || !tv) return "ok";
  if (args.size() != m.arguments.size()) return "count";
  for (size_t i = 0; i < args.size(); ++i) {
    const bool isPtr = (args[i].kind == A_MEM || args[i].kind == A_NULL);
    std::ostringstream n; n << (i + 1);
    if (isPtr != m.arguments[i].isPtr) return (m.arguments[i].isPtr ? "mem" : "nonmem") + n.str();
    if (args[i].kind == A_MEM && !castSpec(*args[i].d, m.arguments[i].dtype)) return "type" + n.str();
  }
  return "ok";
}

static void reset() {
  memories.clear();
  for (size_t i = 0; i < slots.size(); ++i) delete slots[i];
  slots.clear();
  for (size_t i = 0; i < registeredCopies.size(); ++i) delete registeredCopies[i];
  registeredCopies.clear();
  rtPairs.clear();
  meta = occa::lang::kernelMetadata_t();
  metaRT = occa::lang::kernelMetadata_t();
  haveRT = false;
}

// `k` groups `hexfield slot tsize` applied with addField to *d
static bool addFields(dtype_t &d, const toks_t &t, size_t from, bool &bad) {
  bad = false;
  if ((t.size() - from) % 3) { bad = true; return false; }
  for (size_t i = from; i < t.size(); i += 3) {
    std::string f; long ts; dtype_t *s = slot(t[i + 1]);
    if (!hx(t[i], f) || !s || !toInt(t[i + 2], ts)) { bad = true; return false; }
    d.addField(f, *s, (int) ts);     // may throw
  }
  return true;
}

static std::string step(const toks_t &t) {
  if (t.empty()) return "bad-op";
  const std::string &op = t[0];
  std::string name;
  long v;
  try {
    if (op == "B" && t.size() == 2) {
      return push(new dtype_t(dtype_t::getBuiltin(t[1])));
    }
    if (op == "C" && t.size() == 4 && hx(t[1], name) && toInt(t[2], v)) {
      dtype_t *d = new dtype_t(name, (int) v);
      if (t[3] == "1") d->registerType();
      return push(d);
    }
    if (op == "E" && t.size() >= 4 && hx(t[1], name) && toInt(t[2], v)) {
      dtype_t *d = new dtype_t(name, (int) v);
      try {
        for (size_t i = 4; i < t.size(); ++i) {
          std::string e; if (!hx(t[i], e)) { delete d; return "bad-op"; }
          d->addEnumerator(e);
        }
      } catch (occa::exception &e) { delete d; return "err"; }
      return push(d);
    }
    if (op == "T" && t.size() == 3 && slot(t[1]) && toInt(t[2], v)) {
      return push(new dtype_t(dtype_t::tuple(*slot(t[1]), (int) v)));
    }
    if ((op == "S" || op == "U") && t.size() >= 3 && hx(t[1], name)) {
      dtype_t *d;
      if (op == "S") {
        d = new dtype_t(name);
      } else {
        // the only way to obtain a union dtype: read an empty one from JSON
        std::string js = "{\"type\":\"union\",";
        if (name.size()) js += "\"name\":\"" + name + "\",";
        js += "\"fields\":[]}";
        d = new dtype_t(dtype_t::fromJson(js));
      }
      bool bad = false;
      try {
        if (!addFields(*d, t, 3, bad)) { delete d; return "bad-op"; }
      } catch (occa::exception &e) { delete d; return bad ? "bad-op" : "err"; }
      return push(d);
    }
    if (op == "Y" && t.size() == 2 && slot(t[1])) {
      return push(new dtype_t(*slot(t[1])));
    }
    if (op == "J" && t.size() == 3 && slot(t[1]) && hx(t[2], name)) {
      return jtext(slot(t[1])->toJson(name));
    }
    if (op == "R" && t.size() == 3 && slot(t[1]) && hx(t[2], name)) {
      dtype_t *o = slot(t[1]);
      const occa::json j = o->toJson(name);
      const std::string text = j.toString();
      dtype_t *r;
      try {
        r = new dtype_t(dtype_t::fromJson(text));
      } catch (occa::exception &e) {
        hp::oracle("fromJson(toJson(d)) throws");
        return "err";
      }
      // oracles: equivalent value (kind, field names and order, element types, leaf names, bytes) ...
      if (desc(*o, false) != desc(*r, false))
        hp::oracle("round-tripped dtype is not equivalent: " + desc(*o, false) + " -> " + desc(*r, false));
      if (o->bytes() != r->bytes())
        hp::oracle("round-tripped bytes() differs");
      // ... the name given to toJson is the name read back (enum/struct/tuple/union)
      {
        const dtype_t &os = o->self();
        const bool composite = os.enum_ || os.struct_ || os.tuple_ || os.union_;
        if (composite && r->name() != name) hp::oracle("round-tripped name() is not the name given to toJson");
        if (!composite && r->name() != o->name()) hp::oracle("round-tripped leaf name() differs");
      }
      // ... serialises to the same JSON again
      if (jtext(r->toJson(name)) != jtext(j)) hp::oracle("toJson(fromJson(toJson(d))) != toJson(d)");
      // ... and casts to/from its original
      if (!o->canBeCastedTo(*r) || !r->canBeCastedTo(*o)) hp::oracle("a dtype cannot be cast to/from its own round trip");
      slots.push_back(r);
      rtPairs.push_back(std::make_pair((int) (std::find(slots.begin(), slots.end(), o) - slots.begin()), (int) slots.size() - 1));
      return desc(*r);
    }
    if (op == "F" && t.size() == 2) {
      occa::json j; size_t p = 0;
      if (!jparse(t[1], p, j) || p != t[1].size()) return "bad-op";
      dtype_t *r;
      try { r = new dtype_t(dtype_t::fromJson(j)); } catch (occa::exception &e) { return "err"; }
      // what was accepted must survive a second trip unchanged
      try {
        dtype_t r2 = dtype_t::fromJson(r->toJson(r->name()).toString());
        if (desc(r2, false) != desc(*r, false) || r2.name() != r->name())
          hp::oracle("accepted JSON does not round-trip: " + desc(*r) + " -> " + desc(r2));
      } catch (occa::exception &e) { hp::oracle("accepted JSON: second fromJson throws"); }
      return push(r);
    }
    if (op == "X" && t.size() == 3 && slot(t[1]) && slot(t[2])) {
      const bool c = slot(t[1])->canBeCastedTo(*slot(t[2]));
      if (c != castSpec(*slot(t[1]), *slot(t[2]))) hp::oracle("canBeCastedTo differs from the repetition rule");
      return c ? "1" : "0";
    }
    if (op == "M" && t.size() == 1) {
      const size_t n = slots.size();
      std::vector<std::string> rows(n);
      for (size_t i = 0; i < n; ++i)
        for (size_t j = 0; j < n; ++j) rows[i] += castStr(*slots[i], *slots[j]);
      bool specOk = true;
      for (size_t i = 0; i < n && specOk; ++i)
        for (size_t j = 0; j < n; ++j)
          if ((rows[i][j] == '1') != castSpec(*slots[i], *slots[j])) {
            std::ostringstream ss; ss << "canBeCastedTo(" << desc(*slots[i], false) << ", " << desc(*slots[j], false) << ") = " << rows[i][j] << " differs from the repetition rule";
            hp::oracle(ss.str()); specOk = false; break;
          }
      // cast relation unchanged by the round trip: (o1,o2) vs (r1,r2), (r1,o2), (o1,r2); o vs any other slot too
      bool inv = true;
      for (size_t a = 0; a < rtPairs.size() && inv; ++a) {
        const int o1 = rtPairs[a].first, r1 = rtPairs[a].second;
        for (size_t x = 0; x < n && inv; ++x) {
          if (rows[o1][x] != rows[r1][x] || rows[x][o1] != rows[x][r1]) {
            std::ostringstream ss; ss << "cast relation changed by the round trip: " << desc(*slots[o1], false) << " vs " << desc(*slots[x], false)
                                      << " orig " << rows[o1][x] << rows[x][o1] << " round-tripped " << rows[r1][x] << rows[x][r1];
            hp::oracle(ss.str()); inv = false;
          }
        }
      }
      std::string out = "M ";
      for (size_t i = 0; i < n; ++i) out += (i ? "/" : "") + rows[i];
      return out;
    }
    if (op == "KN" && t.size() == 2 && hx(t[1], name)) { meta.name = name; return "ok"; }
    if (op == "KI" && t.size() == 2) { meta.initialized = (t[1] == "1"); return "ok"; }
    if (op == "KA" && t.size() == 5 && slot(t[3]) && hx(t[4], name)) {
      meta += occa::lang::argMetadata_t(t[1] == "1", t[2] == "1", *slot(t[3]), name);
      return "ok";
    }
    if (op == "KJ" && t.size() == 1) return jtext(meta.toJson());
    if (op == "KD" && t.size() == 1) return descMeta(meta);
    if (op == "KR" && t.size() == 1) {
      const occa::json j = meta.toJson();
      const std::string text = j.toString();
      try {
        metaRT = occa::lang::kernelMetadata_t::fromJson(occa::json::parse(text));
      } catch (occa::exception &e) {
        hp::oracle("kernelMetadata_t::fromJson(toJson(m)) throws");
        return "err";
      }
      haveRT = true;
      // equivalence up to the initialized flag (fromJson always sets it) and own names of composites
      occa::lang::kernelMetadata_t a = meta; a.initialized = true;
      if (descMeta(a, false) != descMeta(metaRT, false))
        hp::oracle("round-tripped kernel metadata is not equivalent: " + descMeta(a, false) + " -> " + descMeta(metaRT, false));
      if (jtext(metaRT.toJson()) != jtext(j)) hp::oracle("metadata JSON changes on a second trip");
      return descMeta(metaRT);
    }
    if (op == "V" && t.size() >= 2) {
      std::vector<harg> args;
      for (size_t i = 2; i < t.size(); ++i) {
        harg a; a.d = NULL; a.sc = t[i][0];
        if (t[i] == "z" || t[i] == "u") a.kind = A_NULL;
        else if (t[i] == "s" || t[i] == "d") a.kind = A_SCALAR;
        else if (t[i] == "h") a.kind = A_HOST;
        else if (t[i][0] == 'm' && slot(t[i].substr(1))) { a.kind = A_MEM; a.d = slot(t[i].substr(1)); }
        else return "bad-op";
        args.push_back(a);
      }
      const bool tv = (t[1] == "1");
      const std::string r1 = runValidate(meta, tv, args);
      const std::string r2 = haveRT ? runValidate(metaRT, tv, args) : std::string("-");
      if (r1 != specValidate(meta, tv, args))
        hp::oracle("validation decision " + r1 + " differs from the declarative rule " + specValidate(meta, tv, args));
      if (haveRT && meta.initialized && r1 != r2)
        hp::oracle("fresh and cached decisions differ: " + r1 + " vs " + r2);
      return r1 + " " + r2;
    }
  } catch (occa::exception &e) {
    return "err";
  }
  return "bad-op";
}

int main() {
  dev = occa::device({{"mode", "Serial"}});
  const int rc = hp::run(reset, step);
  reset();
  return rc;
}
