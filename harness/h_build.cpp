// C08/C09 harness: ONE process that builds and runs kernels through the real occa pipeline
// (device::buildKernel / buildKernelFromString -> io::stageFile(s), io::cacheFile, sys::call(compiler),
// dlopen) against the cache directory given by $OCCA_CACHE_DIR and prints what the kernels computed.
//
//   h_build <Serial|OpenMP> [--barrier FILE] [--delay-us N] [--silent] SPEC...
//   SPEC = s:<C>          kernel built from a string,  computes b[i] = a[i]*C + i
//          f:<C>:<path>   kernel built from the file <path> (written by the caller; same kernel text)
//          x:<C>          string kernel whose OKL does not parse (exercises the failed-build path)
//
// Output: one line per SPEC   `K <spec-index> <C> n=<n> sum=<sum of b> bad=<# of i with b[i] != a[i]*C+i>`
// (the oracle `bad=0` is evaluated here, element by element, against the definition of the kernel -
// no model involved; the caller additionally compares `sum` with its own closed form), then `DONE`.
// An occa::exception or any other failure prints `EXC <first line>` and exits with status 3.
//
// The plugin runs this program under `strace` (trace recording, kill injection) and in concurrent batches.
#include <occa.hpp>
#include <cstdio>
#include <cstdlib>
#include <cstring>
#include <iostream>
#include <sstream>
#include <string>
#include <vector>
#include <sys/stat.h>
#include <unistd.h>

static std::string kernelSource(long C) {
  std::ostringstream ss;
  ss << "@kernel void verifK(const int n, const int *a, int *b) {\n"
     << "  for (int i = 0; i < n; ++i; @tile(8, @outer, @inner)) {\n"
     << "    b[i] = a[i] * " << C << " + i;\n"
     << "  }\n"
     << "}\n";
  return ss.str();
}

int main(int argc, char **argv) {
  if (argc < 3) { std::fprintf(stderr, "usage: h_build MODE [--barrier F] [--delay-us N] SPEC...\n"); return 2; }
  std::string mode = argv[1];
  std::string barrier;
  long delayUs = 0;
  bool silent = false;
  std::vector<std::string> specs;
  for (int i = 2; i < argc; ++i) {
    std::string a = argv[i];
    if (a == "--barrier" && i + 1 < argc) barrier = argv[++i];
    else if (a == "--delay-us" && i + 1 < argc) delayUs = std::atol(argv[++i]);
    else if (a == "--silent") silent = true;
    else specs.push_back(a);
  }
  try {
    occa::device dev("{mode: '" + mode + "'}");
    if (barrier.size()) {
      std::cout << "READY" << std::endl;
      struct stat st;
      while (::stat(barrier.c_str(), &st) != 0) ::usleep(200);
    }
    if (delayUs > 0) ::usleep((useconds_t) delayUs);
    const int n = 37;
    std::vector<int> a(n), b(n);
    for (int i = 0; i < n; ++i) a[i] = 3 * i - 11;
    for (size_t k = 0; k < specs.size(); ++k) {
      const std::string &sp = specs[k];
      if (sp.size() < 3 || sp[1] != ':') { std::cout << "EXC bad spec " << sp << std::endl; return 2; }
      const char kind = sp[0];
      std::string rest = sp.substr(2);
      std::string path;
      size_t colon = rest.find(':');
      if (colon != std::string::npos) { path = rest.substr(colon + 1); rest = rest.substr(0, colon); }
      const long C = std::atol(rest.c_str());
      occa::json props;
      if (silent) props["silent"] = true;
      occa::kernel kern;
      if (kind == 's') kern = dev.buildKernelFromString(kernelSource(C), "verifK", props);
      else if (kind == 'x') kern = dev.buildKernelFromString("@kernel void verifK(const int n { " + std::to_string(C), "verifK", props);
      else if (kind == 'f') kern = dev.buildKernel(path, "verifK", props);
      else { std::cout << "EXC bad spec " << sp << std::endl; return 2; }
      if (!kern.isInitialized()) { std::cout << "K " << k << " " << C << " uninitialized" << std::endl; continue; }
      occa::memory oa = dev.malloc<int>(n, a.data());
      occa::memory ob = dev.malloc<int>(n);
      for (int i = 0; i < n; ++i) b[i] = -777;
      ob.copyFrom(b.data());
      kern(n, oa, ob);
      dev.finish();
      ob.copyTo(b.data());
      long sum = 0; int bad = 0;
      for (int i = 0; i < n; ++i) { sum += b[i]; if ((long) b[i] != (long) a[i] * C + i) ++bad; }
      std::cout << "K " << k << " " << C << " n=" << n << " sum=" << sum << " bad=" << bad << std::endl;
    }
    std::cout << "DONE" << std::endl;
  } catch (occa::exception &e) {
    std::string m = e.message;
    for (char &c : m) if (c == '\n') c = ' ';
    std::cout << "EXC " << m.substr(0, 300) << std::endl;
    return 3;
  } catch (std::exception &e) {
    std::cout << "EXC std " << e.what() << std::endl;
    return 3;
  }
  return 0;
}
