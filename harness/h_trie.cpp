// C28 correspondence harness: drives the real occa::trie<int> with the operations of the line
// protocol (see lean/Driver/Trie.lean) and evaluates the property's own oracle: a std::map of the
// stored keys, from which the longest stored prefix of every query is recomputed.
//
// ops (keys are hex byte strings, "-" = the empty key):
//   auto B | add K V | rm K | rmc K | freeze | defrost | clear | copy | chk ALPHABET MAXLEN
// observation of a mutating op: "fz=<isFrozen> n=<size()> e=<isEmpty()> hc=<has(char) for a,b,c,d>"
// observation of chk: for every query q over ALPHABET up to MAXLEN (parents before children) the
// record  getLongest(q) / get(q) / has(q.c_str()) has(std::string q)  is computed on the current
// (frozen or unfrozen) representation; records that differ from what q's parent implies
// (same getLongest answer, get fails, has false) are printed — this is lossless and short.
#include <occa/internal/utils/trie.hpp>
#include <occa/utils/exception.hpp>
#include <map>
#include "hproto.hpp"

typedef occa::trie<int> trie_t;
static trie_t *T = NULL;
static std::map<std::string, int> ref;   // the oracle: stored keys and their latest values
static const std::string probeChars = "abcd";

struct rec_t {
  int len, val;        // getLongest: length and value (len = -1: no match)
  int gval; bool g;    // get
  char h1, h2;         // has(const char*), has(std::string): '1' '0' 'E'(exception)
  bool same(const rec_t &o) const {
    return len == o.len && val == o.val && g == o.g && gval == o.gval && h1 == o.h1 && h2 == o.h2;
  }
};

static int nOracle = 0;
static void oracle(const std::string &msg) {
  if (++nOracle <= 4) hp::oracle(msg);
}

static std::string show(const std::string &q) { return q.empty() ? "\"\"" : q; }

// value of a result, with the index checked against the values vector first
static bool valueOf(const trie_t::result_t &r, int &v, const std::string &q, const char *what) {
  if (!r.success()) return false;
  if (r.valueIndex >= (int) T->values.size()) {
    oracle(std::string(what) + "(" + show(q) + ") returns value index " + std::to_string(r.valueIndex) +
           " but only " + std::to_string(T->values.size()) + " values are stored");
    v = -777;
    return true;
  }
  v = T->values[r.valueIndex];
  return true;
}

static rec_t observe(const std::string &q) {
  rec_t r;
  trie_t::result_t a = T->getLongest(q);
  int v = 0;
  if (valueOf(a, v, q, "getLongest")) { r.len = a.length; r.val = v; } else { r.len = -1; r.val = 0; }
  // the C-string entry point (length INT_MAX, the one the tokenizer uses) must agree when q has no NUL
  if (q.find('\0') == std::string::npos) {
    trie_t::result_t a2 = T->getLongest(q.c_str());
    if (a2.success() != a.success() || (a.success() && (a2.length != a.length || a2.valueIndex != a.valueIndex)))
      oracle("getLongest(const char*) and getLongest(std::string) differ on " + show(q));
  }
  trie_t::result_t g = T->get(q);
  r.g = valueOf(g, v, q, "get"); r.gval = r.g ? v : 0;
  if (r.g && g.length != (int) q.size()) oracle("get(" + show(q) + ") succeeds with a different length");
  r.h1 = T->has(q.c_str()) ? '1' : '0';
  try { r.h2 = T->has(q) ? '1' : '0'; } catch (occa::exception &e) { r.h2 = 'E'; }
  return r;
}

// the property, evaluated against the std::map: longest stored prefix, get/has exactly for stored keys
static void judge(const std::string &q, const rec_t &r) {
  int elen = -1, eval = 0;
  for (int n = (int) q.size(); n >= 0; --n) {
    std::map<std::string, int>::const_iterator it = ref.find(q.substr(0, n));
    if (it != ref.end()) { elen = n; eval = it->second; break; }
  }
  const char *fz = T->isFrozen ? "frozen" : "unfrozen";
  if (r.len != elen || (elen >= 0 && r.val != eval)) {
    std::ostringstream ss;
    ss << "getLongest(" << show(q) << ") " << fz << " = ";
    if (r.len < 0) ss << "none"; else ss << "(length " << r.len << ", value " << r.val << ")";
    ss << " but the longest stored prefix is ";
    if (elen < 0) ss << "none"; else ss << "(length " << elen << ", value " << eval << ")";
    oracle(ss.str());
  }
  const bool stored = (elen == (int) q.size());
  if (r.g != stored || (stored && r.gval != eval))
    oracle(std::string("get(") + show(q) + ") " + fz + (r.g ? " succeeds" : " fails") + " but the key is " +
           (stored ? "stored" : "not stored") + (stored && r.g ? " with another value" : ""));
  if ((r.h1 == '1') != stored)
    oracle(std::string("has(const char* ") + show(q) + ") " + fz + " is " + r.h1 + " but the key is " + (stored ? "stored" : "not stored"));
  // has(std::string) refuses the empty string by an explicit OCCA_ERROR; otherwise as above
  if (q.empty() ? (r.h2 != 'E') : ((r.h2 == '1') != stored))
    oracle(std::string("has(std::string ") + show(q) + ") " + fz + " is " + r.h2 + " but the key is " + (stored ? "stored" : "not stored"));
}

static std::string showRec(const std::string &q, const rec_t &r) {
  std::ostringstream ss;
  ss << (q.empty() ? "-" : hp::hex(q)) << "=";
  if (r.len < 0) ss << "x"; else ss << r.len << ":" << r.val;
  ss << "/";
  if (r.g) ss << r.gval;
  ss << "/" << r.h1 << r.h2;
  return ss.str();
}

static void walk(const std::string &q, const rec_t &parent, bool isRoot, const std::string &alpha, int maxLen,
                 std::string &out) {
  rec_t r = observe(q);
  judge(q, r);
  rec_t inh = parent; inh.g = false; inh.gval = 0; inh.h1 = '0'; inh.h2 = '0';
  if (isRoot || !r.same(inh)) { if (!out.empty()) out += ' '; out += showRec(q, r); }
  if ((int) q.size() >= maxLen) return;
  for (size_t i = 0; i < alpha.size(); ++i) walk(q + alpha[i], r, false, alpha, maxLen, out);
}

static std::string summary() {
  std::ostringstream ss;
  ss << "fz=" << (T->isFrozen ? 1 : 0) << " n=" << T->size() << " e=" << (T->isEmpty() ? 1 : 0) << " hc=";
  for (size_t i = 0; i < probeChars.size(); ++i) {
    const char c = probeChars[i];
    const bool h = T->has(c);
    ss << (h ? 1 : 0);
    bool expect = false;
    for (std::map<std::string, int>::const_iterator it = ref.begin(); it != ref.end(); ++it)
      if (!it->first.empty() && it->first[0] == c) expect = true;
    if (h != expect)
      oracle(std::string("has('") + c + "') " + (T->isFrozen ? "frozen" : "unfrozen") + " is " + (h ? "true" : "false") +
             " but " + (expect ? "a" : "no") + " stored key starts with it");
  }
  if (T->size() != (int) ref.size())
    oracle("size() " + std::string(T->isFrozen ? "frozen" : "unfrozen") + " = " + std::to_string(T->size()) +
           " but " + std::to_string(ref.size()) + " keys are stored");
  if ((int) T->values.size() != (int) ref.size())
    oracle("values vector holds " + std::to_string(T->values.size()) + " entries but " + std::to_string(ref.size()) + " keys are stored");
  bool nonEmptyKey = false;
  for (std::map<std::string, int>::const_iterator it = ref.begin(); it != ref.end(); ++it) if (!it->first.empty()) nonEmptyKey = true;
  if (T->isEmpty() == nonEmptyKey)
    oracle(std::string("isEmpty() is ") + (T->isEmpty() ? "true" : "false") + " but " + (nonEmptyKey ? "a" : "no") + " non-empty key is stored");
  return ss.str();
}

int main() {
  return hp::run(
    []() { delete T; T = new trie_t(); ref.clear(); nOracle = 0; },
    [](const std::vector<std::string> &t) -> std::string {
      if (t.empty()) return "bad-op";
      std::string k;
      if (t[0] == "auto" && t.size() == 2) { T->autoFreeze = (t[1] == "1"); return summary(); }
      if (t[0] == "add" && t.size() == 3 && hp::unhex(t[1], k)) {
        const int v = std::atoi(t[2].c_str());
        if (k.find('\0') != std::string::npos) return "bad-op";
        T->add(k, v); ref[k] = v;
        return summary();
      }
      if ((t[0] == "rm" || t[0] == "rmc") && t.size() == 2 && hp::unhex(t[1], k)) {
        if (k.find('\0') != std::string::npos) return "bad-op";
        if (t[0] == "rm") T->remove(k); else T->remove(k.c_str());
        ref.erase(k);
        return summary();
      }
      if (t[0] == "freeze" && t.size() == 1) { T->freeze(); return summary(); }
      if (t[0] == "defrost" && t.size() == 1) { T->defrost(); return summary(); }
      if (t[0] == "clear" && t.size() == 1) { T->clear(); ref.clear(); return summary(); }
      if (t[0] == "copy" && t.size() == 1) {
        trie_t *n = new trie_t(*T);   // copying freezes the source
        std::string a = summary();
        delete T; T = n;
        std::string b = summary();
        if (a != b) oracle("a copy of the trie answers differently from its source");
        return b;
      }
      if (t[0] == "chk" && t.size() == 3 && hp::unhex(t[1], k)) {
        const int maxLen = std::atoi(t[2].c_str());
        if (maxLen < 0 || maxLen > 8 || k.size() > 6) return "bad-op";
        std::string out;
        rec_t none; none.len = -1; none.val = 0; none.g = false; none.gval = 0; none.h1 = '0'; none.h2 = '0';
        walk("", none, true, k, maxLen, out);
        return out;
      }
      return "bad-op";
    });
}
