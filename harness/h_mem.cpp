// C02 correspondence harness: drives the real occa::memory / occa::device code of the host
// backends (Serial, OpenMP) with the operations of the line protocol (see lean/Driver/Mem.lean)
// and evaluates the property's own, model-independent oracles against a reference byte-array
// shadow kept here (NOT the Lean model):
//   O1  every byte readable through a live handle (directly and through copyTo) equals the shadow
//   O2  a slice / offset / cast lies inside the handle it was taken from (real pointers compared)
//   O3  a negative / out-of-range / uninitialised-operand request raises occa::exception
//   O4  a request that is none of these does not raise
//   O5  after an exception nothing changed (every handle: init flag, size, dtype, pointer, bytes)
//   O6  no crash: requests of a risky shape (one-sided uninitialised copy, overlapping copy) are first
//       tried in a forked child, until that shape has survived twice in this process (a fork of an
//       ASan process costs ~0.1-0.3 s); a shape that crashed once is always tried in a child
//   O7  clones and fresh allocations do not overlap anything that is live; wrap returns the array
#include <occa.hpp>
#include <occa/internal/core/memory.hpp>
#include <sys/wait.h>
#include <unistd.h>
#include <fcntl.h>
#include <functional>
#include <memory>
#include "hproto.hpp"

static const int NV = 8;             // handle variables
static const int HOSTSZ = 256;       // the two caller-owned arrays that `wrap` wraps
static occa::device devS, devO, dev;
static occa::memory vars[NV];
static char *hostArr[2] = {NULL, NULL};
static bool quietF05 = false;        // H_MEM_F05=quiet: do not report the known finding F05

// ---------------------------------------------------------------- reference shadow
struct SBuf { std::vector<int> b; const char *base; };   // -1: indeterminate byte
struct SView { bool init; int buf; long off, size; int esz; int mid; };
static std::vector<SBuf> sbufs;
static SView sv[NV];
static int nextMid = 0;

static const occa::dtype_t* dtypeOf(long e) {
  switch (e) {
    case 0: return &occa::dtype::void_;      // a registered dtype of zero bytes
    case 1: return &occa::dtype::byte;
    case 2: return &occa::dtype::short_;
    case 4: return &occa::dtype::int_;
    case 8: return &occa::dtype::double_;
    case 12: return &occa::dtype::float3;
  }
  return NULL;
}

static std::string errClass(const occa::exception &ex) {
  const std::string &m = ex.message;
  if (m.find("not initialized") != std::string::npos) return "err:uninit";
  if (m.find("Trying to allocate negative") != std::string::npos) return "err:negsize";
  if (m.find("with negative bytes") != std::string::npos) return "err:negsize";
  if (m.find("negative offset") != std::string::npos) return "err:negoff";
  if (m.find("Memory size is less than offset + count") != std::string::npos) return "err:range";
  if (m.find("Source memory has size") != std::string::npos) return "err:srcrange";
  if (m.find("Destination memory has size") != std::string::npos) return "err:dstrange";
  return "err:other";
}

static std::string info(int v) {
  if (!vars[v].isInitialized()) return "u";
  std::ostringstream ss;
  ss << "i " << vars[v].byte_size() << " " << vars[v].dtype().bytes();
  return ss.str();
}

static void resetAll() {
  for (int i = 0; i < NV; ++i) { vars[i] = occa::memory(); sv[i] = SView{false, 0, 0, 0, 1, -1}; }
  for (int k = 0; k < 2; ++k) {
    if (!hostArr[k]) hostArr[k] = new char[HOSTSZ];
    memset(hostArr[k], 0, HOSTSZ);
  }
  sbufs.clear();
  for (int k = 0; k < 2; ++k) sbufs.push_back(SBuf{std::vector<int>(HOSTSZ, 0), hostArr[k]});
  nextMid = 0;
  dev = devS;
}

// shadow view of a new root allocation / wrapped array, resynchronised with the real object
static void shadowAdopt(int v, int buf, long off, long size, int esz) {
  sv[v] = SView{true, buf, off, size, esz, nextMid++};
}

// O1/O5 sweep: every live handle agrees with the shadow
static void sweep(const char *when) {
  for (int i = 0; i < NV; ++i) {
    bool ri = vars[i].isInitialized();
    if (ri != sv[i].init) {
      hp::oracle(std::string(when) + ": handle " + std::to_string(i) + (ri ? " is initialised" : " is uninitialised") + " but the reference says otherwise");
      continue;
    }
    if (!ri) continue;
    const SView &s = sv[i];
    if ((long) vars[i].byte_size() != s.size || vars[i].dtype().bytes() != s.esz) {
      hp::oracle(std::string(when) + ": handle " + std::to_string(i) + " has size/dtype " + info(i) + ", reference " +
                 std::to_string(s.size) + " " + std::to_string(s.esz));
      continue;
    }
    const SBuf &b = sbufs[s.buf];
    const char *p = vars[i].ptr<char>();
    if (p != b.base + s.off) {
      hp::oracle(std::string(when) + ": handle " + std::to_string(i) + " points " + std::to_string((long) (p - b.base)) +
                 " bytes into its buffer, reference " + std::to_string(s.off));
      continue;
    }
    if (s.off < 0 || s.off + s.size > (long) b.b.size()) continue;   // reported by O2 already; do not touch it
    for (long k = 0; k < s.size; ++k) {
      int want = b.b[s.off + k];
      if (want >= 0 && (unsigned char) p[k] != want) {
        hp::oracle(std::string(when) + ": handle " + std::to_string(i) + " byte " + std::to_string(k) + " reads " +
                   std::to_string((unsigned char) p[k]) + ", reference byte array has " + std::to_string(want));
        break;
      }
    }
  }
  for (int k = 0; k < 2; ++k)
    for (int j = 0; j < HOSTSZ; ++j)
      if (sbufs[k].b[j] >= 0 && (unsigned char) hostArr[k][j] != sbufs[k].b[j]) {
        hp::oracle(std::string(when) + ": host array " + std::to_string(k) + " byte " + std::to_string(j) + " differs from the reference");
        break;
      }
}

// O6: run `f` in a forked child; returns "" if it survived, else a description of the crash
static std::string probe(const std::function<void()> &f) {
  fflush(stdout); std::cout.flush();
  int fd[2];
  if (pipe(fd) != 0) return "";
  pid_t pid = fork();
  if (pid < 0) { close(fd[0]); close(fd[1]); return ""; }
  if (pid == 0) {
    close(fd[0]);
    dup2(fd[1], 2);
    int nul = open("/dev/null", O_WRONLY);
    if (nul >= 0) dup2(nul, 1);
    try { f(); } catch (occa::exception &) { _exit(3); } catch (...) { _exit(4); }
    _exit(0);
  }
  close(fd[1]);
  std::string err; char buf[4096]; ssize_t n;
  while ((n = read(fd[0], buf, sizeof buf)) > 0) if (err.size() < 65536) err.append(buf, n);
  close(fd[0]);
  int st = 0;
  waitpid(pid, &st, 0);
  if (WIFEXITED(st) && (WEXITSTATUS(st) == 0 || WEXITSTATUS(st) == 3)) {
    // UBSan with halt_on_error=0 only prints
    size_t p = err.find("runtime error:");
    if (p != std::string::npos) return "undefined behaviour: " + err.substr(p, err.find('\n', p) - p);
    return "";
  }
  std::string what = WIFSIGNALED(st) ? "signal " + std::to_string(WTERMSIG(st)) : "exit " + std::to_string(WEXITSTATUS(st));
  size_t p = err.find("runtime error:");
  if (p == std::string::npos) p = err.find("AddressSanitizer");
  if (p != std::string::npos) what += ": " + err.substr(p, std::min<size_t>(err.find('\n', p) - p, 160));
  return what;
}

static bool num(const std::string &s, long &out) {
  if (s.empty()) return false;
  char *e = NULL;
  out = std::strtol(s.c_str(), &e, 10);
  return e && *e == 0;
}

struct Req {             // what the property says about a request
  bool invalid = false;  // must raise
  bool f05 = false;      // ... only because the receiver is an uninitialised handle (known finding F05)
  bool dontcare = false; // zero-byte dtype: every range addresses zero bytes, the property does not say which to reject
  std::string why;
  void bad(const std::string &w, bool f = false) { if (!invalid) { invalid = true; why = w; f05 = f; } }
};

// shadow byte, tolerant of a shadow that no longer matches (an oracle has fired by then)
static int &sb(int buf, long pos) {
  static int junk; junk = -1;
  if (buf < 0 || buf >= (int) sbufs.size() || pos < 0 || pos >= (long) sbufs[buf].b.size()) return junk;
  return sbufs[buf].b[pos];
}

static long lenOf(int v) { return (sv[v].init && sv[v].esz) ? sv[v].size / sv[v].esz : 0; }

// range rule shared by all copies: count == -1 means "all elements of the receiver"
static void copyRule(Req &r, int self, long cnt, long selfOffBytes, long otherOffBytes, long otherSize, bool haveOther,
                     long doff, long soff) {
  // (for a dtype of zero bytes every count and offset addresses zero bytes: nothing to reject)
  if (cnt < -1 && sv[self].esz) r.bad("negative count");
  if ((doff < 0 || soff < 0) && sv[self].esz) r.bad("negative offset");
  long n = (cnt == -1) ? lenOf(self) : cnt;
  long bytes = n * sv[self].esz;
  if (selfOffBytes + bytes > sv[self].size) r.bad("out of the receiver's range");
  if (haveOther && otherOffBytes + bytes > otherSize) r.bad("out of the other operand's range");
}

int main() {
  quietF05 = getenv("H_MEM_F05") && std::string(getenv("H_MEM_F05")) == "quiet";
  const bool forkAll = getenv("H_MEM_FORK") && std::string(getenv("H_MEM_FORK")) == "all";
  devS = occa::device({{"mode", "Serial"}});
  devO = occa::device({{"mode", "OpenMP"}});
  int rc = hp::run(
    []() { resetAll(); },
    [&](const std::vector<std::string> &t) -> std::string {
      if (t.empty()) return "bad-op";
      const std::string &op = t[0];
      long a[6] = {0, 0, 0, 0, 0, 0};
      std::string bytes;
      // ---- parse: numeric args, optional trailing hex
      size_t nnum = t.size() - 1;
      bool hasHex = (op == "mallocd" || op == "cfh" || op == "hw");
      if (hasHex) { if (t.size() < 2 || !hp::unhex(t.back(), bytes)) return "bad-op"; nnum--; }
      if (op == "dev") {
        if (t.size() != 2) return "bad-op";
        resetAll();
        dev = (t[1] == "O") ? devO : devS;
        return "ok";
      }
      if (nnum > 6) return "bad-op";
      for (size_t i = 0; i < nnum; ++i) if (!num(t[1 + i], a[i])) return "bad-op";
      auto isVar = [&](long v) { return v >= 0 && v < NV; };

      // ---- what to run, what the property expects, who is involved
      std::function<void()> act;
      Req req;
      int made = -1;            // handle variable assigned by the operation
      int parent = -1;          // handle the new one must lie inside (slice, plus, cast)
      bool risky = forkAll;
      int riskClass = 4;        // 0/1: cmm/ctm with one uninitialised operand, 2/3: overlapping copy up/down
      static int probeOk[5] = {0, 0, 0, 0, 0}, probeBad[5] = {0, 0, 0, 0, 0};
      std::shared_ptr<char> hostDst; long hostCap = 0; long wantBytes = -1; int readVar = -1;
      std::function<void()> shadowOk;   // shadow update when the request succeeded

      if (op == "info" && nnum == 1 && isVar(a[0])) return info((int) a[0]);
      // a handle whose dtype has zero bytes: length() used to divide by zero (F38); always tried in a child
      auto zeroDt = [&](long v) { return isVar(v) && sv[v].init && sv[v].esz == 0; };
      if (op != "asg" && op != "free" && op != "hw" && op != "hr" && op != "dev" &&
          ((nnum >= 1 && zeroDt(a[0])) || (nnum >= 2 && op != "malloc" && op != "mallocd" && op != "wrap" && op != "setdt" && zeroDt(a[1])) ||
           (op == "mallocm" && nnum == 4 && a[2] == 0)))
        risky = true;

      if ((op == "malloc" || op == "mallocd") && nnum == 3 && isVar(a[0]) && dtypeOf(a[2])) {
        int v = a[0]; long n = a[1]; long e = a[2]; bool withData = (op == "mallocd");
        if (withData && (long) bytes.size() < std::max(0L, n * e)) return "trap";   // the op line lies about its data
        if (n < 0) req.bad("negative entries");
        made = v;
        act = [=, &bytes]() {
          std::unique_ptr<char[]> src(new char[bytes.size()]);    // exactly sized: an over-read is an ASan report
          memcpy(src.get(), bytes.data(), bytes.size());
          vars[v] = withData ? dev.malloc(n, *dtypeOf(e), (const void*) src.get()) : dev.malloc(n, *dtypeOf(e));
        };
        shadowOk = [=, &bytes]() {
          if (n == 0) { sv[v] = SView{false, 0, 0, 0, 1, -1}; return; }
          SBuf b; b.base = vars[v].ptr<char>();
          b.b.assign(std::max(0L, n * e), -1);
          if (withData) for (long k = 0; k < n * e && k < (long) bytes.size(); ++k) b.b[k] = (unsigned char) bytes[k];
          sbufs.push_back(b);
          shadowAdopt(v, (int) sbufs.size() - 1, 0, n * e, (int) e);
        };
      } else if (op == "mallocm" && nnum == 4 && isVar(a[0]) && dtypeOf(a[2]) && isVar(a[3])) {
        int v = a[0]; long n = a[1]; long e = a[2]; int s = a[3];
        // an uninitialised or empty source means "no initial data" (device::malloc tests src.byte_size())
        const bool noSrc = !sv[s].init || sv[s].size == 0;
        if (n < 0) req.bad("negative entries");
        else if (!noSrc && n * e > sv[s].size) req.bad("source shorter than the allocation");
        made = v;
        act = [=]() { vars[v] = dev.malloc(n, *dtypeOf(e), vars[s]); };
        shadowOk = [=]() {
          if (n == 0) { sv[v] = SView{false, 0, 0, 0, 1, -1}; return; }
          SBuf b; b.base = vars[v].ptr<char>();
          b.b.assign(std::max(0L, n * e), -1);
          if (!noSrc) for (long k = 0; k < n * e && k < sv[s].size; ++k) b.b[k] = sb(sv[s].buf, sv[s].off + k);
          sbufs.push_back(b);
          shadowAdopt(v, (int) sbufs.size() - 1, 0, n * e, (int) e);
        };
      } else if (op == "wrap" && nnum == 4 && isVar(a[0]) && (a[1] == 0 || a[1] == 1) && dtypeOf(a[3])) {
        int v = a[0]; int hb = a[1]; long n = a[2]; long e = a[3];
        if (n * e > HOSTSZ) return "trap";                       // the caller would lie about its array
        if (n < 0) req.bad("negative entries");
        made = v;
        act = [=]() { vars[v] = dev.wrapMemory((const void*) hostArr[hb], n, *dtypeOf(e)); };
        shadowOk = [=]() {
          if (vars[v].ptr<char>() != hostArr[hb]) hp::oracle("wrapMemory: the memory does not point at the wrapped array");
          shadowAdopt(v, hb, 0, n * e, (int) e);
        };
      } else if (((op == "slice" && nnum == 4) || (op == "plus" && nnum == 3)) && isVar(a[0]) && isVar(a[1])) {
        int d = a[0], s = a[1]; long off = a[2]; long cnt = (op == "plus") ? -1 : a[3]; bool plus = (op == "plus");
        if (!sv[s].init) { req.bad("uninitialised handle", true); }
        else {
          if (off < 0) req.bad("negative offset");
          if (cnt < -1 && sv[s].esz) req.bad("negative count");
          if (sv[s].esz == 0 && off >= 0) req.dontcare = true;
          else if (cnt == -1 ? off > lenOf(s) : off + cnt > lenOf(s)) req.bad("out of the handle's range");
        }
        made = d; parent = s;
        act = [=]() { occa::memory m = plus ? (vars[s] + off) : vars[s].slice(off, cnt); vars[d] = m; };
        shadowOk = [=]() {
          if (!sv[s].init) { sv[d] = SView{false, 0, 0, 0, 1, -1}; return; }
          long n = (cnt == -1) ? lenOf(s) - off : cnt;
          SView p = sv[s];
          shadowAdopt(d, p.buf, p.off + off * p.esz, n * p.esz, p.esz);
        };
      } else if (op == "cast" && nnum == 3 && isVar(a[0]) && isVar(a[1]) && dtypeOf(a[2])) {
        int d = a[0], s = a[1]; long e = a[2];
        if (!sv[s].init) { req.bad("uninitialised handle"); }
        made = d; parent = s;
        act = [=]() { occa::memory m = vars[s].cast(*dtypeOf(e)); vars[d] = m; };
        // whole elements of the source dtype are kept (memory::cast is slice(0) + setDtype)
        shadowOk = [=]() { SView p = sv[s]; shadowAdopt(d, p.buf, p.off, lenOf(s) * p.esz, (int) e); };
      } else if (op == "setdt" && nnum == 2 && isVar(a[0]) && dtypeOf(a[1])) {
        int v = a[0]; long e = a[1];
        if (!sv[v].init) { req.bad("uninitialised handle"); }
        made = v;
        act = [=]() { vars[v].setDtype(*dtypeOf(e)); };
        shadowOk = [=]() { int mid = sv[v].mid; for (int i = 0; i < NV; ++i) if (sv[i].init && sv[i].mid == mid) sv[i].esz = (int) e; };
      } else if (op == "clone" && nnum == 2 && isVar(a[0]) && isVar(a[1])) {
        int d = a[0], s = a[1];
        if (!sv[s].init) { req.bad("uninitialised handle", true); }
        made = d;
        act = [=]() { occa::memory m = vars[s].clone(); vars[d] = m; };
        shadowOk = [=]() {
          if (!sv[s].init || !vars[d].isInitialized()) { sv[d] = SView{false, 0, 0, 0, 1, -1}; return; }
          SView p = sv[s];
          SBuf b; b.base = vars[d].ptr<char>();
          b.b.assign(std::max(0L, p.size), -1);
          for (long k = 0; k < p.size; ++k) b.b[k] = sb(p.buf, p.off + k);
          sbufs.push_back(b);
          shadowAdopt(d, (int) sbufs.size() - 1, 0, p.size, p.esz);
        };
      } else if (op == "cfh" && nnum == 3 && isVar(a[0])) {
        int v = a[0]; long cnt = a[1], off = a[2];
        if (!sv[v].init) { req.bad("uninitialised handle", true); }
        else {
          copyRule(req, v, cnt, off * sv[v].esz, 0, 0, false, off, 0);
          long n = ((cnt == -1) ? lenOf(v) : cnt) * sv[v].esz;
          if (!req.invalid && (long) bytes.size() < n) return "trap";       // the op line lies about its data
        }
        act = [=, &bytes]() {
          std::unique_ptr<char[]> src(new char[bytes.size()]);    // non-null even when empty
          memcpy(src.get(), bytes.data(), bytes.size());
          vars[v].copyFrom((const void*) src.get(), cnt, off);
        };
        shadowOk = [=, &bytes]() {
          if (!sv[v].init) return;
          long n = ((cnt == -1) ? lenOf(v) : cnt) * sv[v].esz;
          for (long k = 0; k < n && k < (long) bytes.size(); ++k) sb(sv[v].buf, sv[v].off + off * sv[v].esz + k) = (unsigned char) bytes[k];
        };
      } else if (op == "cth" && nnum == 4 && isVar(a[0]) && a[1] >= 0 && a[1] <= 65536) {
        int v = a[0]; long cap = a[1]; long cnt = a[2], off = a[3];
        if (!sv[v].init) { req.bad("uninitialised handle", true); }
        else {
          copyRule(req, v, cnt, off * sv[v].esz, 0, 0, false, off, 0);
          wantBytes = ((cnt == -1) ? lenOf(v) : cnt) * sv[v].esz;
          if (!req.invalid && cap < wantBytes) return "trap";                // destination too small
        }
        hostDst.reset(new char[cap], std::default_delete<char[]>());   // exactly sized, non-null even when empty
        memset(hostDst.get(), 0xEE, cap);
        hostCap = cap;
        readVar = v;
        act = [=]() { vars[v].copyTo((void*) hostDst.get(), cnt, off); };
        shadowOk = []() {};
      } else if ((op == "cmm" || op == "ctm") && nnum == 5 && isVar(a[0]) && isVar(a[1])) {
        // cmm d s …: vars[d].copyFrom(vars[s], …)     ctm s d …: vars[s].copyTo(vars[d], …)
        bool from = (op == "cmm");
        int d = from ? a[0] : a[1], s = from ? a[1] : a[0];
        int self = from ? d : s;
        long cnt = a[2], doff = a[3], soff = a[4];
        if (!sv[d].init || !sv[s].init) {
          risky = true; riskClass = from ? 0 : 1;
          req.bad("uninitialised operand", !sv[d].init && !sv[s].init);
        } else {
          Req r2;
          if (cnt < -1 && sv[self].esz) r2.bad("negative count");
          if ((doff < 0 && sv[d].esz) || (soff < 0 && sv[s].esz)) r2.bad("negative offset");
          long n = ((cnt == -1) ? lenOf(self) : cnt) * sv[self].esz;
          if (soff * sv[s].esz + n > sv[s].size) r2.bad("out of the source's range");
          if (doff * sv[d].esz + n > sv[d].size) r2.bad("out of the destination's range");
          req = r2;
          if (!req.invalid && n > 0 && sv[d].buf == sv[s].buf) {             // really overlapping byte ranges
            long db = sv[d].off + doff * sv[d].esz, sb = sv[s].off + soff * sv[s].esz;
            if (db < sb + n && sb < db + n && db != sb) { risky = true; riskClass = (db > sb) ? 2 : 3; }
          }
        }
        act = [=]() {
          if (from) vars[d].copyFrom(vars[s], cnt, doff, soff);
          else vars[s].copyTo(vars[d], cnt, doff, soff);
        };
        shadowOk = [=]() {
          if (!sv[d].init || !sv[s].init) return;
          long n = ((cnt == -1) ? lenOf(self) : cnt) * sv[self].esz;
          if (n < 0 || n > 65536) return;
          std::vector<int> tmp(n);
          for (long k = 0; k < n; ++k) tmp[k] = sb(sv[s].buf, sv[s].off + soff * sv[s].esz + k);
          for (long k = 0; k < n; ++k) sb(sv[d].buf, sv[d].off + doff * sv[d].esz + k) = tmp[k];
        };
      } else if (op == "asg" && nnum == 2 && isVar(a[0]) && isVar(a[1])) {
        int d = a[0], s = a[1];
        made = d;
        act = [=]() { vars[d] = vars[s]; };
        shadowOk = [=]() { sv[d] = sv[s]; };
      } else if (op == "free" && nnum == 1 && isVar(a[0])) {
        int v = a[0];
        act = [=]() { vars[v].free(); };
        shadowOk = [=]() {
          if (!sv[v].init) return;
          int mid = sv[v].mid;
          for (int i = 0; i < NV; ++i) if (sv[i].init && sv[i].mid == mid) sv[i] = SView{false, 0, 0, 0, 1, -1};
        };
      } else if (op == "hw" && nnum == 2 && (a[0] == 0 || a[0] == 1)) {
        int hb = a[0]; long off = a[1];
        if (off < 0 || off + (long) bytes.size() > HOSTSZ) return "trap";
        memcpy(hostArr[hb] + off, bytes.data(), bytes.size());
        for (size_t k = 0; k < bytes.size(); ++k) sbufs[hb].b[off + k] = (unsigned char) bytes[k];
        sweep("after a write to the wrapped host array");
        return "ok";
      } else if (op == "hr" && nnum == 3 && (a[0] == 0 || a[0] == 1)) {
        int hb = a[0]; long off = a[1], n = a[2];
        if (off < 0 || n < 0 || off + n > HOSTSZ) return "trap";
        if (n == 0) return "ok -";
        std::string shown;
        static const char *dg = "0123456789abcdef";
        for (long k = 0; k < n; ++k) {
          unsigned char got = hostArr[hb][off + k];
          if (sbufs[hb].b[off + k] < 0) shown += "??";          // indeterminate bytes were copied into the array
          else { shown.push_back(dg[got >> 4]); shown.push_back(dg[got & 15]); }
        }
        return "ok " + shown;
      } else {
        return "bad-op";
      }

      // ---- O6: risky shapes are tried in a child first
      if (risky && (forkAll || riskClass == 4 || probeBad[riskClass] > 0 || probeOk[riskClass] < 2)) {
        std::string crash = probe(act);
        if (crash.empty()) probeOk[riskClass]++; else probeBad[riskClass]++;
        if (!crash.empty()) {
          hp::oracle("crash or undefined behaviour in `" + op + "` (" + (req.invalid ? req.why : "valid request") + "): " + crash);
          return "trap";
        }
      }

      // ---- run it
      std::string out = "ok";
      bool threw = false;
      try { act(); }
      catch (occa::exception &ex) { threw = true; out = errClass(ex); }

      // ---- O3 / O4
      if (req.dontcare) { /* neither O3 nor O4 */ }
      else if (!threw && req.invalid) {
        if (!(req.f05 && quietF05))
          hp::oracle(std::string(req.f05 ? "uninitialised handle: " : "invalid request accepted: ") + "`" + op + "` (" + req.why + ") returned without raising occa::exception");
      }
      if (threw && !req.invalid && !req.dontcare)
        hp::oracle("valid request rejected: `" + op + "` raised " + out);

      if (threw) {
        sweep("after an exception");                    // O5
        return out;
      }

      // ---- O2 / O7 on the real pointers, before the shadow is touched
      if (made >= 0 && vars[made].isInitialized() && (op == "slice" || op == "plus" || op == "cast") && sv[parent].init) {
        const SView &p = sv[parent];
        const char *pb = sbufs[p.buf].base + p.off;      // the parent's range as it was before the assignment
        const char *q = vars[made].ptr<char>();
        long qs = (long) vars[made].byte_size();
        if (q < pb || q + qs > pb + p.size) {
          hp::oracle("`" + op + "` produced a view [" + std::to_string((long) (q - pb)) + ", " + std::to_string((long) (q - pb) + qs) +
                     ") outside the handle it was taken from (size " + std::to_string(p.size) + ")");
          // the history has failed; keep going on a consistent shadow without touching out-of-range bytes
          vars[made] = occa::memory();
          sv[made] = SView{false, 0, 0, 0, 1, -1};
          return out + " " + info(made);
        }
      }
      if (made >= 0 && vars[made].isInitialized() && (op == "malloc" || op == "mallocd" || op == "mallocm" || op == "clone")) {
        const char *q = vars[made].ptr<char>();
        long qs = (long) vars[made].byte_size();
        for (int i = 0; i < NV; ++i) {
          if (i == made || !sv[i].init) continue;
          const char *r = sbufs[sv[i].buf].base + sv[i].off;
          if (q < r + sv[i].size && r < q + qs)
            hp::oracle("`" + op + "`: the new allocation overlaps live handle " + std::to_string(i));
        }
      }
      // ---- copyTo: compare with the shadow before printing (O1)
      if (op == "cth") {
        int v = readVar;
        if (!sv[v].init || req.invalid) {
          for (long k = 0; k < hostCap; ++k) if (hostDst.get()[k] != (char) 0xEE) { hp::oracle("copyTo wrote to the destination although nothing should be copied"); break; }
          out = "ok";
        } else {
          long off = a[3];
          std::string shown;
          static const char *dg = "0123456789abcdef";
          for (long k = 0; k < wantBytes; ++k) {
            int want = sb(sv[v].buf, sv[v].off + off * sv[v].esz + k);
            unsigned char got = hostDst.get()[k];
            if (want < 0) { shown += "??"; continue; }
            if (got != want) hp::oracle("copyTo byte " + std::to_string(k) + " is " + std::to_string(got) + ", the reference byte array has " + std::to_string(want));
            shown.push_back(dg[got >> 4]); shown.push_back(dg[got & 15]);
          }
          for (long k = wantBytes; k < hostCap; ++k)
            if (hostDst.get()[k] != (char) 0xEE) { hp::oracle("copyTo wrote past the requested count"); break; }
          out = wantBytes ? "ok " + shown : "ok -";
        }
      }
      shadowOk();
      sweep("after a successful operation");
      if (made >= 0) out += " " + info(made);
      return out;
    });
  for (int i = 0; i < NV; ++i) vars[i] = occa::memory();
  return rc;
}
