// C24 harness: JSON dump/parse round trip on the real occa::json.
//   rt <indent> <tree>     build the value, dump it, parse the text back, compare, hash
//   parse <hex text>       json::parse(const char*&) of arbitrary text, consumed length
//   eq <treeA> <treeB>     operator==, equality of the hash text
//   show <tree>            canonical rendering of the constructed value
//   dumpt <indent> <tree>  dump only
// Model-independent oracles (the property's own statement):
//   * parse(dump(v, i)) does not throw and == v, for every value inside the property's quantifier
//     (tagged [nul-byte] / [nan-inf] / [empty-key] when the value contains the trigger of a listed finding;
//     values containing none_ nodes are outside the quantifier and only compared with the model);
//   * dumping is deterministic: same text for two dumps, for a copy, and for the same value rebuilt with
//     the object members inserted in the opposite order; equal hashes for these; hash() is the hash of
//     the indent-0 text;
//   * dump(parse(dump(v))) == dump(v), and the parse result does not depend on the indentation.
#include "jsonproto.hpp"
#include <occa/utils/hash.hpp>
using namespace jp;

static json rebuildReversed(const json &j) {
  if (j.type == json::object_) {
    json r; r.asObject();
    for (auto it = j.object().rbegin(); it != j.object().rend(); ++it) r.set(it->first, rebuildReversed(it->second));
    return r;
  }
  if (j.type == json::array_) {
    json r; r.asArray();
    for (const json &c : j.array()) r.array().push_back(rebuildReversed(c));
    return r;
  }
  return j;
}

static std::string hashS(const occa::hash_t &h) {
  std::ostringstream ss;
  for (int i = 0; i < 8; ++i) ss << (i ? "," : "") << h.h[i];
  return ss.str();
}

static std::string tag(const Traits &t) {
  std::string s;
  if (t.nul) s += " [nul-byte]";
  if (t.nanInf) s += " [nan-inf]";
  if (t.emptyKey) s += " [empty-key]";
  return s;
}

int main() {
  return hp::run(
    []() {},
    [](const toks_t &t) -> std::string {
      if (t.empty()) return "bad-op";
      try {
        if (t[0] == "rt" && t.size() >= 3) {
          int ind = std::atoi(t[1].c_str());
          json v;
          if (!readTree1(t, 2, v)) return "bad-op";
          Traits tr; traits(v, tr);
          const std::string text = v.dump(ind);
          // determinism
          if (v.dump(ind) != text) hp::oracle("two dumps of the same value differ");
          json copy = v;
          if (copy.dump(ind) != text) hp::oracle("dump of a copy differs");
          json rev = rebuildReversed(v);
          if (rev.dump(ind) != text) hp::oracle("dump depends on the insertion order of object members");
          occa::hash_t h = v.hash();
          if (copy.hash() != h || rev.hash() != h) hp::oracle("equal values have different hashes");
          if (occa::hash(v.dump(0)) != h) hp::oracle("hash() is not the hash of the indent-0 text");
          std::string status, eq = "0";
          try {
            json w = json::parse(text);
            status = "ok " + show(w);
            bool same = (w == v);
            eq = same ? "1" : "0";
            if (!tr.none) {
              if (!same) hp::oracle("parse(dump(v)) != v" + tag(tr));
              if (w.dump(ind) != text) hp::oracle("dump(parse(dump(v))) differs from dump(v)" + tag(tr));
              if (ind != 0) {
                try {
                  json w0 = json::parse(v.dump(0));
                  if (!(w0 == w)) hp::oracle("parse result depends on the indentation" + tag(tr));
                } catch (occa::exception &e) { hp::oracle("parse(dump(v, 0)) throws" + tag(tr)); }
              }
            }
          } catch (occa::exception &e) {
            status = errName(e) + " -";
            if (!tr.none) hp::oracle("parse(dump(v)) throws (" + errName(e) + ")" + tag(tr));
          }
          return hp::hex(text) + " " + status + " eq=" + eq + " h=" + hashS(h);
        }
        if (t[0] == "parse" && t.size() == 2) {
          std::string b;
          if (!hp::unhex(t[1], b)) return "bad-op";
          const char *c0 = b.c_str();
          const char *c = c0;
          json v = json::parse(c);
          return "ok " + show(v) + " used=" + std::to_string((long) (c - c0));
        }
        if (t[0] == "eq") {
          size_t i = 1; json a, b;
          if (!readTree(t, i, a) || !readTree(t, i, b) || i != t.size()) return "bad-op";
          bool e = (a == b);
          std::string ta, tb; a.dumpToString(ta); b.dumpToString(tb);
          if (show(a) == show(b)) {
            if (!e) hp::oracle("identical values are not ==");
            if (ta != tb || a.hash() != b.hash()) hp::oracle("identical values have different text or hash");
          }
          if ((ta == tb) != (a.hash() == b.hash())) hp::oracle("hash equality differs from text equality");
          return std::string("eq=") + (e ? "1" : "0") + " same=" + (ta == tb ? "1" : "0");
        }
        if (t[0] == "show" && t.size() >= 2) {
          json v; if (!readTree1(t, 1, v)) return "bad-op";
          return show(v);
        }
        if (t[0] == "dumpt" && t.size() >= 3) {
          json v; if (!readTree1(t, 2, v)) return "bad-op";
          return hp::hex(v.dump(std::atoi(t[1].c_str())));
        }
      } catch (occa::exception &e) {
        return errName(e);
      }
      return "bad-op";
    });
}
