// C17 / C18 harness: builds an OKL kernel from a loop-nest description, translates it with each
// of the seven real translators in-process and prints the lines of each translation that decide
// which iterations run (launch dimensions, iterator reconstruction, kept/tiled loop headers,
// bounds checks).  With H_LOOPS_DUMP=1 it appends ` @@SRC okl=<hex> <mode>=<hex> <mode>.launcher=<hex> ...`,
// the complete translated sources; tools/checks/loops_common.py compiles and executes those under
// an emulation of the launch model (the execution oracle).
//
//   K <id> <loop> <loop> ...      loops from outermost to innermost, each one token
//        var;attr;ityp;init;cmp;side;bound;upd;step;tile
//        attr  outer | inner | none | outer@K | inner@K          ityp int | long
//        cmp   lt le gt ge       side R (iterator on the left: `i < B`) | L (`B > i`)
//        upd   preinc postinc predec postdec addeq subeq         step  expr or -
//        tile  - | T:blockattr:innerattr:check     attrs outer|inner|none, check 1|0|d(efault)
//        init/bound/step/T are Polish expressions (loops_common.hpp)
#include "loops_common.hpp"

struct Loop {
  std::string var, attr, ityp, init, cmp, side, bound, upd, step, tile;
};

static bool dumpMode = false;

static std::string cmpText(const std::string &c) {
  if (c == "lt") return "<";
  if (c == "le") return "<=";
  if (c == "gt") return ">";
  if (c == "ge") return ">=";
  return "";
}

static std::string attrText(const std::string &a) {
  if (a == "none") return "";
  size_t at = a.find('@');
  if (at == std::string::npos) return "@" + a;
  return "@" + a.substr(0, at) + "(" + a.substr(at + 1) + ")";
}

static bool loopHeader(const Loop &l, std::string &out) {
  std::string init, bound, step, T;
  if (!lc::exprText(l.init, init) || !lc::exprText(l.bound, bound)) return false;
  std::string cmp = cmpText(l.cmp);
  if (cmp.empty() || (l.side != "R" && l.side != "L")) return false;
  std::string check = (l.side == "R") ? (l.var + " " + cmp + " " + bound) : (bound + " " + cmp + " " + l.var);
  std::string upd;
  if (l.upd == "preinc") upd = "++" + l.var;
  else if (l.upd == "postinc") upd = l.var + "++";
  else if (l.upd == "predec") upd = "--" + l.var;
  else if (l.upd == "postdec") upd = l.var + "--";
  else if (l.upd == "addeq" || l.upd == "subeq") {
    if (!lc::exprText(l.step, step)) return false;
    upd = l.var + (l.upd == "addeq" ? " += " : " -= ") + step;
  } else return false;
  std::string attrs = attrText(l.attr);
  if (l.tile != "-") {
    std::vector<std::string> f = lc::splitc(l.tile, ':');
    if (f.size() != 4 || !lc::exprText(f[0], T)) return false;
    std::string tl = "@tile(" + T;
    if (f[1] != "none" || f[2] != "none") tl += ", " + attrText(f[1]);
    if (f[2] != "none") tl += ", " + attrText(f[2]);
    if (f[3] == "1") tl += ", check=true";
    else if (f[3] == "0") tl += ", check=false";
    else if (f[3] != "d") return false;
    tl += ")";
    attrs += (attrs.empty() ? "" : " ") + tl;
  }
  out = "for (" + l.ityp + " " + l.var + " = " + init + "; " + check + "; " + upd + (attrs.empty() ? "" : "; " + attrs) + ")";
  return true;
}

static bool kernelText(const std::string &id, const std::vector<Loop> &ls, std::string &out) {
  std::string s = "@kernel void k" + id + "(const int N, const int M, const int a, const int b, const int c, const int s, const int t) {\n";
  std::string ind = "  ";
  std::string vars;
  for (const Loop &l : ls) {
    std::string h;
    if (!loopHeader(l, h)) return false;
    s += ind + h + " {\n";
    ind += "  ";
    vars += ", " + l.var;
  }
  s += ind + "rec(" + id + vars + ");\n";
  for (size_t k = 0; k < ls.size(); ++k) {
    ind = ind.substr(2);
    s += ind + "}\n";
  }
  s += "}\n";
  out = s;
  return true;
}

int main() {
  dumpMode = getenv("H_LOOPS_DUMP") != NULL;
  return hp::run(
    []() {},
    [](const std::vector<std::string> &t) -> std::string {
      if (t.size() < 3 || t[0] != "K") return "bad-op";
      std::vector<Loop> ls;
      for (size_t k = 2; k < t.size(); ++k) {
        std::vector<std::string> f = lc::splitc(t[k], ';');
        if (f.size() != 10) return "bad-op";
        Loop l{f[0], f[1], f[2], f[3], f[4], f[5], f[6], f[7], f[8], f[9]};
        ls.push_back(l);
      }
      std::string okl;
      if (!kernelText(t[1], ls, okl)) return "bad-op";
      std::string out = "ok", dump = " @@SRC okl=" + hp::hex(okl);
      for (int m = 0; m < lc::NMODES; ++m) {
        std::string mode = lc::MODES[m];
        lc::Translation tr = lc::translate(mode, okl);
        if (!tr.ok) { out += " @@ " + mode + " ERR"; continue; }
        out += " @@ " + mode + " " + lc::interesting(tr.device);
        if (m >= 2) out += " @@ " + mode + ".launcher " + lc::interesting(tr.launcher);
        if (dumpMode) {
          dump += " " + mode + "=" + hp::hex(tr.device);
          if (m >= 2) dump += " " + mode + ".launcher=" + hp::hex(tr.launcher);
        }
      }
      return dumpMode ? out + dump : out;
    });
}
