// C15 correspondence harness: drives the REAL occa tokenizer / expression parser / statement
// parser / printers and evaluates the property's own, model-independent oracle:
//
//     parse(source) = T1,  print(T1) = text,  parse(text) = T2   =>   T2 must exist and T2 == T1
//
// where trees are compared through a structural s-expression dump written here (it walks the
// node classes with dynamic_cast and never calls a printer except for type names).
//
// Line protocol (see lean/Driver/Expr.lean):
//   E tok tok ...      tokens joined by one blank -> tokenizer_t::tokenize -> expressionParser::parse
//                      (the raw expression parser: identifiers stay identifiers, no type tokens)
//   G tok tok ...      the same, but the input is not claimed to be a C expression: the re-parse
//                      oracle is off (token soup; only the correspondence with the model counts)
//   X <pct-text>       as E on an arbitrary text (percent-encoded)
//   S <pct-text>       a whole program through parser_t::parseSource (statements, declarations,
//                      casts, control flow); printed through parser.root.print
//   Q <pct-text>       escape(value,'"') / escape(value,'\'') of utils/string.cpp on a raw value
// Observation:  ok T=<sexp> P=<pct printed text> R=same | R=<sexp of the re-parse> | R=err
//               err          (the first parse failed: outside the property's quantifier)
#include <occa/internal/lang/expr.hpp>
#include <occa/internal/lang/tokenizer.hpp>
#include <occa/internal/lang/parser.hpp>
#include <occa/internal/lang/statement.hpp>
#include <occa/internal/lang/variable.hpp>
#include <occa/internal/lang/builtins/types.hpp>
#include <occa/internal/lang/builtins/attributes.hpp>
#include <occa/internal/lang/type.hpp>
#include <occa/internal/utils/string.hpp>
#include <occa/internal/io/output.hpp>
#include "hproto.hpp"
#include <unistd.h>
#include <fcntl.h>

using namespace occa;
using namespace occa::lang;

// ---------------------------------------------------------------- percent coding
static std::string pct(const std::string &s) {
  static const char *d = "0123456789abcdef";
  std::string o;
  for (unsigned char c : s) {
    if (c <= 32 || c == '%' || c >= 127) { o.push_back('%'); o.push_back(d[c >> 4]); o.push_back(d[c & 15]); }
    else o.push_back((char) c);
  }
  return o.empty() ? "%" : o;
}
static bool unpct(const std::string &s, std::string &out) {
  out.clear();
  if (s == "%") return true;
  for (size_t i = 0; i < s.size(); ++i) {
    if (s[i] != '%') { out.push_back(s[i]); continue; }
    if (i + 2 >= s.size() + 0 && i + 2 > s.size() - 0) return false;
    int a = hp::hexv(s[i + 1]), b = hp::hexv(s[i + 2]);
    if (a < 0 || b < 0) return false;
    out.push_back((char) (a * 16 + b));
    i += 2;
  }
  return true;
}

// ---------------------------------------------------------------- s-expression dump
static std::string atom(const std::string &s) { return pct(s); }

static std::string dumpType(const vartype_t &t);
static std::string shortType(const vartype_t &t) {
  return (t.type ? t.type->name() : std::string("?")) + std::string(t.pointers.size(), '*');
}

static std::string encName(int e) {
  std::string s;
  if (e & encodingType::R)  s += "R";
  if (e & encodingType::u8) s += "u8";
  else if (e & encodingType::u)  s += "u";
  if (e & encodingType::U)  s += "U";
  if (e & encodingType::L)  s += "L";
  return s.empty() ? "-" : s;
}

// `spelled`: literals by their source text (observation compared with the model);
// otherwise by type and value bits (the oracle's structural comparison)
static bool spelled = false;

static std::string dump(const exprNode *n) {
  if (!n) return "(null)";
  const udim_t ty = n->type();
  if (const binaryOpNode *b = dynamic_cast<const binaryOpNode*>(n))
    return "(bin " + atom(b->op.str) + " " + dump(b->leftValue) + " " + dump(b->rightValue) + ")";
  if (const ternaryOpNode *t = dynamic_cast<const ternaryOpNode*>(n))
    return "(tern " + dump(t->checkValue) + " " + dump(t->trueValue) + " " + dump(t->falseValue) + ")";
  if (const leftUnaryOpNode *l = dynamic_cast<const leftUnaryOpNode*>(n))
    return "(lu " + atom(l->op.str) + " " + dump(l->value) + ")";
  if (const rightUnaryOpNode *r = dynamic_cast<const rightUnaryOpNode*>(n))
    return "(ru " + atom(r->op.str) + " " + dump(r->value) + ")";
  if (const parenthesesNode *p = dynamic_cast<const parenthesesNode*>(n))
    return "(par " + dump(p->value) + ")";
  if (const callNode *c = dynamic_cast<const callNode*>(n)) {
    std::string s = "(call " + dump(c->value);
    for (exprNode *a : c->args) s += " " + dump(a);
    return s + ")";
  }
  if (const subscriptNode *s = dynamic_cast<const subscriptNode*>(n))
    return "(sub " + dump(s->value) + " " + dump(s->index) + ")";
  if (const parenCastNode *c = dynamic_cast<const parenCastNode*>(n))
    return "(cast " + (spelled ? shortType(c->valueType) : dumpType(c->valueType)) + " " + dump(c->value) + ")";
  if (const sizeofNode *s = dynamic_cast<const sizeofNode*>(n))
    return "(sizeof " + dump(s->value) + ")";
  if (const throwNode *s = dynamic_cast<const throwNode*>(n))
    return "(throw " + dump(s->value) + ")";
  if (const tupleNode *t = dynamic_cast<const tupleNode*>(n)) {
    std::string s = "(tuple";
    for (exprNode *a : t->args) s += " " + dump(a);
    return s + ")";
  }
  if (const pairNode *p = dynamic_cast<const pairNode*>(n))
    return "(pair " + atom(p->op.str) + " " + dump(p->value) + ")";
  if (const primitiveNode *p = dynamic_cast<const primitiveNode*>(n)) {
    // structural identity of a literal: its type and the bytes of its value (never its text)
    if (spelled) return "(prim " + atom(p->value.toString()) + ")";
    std::ostringstream ss;
    ss << "(prim t" << p->value.type << " ";
    uint64_t bits = 0;
    const uint64_t sz = p->value.sizeof_();
    memcpy(&bits, &p->value.value, sz <= 8 ? sz : 8);
    ss << std::hex << bits << ")";
    return ss.str();
  }
  if (const stringNode *s = dynamic_cast<const stringNode*>(n)) {
    std::string enc = "-", udf;
    if (s->token && (s->token->type() & tokenType::string)) {
      const stringToken &t = s->token->to<stringToken>();
      enc = encName(t.encoding); udf = t.udf;
    }
    return "(str " + enc + " " + atom(s->value) + " " + atom(udf) + ")";
  }
  if (const charNode *s = dynamic_cast<const charNode*>(n)) {
    std::string enc = "-", udf;
    if (s->token && (s->token->type() & tokenType::char_)) {
      const charToken &t = s->token->to<charToken>();
      enc = encName(t.encoding); udf = t.udf;
    }
    return "(chr " + enc + " " + atom(s->value) + " " + atom(udf) + ")";
  }
  if (const identifierNode *i = dynamic_cast<const identifierNode*>(n))
    return "(id " + atom(i->value) + ")";
  if (const variableNode *v = dynamic_cast<const variableNode*>(n))
    return "(var " + atom(v->value.name()) + ")";
  if (const functionNode *f = dynamic_cast<const functionNode*>(n))
    return "(fn " + atom(f->value.name()) + ")";
  if (const typeNode *t = dynamic_cast<const typeNode*>(n))
    return "(type " + atom(t->value.name()) + ")";
  if (const vartypeNode *t = dynamic_cast<const vartypeNode*>(n))
    return "(vartype " + (spelled ? shortType(t->value) : dumpType(t->value)) + ")";
  if (ty & exprNodeType::empty) return "(empty)";
  if (const exprOpNode *o = dynamic_cast<const exprOpNode*>(n))
    return "(rawop " + atom(o->op.str) + ")";
  return "(other " + atom(n->toString()) + ")";
}

static std::string dumpQuals(const qualifiers_t &q) {
  std::string s = "[";
  for (int i = 0; i < q.size(); ++i) s += (i ? "," : "") + q[i]->name;
  return s + "]";
}
static std::string dumpType(const vartype_t &t) {
  std::string s = "(ty " + dumpQuals(t.qualifiers) + " " + atom(t.type ? t.type->name() : std::string("?"));
  for (const pointer_t &p : t.pointers) s += " *" + dumpQuals(p.qualifiers);
  if (t.referenceToken) s += " &";
  for (const array_t &a : t.arrays) s += " [" + (a.size ? dump(a.size) : std::string("")) + "]";
  if (t.bitfield >= 0) s += " :" + std::to_string(t.bitfield);
  return s + ")";
}

static std::string dumpS(const statement_t *s);
static std::string dumpKids(const blockStatement &b) {
  std::string s;
  for (int i = 0; i < (int) b.children.length(); ++i) s += " " + dumpS(b.children[i]);
  return s;
}
static std::string dumpVar(const variable_t &v) {
  return "(v " + atom(v.name()) + " " + dumpType(v.vartype) + ")";
}
static std::string dumpS(const statement_t *s) {
  if (!s) return "(nil)";
  if (const expressionStatement *e = dynamic_cast<const expressionStatement*>(s))
    return std::string("(expr") + (e->hasSemicolon ? "; " : " ") + dump(e->expr) + ")";
  if (const declarationStatement *d = dynamic_cast<const declarationStatement*>(s)) {
    std::string o = "(decl";
    for (const variableDeclaration &vd : d->declarations) {
      o += " (" + (vd.hasVariable() ? dumpVar(vd.variable()) : std::string("(v?)"));
      if (vd.value) o += " = " + dump(vd.value);
      o += ")";
    }
    return o + ")";
  }
  if (const returnStatement *r = dynamic_cast<const returnStatement*>(s))
    return "(return " + (r->value ? dump(r->value) : std::string("-")) + ")";
  if (const ifStatement *i = dynamic_cast<const ifStatement*>(s)) {
    std::string o = "(if " + dumpS(i->condition) + " (then" + dumpKids(*i) + ")";
    for (elifStatement *e : i->elifSmnts) o += " (elif " + dumpS(e->condition) + dumpKids(*e) + ")";
    if (i->elseSmnt) o += " (else" + dumpKids(*i->elseSmnt) + ")";
    return o + ")";
  }
  if (const forStatement *f = dynamic_cast<const forStatement*>(s))
    return "(for " + dumpS(f->init) + " " + dumpS(f->check) + " " + dumpS(f->update) + " (body" + dumpKids(*f) + "))";
  if (const whileStatement *w = dynamic_cast<const whileStatement*>(s))
    return std::string(w->isDoWhile ? "(dowhile " : "(while ") + dumpS(w->condition) + " (body" + dumpKids(*w) + "))";
  if (const switchStatement *w = dynamic_cast<const switchStatement*>(s))
    return "(switch " + dumpS(w->condition) + " (body" + dumpKids(*w) + "))";
  if (const caseStatement *c = dynamic_cast<const caseStatement*>(s))
    return "(case " + dump(c->value) + ")";
  if (const functionDeclStatement *f = dynamic_cast<const functionDeclStatement*>(s)) {
    const function_t &fn = f->function();
    std::string o = "(fundef " + atom(fn.name()) + " " + dumpType(fn.returnType) + " (args";
    for (variable_t *a : fn.args) o += " " + dumpVar(*a);
    return o + ") (body" + dumpKids(*f) + "))";
  }
  if (const functionStatement *f = dynamic_cast<const functionStatement*>(s)) {
    const function_t &fn = f->function();
    std::string o = "(fundecl " + atom(fn.name()) + " " + dumpType(fn.returnType) + " (args";
    for (variable_t *a : fn.args) o += " " + dumpVar(*a);
    return o + "))";
  }
  const int ty = s->type();
  if (ty & statementType::break_) return "(break)";
  if (ty & statementType::continue_) return "(continue)";
  if (ty & statementType::default_) return "(default)";
  if (ty & statementType::empty) return "(emptystmt)";
  if (const blockStatement *b = dynamic_cast<const blockStatement*>(s))
    return "(" + s->statementName() + dumpKids(*b) + ")";
  return "(" + s->statementName() + ")";
}

// ---------------------------------------------------------------- silence occa's diagnostics
// (the expression parser's debugPrint writes to occa's io::stdout, so fd 1 is parked as well)
struct Quiet {
  int saved1, saved2;
  Quiet() {
    static const bool loud = getenv("H_EXPR_LOUD") != NULL;   // debugging aid: keep occa's messages
    if (loud) { saved1 = saved2 = -1; return; }
    std::cout.flush(); fflush(stdout); fflush(stderr);
    saved1 = dup(1); saved2 = dup(2);
    static int n = open("/dev/null", O_WRONLY); dup2(n, 1); dup2(n, 2);
  }
  ~Quiet() {
    if (saved1 < 0) return;
    std::cout.flush(); fflush(stdout); fflush(stderr);
    dup2(saved1, 1); dup2(saved2, 2); close(saved1); close(saved2);
  }
};

// tokenContext_t::parseExpression replaces type keywords (and the pointer declarators that
// follow) by one vartypeToken before calling the expression parser; the raw expression entry
// point used here does the same for the builtin type names below.
static const primitive_t* builtinType(const std::string &s) {
  if (s == "int") return &int_;
  if (s == "float") return &float_;
  if (s == "double") return &double_;
  if (s == "char") return &char_;
  if (s == "short") return &short_;
  if (s == "bool") return &bool_;
  if (s == "void") return &void_;
  return NULL;
}
// One tokenizer / parser object for the whole run, re-targeted with set() / parseSource() (which
// clears the previous state first), as the library's own tests do: building the operator trie and
// the keyword tables for every expression costs 50 ms (tokenizer) to 1.3 s (parser) under ASan.
static tokenizer_t& theTokenizer() { static tokenizer_t *t = new tokenizer_t(); return *t; }
static parser_t& theParser() { static parser_t *p = new parser_t(); return *p; }

static tokenVector tokenize(const std::string &src) {
  tokenizer_t &tk = theTokenizer();
  tk.set(src.c_str());
  tokenVector tokens;
  token_t *token;
  while (!tk.isEmpty()) {
    tk.setNext(token);
    tokens.push_back(token);
  }
  return tokens;
}

static exprNode* parseExpr(const std::string &src) {
  tokenVector raw = tokenize(src);
  tokenVector tokens;
  for (size_t i = 0; i < raw.size(); ++i) {
    token_t *t = raw[i];
    // parser_t's token stream drops newline tokens (newlineTokenFilter) before any expression is parsed
    if (t && (t->type() & tokenType::newline)) { delete t; continue; }
    const primitive_t *bt = NULL;
    if (t && (t->type() & tokenType::identifier)) bt = builtinType(t->to<identifierToken>().value);
    if (!bt) { tokens.push_back(t); continue; }
    vartype_t vt(*bt);
    size_t j = i + 1;
    while (j < raw.size() && raw[j] && (raw[j]->type() & tokenType::op) &&
           (raw[j]->to<operatorToken>().opType() & operatorType::mult)) {
      vt += pointer_t();
      delete raw[j];
      ++j;
    }
    tokens.push_back(new vartypeToken(t->origin, vt));
    delete t;
    i = j - 1;
  }
  return expressionParser::parse(tokens);
}

static bool oracleOn = true;
static void oracle(const std::string &what) { if (oracleOn) hp::oracle(what); }

static std::string roundTripExpr(const std::string &src) {
  exprNode *e1 = NULL;
  {
    Quiet q;
    try { e1 = parseExpr(src); } catch (...) { e1 = NULL; }
  }
  if (!e1) return "err";
  spelled = true;
  const std::string obs1 = dump(e1);
  spelled = false;
  const std::string t1 = dump(e1);
  std::string text;
  bool printed = true;
  {
    Quiet q;
    try { text = e1->toString(); } catch (...) { printed = false; }
  }
  delete e1;
  if (!printed) { oracle("printing the parsed expression raised"); return "ok T=" + obs1 + " P=% R=err"; }
  exprNode *e2 = NULL;
  {
    Quiet q;
    try { e2 = parseExpr(text); } catch (...) { e2 = NULL; }
  }
  std::string r;
  if (!e2) {
    r = "err";
    oracle("printed expression does not re-parse: " + pct(text));
  } else {
    const std::string t2 = dump(e2);
    spelled = true;
    const std::string obs2 = dump(e2);
    spelled = false;
    delete e2;
    if (t2 == t1) r = "same";
    else { r = (obs2 == obs1 ? t2 : obs2); oracle("printed expression re-parses to a different tree: " + pct(text)); }
  }
  return "ok T=" + obs1 + " P=" + pct(text) + " R=" + r;
}

static bool parseProgram(const std::string &src, std::string &tree, std::string &text) {
  Quiet q;
  try {
    parser_t &parser = theParser();
    parser.parseSource(src);
    if (!parser.success) return false;
    tree = "(root" + dumpKids(parser.root) + ")";
    printer pout;
    parser.root.print(pout);
    text = pout.str();
    return true;
  } catch (...) {
    return false;
  }
}

static std::string roundTripProgram(const std::string &src) {
  std::string t1, text, t2, text2;
  if (!parseProgram(src, t1, text)) return "err";
  std::string r;
  if (!parseProgram(text, t2, text2)) {
    r = "err";
    hp::oracle("printed program does not re-parse: " + pct(text));
  } else if (t1 == t2) {
    r = "same";
    if (text2 != text) hp::oracle("printing is not idempotent: " + pct(text) + " vs " + pct(text2));
  } else {
    r = t2;
    hp::oracle("printed program re-parses to a different tree: " + pct(text));
  }
  return "ok T=" + t1 + " P=" + pct(text) + " R=" + r;
}

int main() {
  return hp::run(
    []() {},
    [](const std::vector<std::string> &t) -> std::string {
      if (t.empty()) return "bad-op";
      std::string text;
      if (t[0] == "E" || t[0] == "G") {
        for (size_t i = 1; i < t.size(); ++i) text += (i > 1 ? " " : "") + t[i];
        oracleOn = (t[0] == "E");
        std::string r = roundTripExpr(text);
        oracleOn = true;
        return r;
      }
      if (t[0] == "X" && t.size() == 2 && unpct(t[1], text)) return roundTripExpr(text);
      if (t[0] == "S" && t.size() == 2 && unpct(t[1], text)) return roundTripProgram(text);
      if (t[0] == "Q" && t.size() == 2 && unpct(t[1], text)) {
        // escape() as used by stringNode/charNode/stringToken/charToken ::print; oracle: the
        // tokenizer reads the quoted text back as one token with the same value
        const std::string s = "\"" + escape(text, '"') + "\"";
        const std::string c = "'" + escape(text, '\'') + "'";
        return "ok " + pct(s) + " " + pct(c);
      }
      return "bad-op";
    });
}
