// C16 failing-input search: feeds an input text to the REAL OKL front end with each of the seven
// translators (serial, openmp, cuda, hip, opencl, metal, dpcpp; okl/validate on), every input in a
// forked child with a CPU-time limit, under ASan+UBSan.  A signal, sanitizer report, uncaught
// non-occa exception, abort or CPU-time-out of the child is a concrete failing input.
//
//   fuzz_okl run   [--cpu S] FILE...                      one line per file:  <file>\t<status>\t<signature>\t<acc>/<reached>
//   fuzz_okl fuzz  --seed N --corpus DIR --out DIR (--iters K | --secs T) [--cpu S] [--raw] [--mild] [--maxlen B]   (budget counts after the seed pass)
//                                                          seeded grammar-aware mutation loop (coverage-guided when the
//                                                          library is built with clang -fsanitize=fuzzer-no-link)
//   fuzz_okl min   --sig SIG [--cpu S] IN OUT              delta-debug IN (lines, tokens, bytes) keeping signature SIG
//   fuzz_okl mutate --seed N --corpus DIR --count K --out DIR   write K mutants (no execution; used to test the mutator)
//
// All randomness comes from --seed (the plugin draws it from ck.rng).  Steering: unless --raw is
// given every mutant is passed through `steer()` which removes the triggers of the known findings
// owned by other properties so that the rest of the input space is explored.
#include <occa/internal/lang/parser.hpp>
#include <occa/internal/lang/kernelMetadata.hpp>
#include <occa/internal/lang/modes/serial.hpp>
#include <occa/internal/lang/modes/openmp.hpp>
#include <occa/internal/lang/modes/cuda.hpp>
#include <occa/internal/lang/modes/hip.hpp>
#include <occa/internal/lang/modes/opencl.hpp>
#include <occa/internal/lang/modes/metal.hpp>
#include <occa/internal/lang/modes/dpcpp.hpp>
#include <occa/internal/io/output.hpp>
#include <occa/utils/exception.hpp>

#include <algorithm>
#include <cctype>
#include <cerrno>
#include <csignal>
#include <cstdint>
#include <cstdio>
#include <cstdlib>
#include <cstring>
#include <ctime>
#include <dirent.h>
#include <fcntl.h>
#include <fstream>
#include <map>
#include <set>
#include <sstream>
#include <string>
#include <sys/mman.h>
#include <sys/resource.h>
#include <sys/stat.h>
#include <sys/time.h>
#include <sys/wait.h>
#include <unistd.h>
#include <vector>

using namespace occa::lang;

extern "C" const char *__asan_default_options() {
  return "detect_leaks=0:abort_on_error=0:exitcode=66:handle_sigfpe=1:handle_abort=1:allocator_may_return_null=1:"
         "max_allocation_size_mb=1024:detect_stack_use_after_return=0:symbolize=1:fast_unwind_on_malloc=1";
}
extern "C" const char *__ubsan_default_options() {
  return "print_stacktrace=0:halt_on_error=0";
}

//---[ coverage feedback (clang inline 8-bit counters; absent in the g++ build) ]---------------
// (plain arrays: the callback runs from the library's constructors, before this file's statics exist)
struct CovRegion { uint8_t *first, *second; };
static CovRegion covRegionsArr[64];
static int covRegionCount = 0;
struct CovRegions {
  CovRegion *begin() const { return covRegionsArr; }
  CovRegion *end() const { return covRegionsArr + covRegionCount; }
};
static CovRegions covRegions;
extern "C" void __sanitizer_cov_8bit_counters_init(uint8_t *start, uint8_t *stop) {
  for (int i = 0; i < covRegionCount; ++i) if (covRegionsArr[i].first == start) return;
  if (covRegionCount < 64) { covRegionsArr[covRegionCount].first = start; covRegionsArr[covRegionCount].second = stop; ++covRegionCount; }
}
extern "C" void __sanitizer_cov_pcs_init(const uintptr_t *, const uintptr_t *) {}

//---[ the target ]-----------------------------------------------------------------------------
static const int NP = 7;
static const char *parserNames[NP] = {"serial", "openmp", "cuda", "hip", "opencl", "metal", "dpcpp"};
static parser_t *parsers[NP];
static okl::withLauncher *launchers[NP];

static void dropOutput(const char *) {}

static void makeParsers() {
  occa::io::stdout.setOverride(dropOutput);
  occa::io::stderr.setOverride(dropOutput);
  occa::json s;
  s["okl/validate"] = true;
  okl::serialParser *p0 = new okl::serialParser(s);
  okl::openmpParser *p1 = new okl::openmpParser(s);
  okl::cudaParser   *p2 = new okl::cudaParser(s);
  okl::hipParser    *p3 = new okl::hipParser(s);
  okl::openclParser *p4 = new okl::openclParser(s);
  okl::metalParser  *p5 = new okl::metalParser(s);
  okl::dpcppParser  *p6 = new okl::dpcppParser(s);
  parsers[0] = p0; parsers[1] = p1; parsers[2] = p2; parsers[3] = p3; parsers[4] = p4; parsers[5] = p5; parsers[6] = p6;
  launchers[0] = NULL; launchers[1] = NULL; launchers[2] = p2; launchers[3] = p3; launchers[4] = p4; launchers[5] = p5; launchers[6] = p6;
}

struct Result {            // written by the child into shared memory
  volatile int accepted;   // bit i: translator i succeeded
  volatile int reached;    // bit i: tokenizer + preprocessor + pair matching had no error (statement parser ran)
  volatile int threw;      // bit i: occa::exception
  volatile int current;    // translator being run (for the signature)
  volatile int newcov;     // number of new coverage features
  volatile int outBytes;   // size of the printed translations
  volatile int cpuMs;      // CPU time used by this input (all translators)
  volatile long logStart, logEnd;   // slice of the sanitizer log written while this input ran
};
static const int BATCH = 64;
struct Shared {
  volatile int index;      // input being executed by the batch child
  Result r[BATCH];
};
static Shared *shared;
static Result *res;
static void zeroCounters() { for (auto &r : covRegions) memset(r.first, 0, r.second - r.first); }
static uint8_t *seenCov;   // shared: one byte of hit-count buckets per counter
static size_t covSize;

static inline uint8_t bucket(uint8_t c) {
  if (c == 0) return 0;
  if (c == 1) return 1;
  if (c == 2) return 2;
  if (c == 3) return 4;
  if (c < 8) return 8;
  if (c < 16) return 16;
  if (c < 32) return 32;
  if (c < 128) return 64;
  return 128;
}

static void runAll(const std::string &src, unsigned mask) {
  for (int i = 0; i < NP; ++i) {
    if (!(mask & (1u << i))) continue;
    res->current = i;
    parser_t &p = *parsers[i];
    try {
      p.parseSource(src);
      if (!p.tokenizer.errors && !p.preprocessor.errors && !p.tokenContext.hasError) res->reached |= (1 << i);
      if (p.succeeded()) {
        // what device::buildKernel does next: print the translation(s) and collect the metadata
        std::string out = p.toString();
        sourceMetadata_t md;
        p.setSourceMetadata(md);
        std::string js = md.getKernelMetadataJson().toString();
        if (launchers[i]) {
          out += launchers[i]->launcherParser.toString();
          sourceMetadata_t md2;
          launchers[i]->launcherParser.setSourceMetadata(md2);
        }
        res->outBytes += (int) (out.size() + js.size());
        res->accepted |= (1 << i);
      }
    } catch (occa::exception &e) {
      res->threw |= (1 << i);     // reporting through occa::exception is allowed by the property
    }
    // what ~parser_t does after a build: release everything this input left behind (a defect here
    // must be charged to this input, not to the next one that happens to reuse the parser)
    try {
      p.clear();
    } catch (occa::exception &e) {
      res->threw |= (1 << i);
    }
  }
  res->current = NP;
}

static int cpuLimit = 10;    // seconds of CPU time (user+sys) per input, all seven translators together
static unsigned parserMask = 0x7f;
static int logFd = -1;
static std::string logPath;

struct Outcome {
  std::string status;      // ok | crash | timeout
  std::string sig;         // signature (class + first occa frame), stable across runs
  std::string detail;      // first lines of the sanitizer report
  int accepted, reached, threw, newcov, cpuMs;
};

static std::string readLog() {
  std::string s;
  off_t n = lseek(logFd, 0, SEEK_END);
  if (n <= 0) return s;
  if (n > (1 << 20)) n = 1 << 20;
  s.resize(n);
  ssize_t k = pread(logFd, &s[0], n, 0);
  s.resize(k > 0 ? k : 0);
  return s;
}

static std::string frameFunction(const std::string &line) {
  // "    #3 0x... in occa::lang::foo<T>(args) const /path/file.cpp:123"
  size_t in = line.find(" in ");
  if (in == std::string::npos) return "";
  std::string fn = line.substr(in + 4);
  size_t path = fn.find(" /");
  if (path != std::string::npos) fn = fn.substr(0, path);
  size_t par = fn.find('(');
  if (par != std::string::npos && par > 0) fn = fn.substr(0, par);
  // drop a leading return type ("T& ns::f<...>")
  int depth = 0; size_t lastSpace = std::string::npos;
  for (size_t i = 0; i < fn.size(); ++i) { if (fn[i] == '<') ++depth; else if (fn[i] == '>') --depth; else if (fn[i] == ' ' && depth == 0) lastSpace = i; }
  if (lastSpace != std::string::npos && lastSpace + 1 < fn.size()) fn = fn.substr(lastSpace + 1);
  // template arguments carry no information for a signature
  std::string out; depth = 0;
  for (char c : fn) { if (c == '<') ++depth; else if (c == '>') --depth; else if (!depth) out += c; }
  return out;
}

static std::string firstOccaFrame(const std::string &log, size_t from) {
  size_t p = from;
  std::string firstAny;
  for (int k = 0; k < 80; ++k) {
    p = log.find("\n    #", p);
    if (p == std::string::npos) break;
    size_t e = log.find('\n', p + 1);
    std::string line = log.substr(p + 1, e == std::string::npos ? std::string::npos : e - p - 1);
    p = p + 1;
    std::string fn = frameFunction(line);
    if (fn.empty()) continue;
    if (firstAny.empty()) firstAny = fn;
    if (fn.find("occa::") != std::string::npos && line.find("fuzz_okl") == std::string::npos) return fn;
    // stop at the end of the first stack (the allocation/free stacks of a use-after-free follow)
    if (e != std::string::npos && log.compare(e, 2, "\n\n") == 0) break;
  }
  return firstAny;
}

static std::string baseName(const std::string &p) {
  size_t s = p.rfind('/');
  return s == std::string::npos ? p : p.substr(s + 1);
}

// UBSan kinds that are reported but are not "crashes or invalid memory accesses": arithmetic UB of
// the constant folder (owned by C14) — counted, listed in the evidence, never a violation here.
static bool benignUb(const std::string &msg) {
  return msg.find("signed integer overflow") != std::string::npos
      || msg.find("shift exponent") != std::string::npos
      || msg.find("left shift of") != std::string::npos
      || msg.find("outside the range of representable values") != std::string::npos
      || msg.find("negation of") != std::string::npos
      || msg.find("division of") != std::string::npos;   // INT_MIN / -1: traps -> seen as FPE anyway
}

static std::map<std::string, long> benignCount;

static Outcome classify(int status, const std::string &log) {
  Outcome o;
  o.accepted = res->accepted; o.reached = res->reached; o.threw = res->threw; o.newcov = res->newcov; o.cpuMs = res->cpuMs;
  std::string who = (res->current >= 0 && res->current < NP) ? parserNames[res->current] : "-";
  size_t a = log.find("ERROR: AddressSanitizer: ");
  if (a != std::string::npos) {
    size_t e = log.find_first_of(" \n", a + 25);
    std::string kind = log.substr(a + 25, e - (a + 25));
    if (kind == "SEGV" || kind == "FPE" || kind == "BUS" || kind == "ILL" || kind == "ABRT") {
      // distinguish null-page accesses from wild ones
      size_t z = log.find("address 0x", a);
      if (kind == "SEGV" && z != std::string::npos) {
        unsigned long long addr = strtoull(log.c_str() + z + 8, NULL, 16);
        kind += (addr < 4096 ? "-null" : "-wild");
      }
    }
    o.status = "crash";
    o.sig = "asan:" + kind + " in " + firstOccaFrame(log, a);
    if (kind == "ABRT") {
      size_t t = log.find("terminate called after throwing an instance of '");
      if (t != std::string::npos) {
        size_t e = log.find('\'', t + 48);
        o.sig = "abort:uncaught " + log.substr(t + 48, e - t - 48) + " in " + firstOccaFrame(log, a);
      } else o.sig = "abort in " + firstOccaFrame(log, a);
    }
    o.detail = log.substr(a, getenv("FUZZ_VERBOSE") ? 30000 : 1500);
    return o;
  }
  // UBSan (non-fatal reports)
  {
    size_t p = 0;
    std::string firstBad;
    while ((p = log.find("runtime error: ", p)) != std::string::npos) {
      size_t ls = log.rfind('\n', p);
      ls = (ls == std::string::npos) ? 0 : ls + 1;
      size_t le = log.find('\n', p);
      std::string line = log.substr(ls, le == std::string::npos ? std::string::npos : le - ls);
      std::string msg = log.substr(p + 15, le == std::string::npos ? std::string::npos : le - p - 15);
      p += 15;
      // "/repo/src/x.cpp:12:3: runtime error: ..."
      std::string file = line.substr(0, line.find(':'));
      // strip numbers / addresses from the message so that the signature is stable
      std::string kind;
      for (size_t q = 0; q < msg.size(); ++q) {
        char c = msg[q];
        if (c == '0' && q + 1 < msg.size() && msg[q+1] == 'x') { q += 2; while (q < msg.size() && isxdigit((unsigned char) msg[q])) ++q; --q; kind += "ADDR"; continue; }
        if (isdigit((unsigned char) c)) { if (kind.empty() || kind.back() != '#') kind += '#'; } else kind += c;
      }
      if (kind.size() > 110) kind.resize(110);
      std::string sig = "ubsan:" + baseName(file) + ": " + kind;
      if (benignUb(msg)) { benignCount[sig]++; continue; }
      if (firstBad.empty()) { firstBad = sig; o.detail = line; }
    }
    if (!firstBad.empty() && !(WIFSIGNALED(status))) {
      o.status = "crash"; o.sig = firstBad; return o;
    }
    if (!firstBad.empty()) o.detail += " ; then ";
  }
  if (WIFSIGNALED(status)) {
    int s = WTERMSIG(status);
    if (s == SIGPROF || s == SIGXCPU || s == SIGVTALRM) { o.status = "timeout"; o.sig = "timeout:cpu in " + who; return o; }
    if (s == SIGALRM) { o.status = "timeout"; o.sig = "timeout:wall in " + who; return o; }
    o.status = "crash";
    if (s == SIGABRT) {
      size_t t = log.find("terminate called after throwing an instance of '");
      if (t != std::string::npos) {
        size_t e = log.find('\'', t + 48);
        o.sig = "abort:uncaught " + log.substr(t + 48, e - t - 48);
      } else if (log.find("Assertion") != std::string::npos) {
        o.sig = "abort:assert";
      } else o.sig = "abort";
      o.detail += log.substr(0, 600);
      return o;
    }
    char b[64]; snprintf(b, sizeof b, "signal:%d", s);
    o.sig = b; o.detail += log.substr(0, 600);
    return o;
  }
  if (WIFEXITED(status) && WEXITSTATUS(status) != 0) {
    o.status = "crash";
    char b[64]; snprintf(b, sizeof b, "exit:%d", WEXITSTATUS(status));
    o.sig = b;
    if (log.find("AddressSanitizer") != std::string::npos || log.find("Sanitizer") != std::string::npos) {
      size_t q = log.find("Sanitizer");
      size_t e = log.find('\n', q);
      o.sig = "sanitizer:" + log.substr(q, e - q).substr(0, 80);
    }
    o.detail = log.substr(0, 1500);
    return o;
  }
  o.status = "ok";
  return o;
}

static long cpuNowMs() {
  struct rusage u; getrusage(RUSAGE_SELF, &u);
  return (u.ru_utime.tv_sec + u.ru_stime.tv_sec) * 1000L + (u.ru_utime.tv_usec + u.ru_stime.tv_usec) / 1000L;
}

static void armTimer(int seconds) {
  struct itimerval tv; memset(&tv, 0, sizeof tv);
  tv.it_value.tv_sec = seconds;
  setitimer(ITIMER_PROF, &tv, NULL);
}

static int scanCoverage() {
  int nc = 0;
  if (seenCov) {
    size_t k = 0;
    for (auto &r : covRegions)
      for (uint8_t *c = r.first; c < r.second; ++c, ++k)
        if (*c) { uint8_t b = bucket(*c); if (!(seenCov[k] & b)) { seenCov[k] |= b; ++nc; } }
  }
  return nc;
}

static Outcome execute(const std::string &src, int limit = 0) {
  if (limit <= 0) limit = cpuLimit;
  res = &shared->r[0];
  memset((void*) res, 0, sizeof(Result));
  res->current = -1;
  if (ftruncate(logFd, 0)) {}
  lseek(logFd, 0, SEEK_SET);
  pid_t pid = fork();
  if (pid < 0) { perror("fork"); exit(3); }
  if (pid == 0) {
    dup2(logFd, 2);
    // CPU time, not wall time: the verdict must not depend on the load of the machine
    signal(SIGPROF, SIG_DFL);
    armTimer(limit);
    signal(SIGALRM, SIG_DFL);
    alarm(limit * 30 + 120);            // backstop for a child blocked without using CPU
    long t0 = cpuNowMs();
    runAll(src, parserMask);
    res->cpuMs = (int) (cpuNowMs() - t0);
    res->newcov = scanCoverage();
    _exit(0);
  }
  int status = 0;
  while (waitpid(pid, &status, 0) < 0 && errno == EINTR) {}
  std::string log;
  if (lseek(logFd, 0, SEEK_END) > 0) log = readLog();
  return classify(status, log);
}

// Run inputs[0..n) (n <= BATCH) in as few children as possible: one child executes the inputs one after
// the other (parser state is cleared by parseSource, as in the library); when it dies the parent
// classifies the input it died in and starts a new child on the rest.  Every non-ok outcome is only a
// CANDIDATE: the caller confirms it with `execute` (a fresh process for that input alone).
static void runBatch(const std::vector<std::string> &inputs, int limit, std::vector<Outcome> &out) {
  int n = (int) inputs.size();
  out.assign(n, Outcome());
  memset((void*) shared, 0, sizeof(Shared));
  if (ftruncate(logFd, 0)) {}
  lseek(logFd, 0, SEEK_SET);
  int from = 0;
  while (from < n) {
    shared->index = from;
    pid_t pid = fork();
    if (pid < 0) { perror("fork"); exit(3); }
    if (pid == 0) {
      dup2(logFd, 2);
      signal(SIGPROF, SIG_DFL);
      signal(SIGALRM, SIG_DFL);
      for (int j = from; j < n; ++j) {
        res = &shared->r[j];
        res->current = -1;
        res->logStart = lseek(logFd, 0, SEEK_END);
        shared->index = j;
        zeroCounters();
        armTimer(limit);
        alarm(limit * 30 + 120);
        long t0 = cpuNowMs();
        runAll(inputs[j], parserMask);
        armTimer(0);
        res->cpuMs = (int) (cpuNowMs() - t0);
        res->newcov = scanCoverage();
        res->logEnd = lseek(logFd, 0, SEEK_END);
      }
      shared->index = n;
      _exit(0);
    }
    int status = 0;
    while (waitpid(pid, &status, 0) < 0 && errno == EINTR) {}
    int upto = shared->index;           // inputs [from, upto) completed normally
    bool died = !(WIFEXITED(status) && WEXITSTATUS(status) == 0 && upto >= n);
    if (upto > n) upto = n;
    std::string log = (lseek(logFd, 0, SEEK_END) > 0) ? readLog() : std::string();
    for (int j = from; j < upto; ++j) {
      res = &shared->r[j];
      std::string slice;
      if (res->logEnd > res->logStart && (size_t) res->logStart < log.size()) slice = log.substr(res->logStart, res->logEnd - res->logStart);
      out[j] = classify(0, slice);
    }
    if (!died) break;
    if (upto < n) {
      res = &shared->r[upto];
      std::string slice = ((size_t) res->logStart < log.size()) ? log.substr(res->logStart) : std::string();
      out[upto] = classify(status, slice);
      if (out[upto].status == "ok") { out[upto].status = "crash"; out[upto].sig = "exit:unknown"; }
    }
    from = upto + 1;
  }
  res = &shared->r[0];
}

static void setupShared() {
  shared = (Shared*) mmap(NULL, sizeof(Shared), PROT_READ | PROT_WRITE, MAP_SHARED | MAP_ANONYMOUS, -1, 0);
  res = &shared->r[0];
  covSize = 0;
  for (auto &r : covRegions) covSize += r.second - r.first;
  if (covSize) {
    seenCov = (uint8_t*) mmap(NULL, covSize, PROT_READ | PROT_WRITE, MAP_SHARED | MAP_ANONYMOUS, -1, 0);
    memset(seenCov, 0, covSize);
  }
  char tmpl[256];
  const char *td = getenv("FUZZ_TMP");
  snprintf(tmpl, sizeof tmpl, "%s/fuzz_okl_log_XXXXXX", td ? td : "/tmp");
  logFd = mkstemp(tmpl);
  if (logFd < 0) { perror("mkstemp"); exit(3); }
  unlink(tmpl);
}


//---[ PRNG ]-----------------------------------------------------------------------------------
struct Rng {
  uint64_t s;
  explicit Rng(uint64_t seed) : s(seed * 0x9E3779B97F4A7C15ull + 0x1234567ull) { next(); next(); }
  uint64_t next() { s ^= s >> 12; s ^= s << 25; s ^= s >> 27; return s * 0x2545F4914F6CDD1Dull; }
  size_t below(size_t n) { return n ? (size_t) (next() % n) : 0; }
  bool chance(int pct) { return (int) below(100) < pct; }
  template <class T> const T& pick(const std::vector<T> &v) { return v[below(v.size())]; }
};

//---[ mutator ]--------------------------------------------------------------------------------
typedef std::vector<std::string> Toks;

// light lexer: identifiers/numbers, string/char literals, comments, whitespace runs, single punctuation
static Toks lexLight(const std::string &s) {
  Toks t;
  size_t i = 0, n = s.size();
  while (i < n) {
    size_t j = i;
    unsigned char c = s[i];
    if (isalnum(c) || c == '_') { while (j < n && (isalnum((unsigned char) s[j]) || s[j] == '_' || s[j] == '.')) ++j; }
    else if (c == '"' || c == '\'') {
      ++j;
      while (j < n && s[j] != (char) c && s[j] != '\n') { if (s[j] == '\\' && j + 1 < n) ++j; ++j; }
      if (j < n) ++j;
    }
    else if (c == '/' && i + 1 < n && s[i+1] == '/') { while (j < n && s[j] != '\n') ++j; }
    else if (c == '/' && i + 1 < n && s[i+1] == '*') { size_t e = s.find("*/", i + 2); j = (e == std::string::npos) ? n : e + 2; }
    else if (c == '\n') { ++j; }
    else if (isspace(c)) { while (j < n && isspace((unsigned char) s[j]) && s[j] != '\n') ++j; }
    else if (c == '@') { ++j; while (j < n && (isalnum((unsigned char) s[j]) || s[j] == '_')) ++j; }
    else ++j;
    t.push_back(s.substr(i, j - i));
    i = j;
  }
  return t;
}
static std::string join(const Toks &t) { std::string s; for (auto &x : t) s += x; return s; }

static const std::vector<std::string> &dictionary() {
  static std::vector<std::string> d = {
    // attributes, good and bad
    "@kernel", "@outer", "@inner", "@outer(0)", "@outer(1)", "@outer(2)", "@inner(0)", "@inner(1)", "@inner(2)",
    "@outer(3)", "@inner(-1)", "@outer(99999999999)", "@inner(x)", "@outer()", "@inner(0,1)", "@outer(\"a\")", "@outer(0.5)",
    "@tile(16, @outer, @inner)", "@tile(16, @outer(0), @inner(0))", "@tile(8, @outer, @inner, check=false)",
    "@tile(0, @outer, @inner)", "@tile(-4, @outer, @inner)", "@tile(16)", "@tile()", "@tile", "@tile(16, @inner, @outer)",
    "@tile(16, @outer, @inner, @outer)", "@tile(N, @outer, @inner)", "@tile(16, @tile(4, @outer, @inner), @inner)",
    "@tile(16, @shared, @kernel)", "@tile(1.5, @outer)", "@tile(\"x\", @outer, @inner)", "@tile(16,,)", "@tile(16, check=)",
    "@tile(16, @outer, @inner, check=3)", "@tile(2147483647, @outer, @inner)", "@tile(16, @outer, @inner, foo=1)",
    "@shared", "@exclusive", "@shared(1)", "@exclusive @shared", "@barrier", "@barrier(\"local\")", "@barrier()", "@barrier(1,2)",
    "@nobarrier", "@atomic", "@restrict", "@dim(4)", "@dim(N, M)", "@dim(2,3,4)", "@dim()", "@dim", "@dim(0)", "@dim(-1)",
    "@dim(N, M) @dimOrder(1, 0)", "@dimOrder(1, 0)", "@dimOrder(0, 0)", "@dimOrder(5, 6)", "@dimOrder()", "@dimOrder(x)",
    "@dimOrder(1)", "@dimOrder(-1, 0)", "@dimOrder(1, 0, 2)", "@max_inner_dims(16)", "@max_inner_dims(1,2,3,4)",
    "@max_inner_dims()", "@max_inner_dims(-1)", "@max_inner_dims(x)", "@simd_length(4)", "@simd_length(-1)", "@simd_length()",
    "@simd_length(x, y)", "@globalPtr", "@implicitArg", "@unknownAttr", "@unknownAttr(1, 2)", "@", "@@", "@(", "@kernel(1)",
    "@directive(\"#pragma omp simd\")", "@directive()", "@directive(1)", "@namespace", "@occa",
    // keywords and types
    "for", "while", "do", "if", "else", "switch", "case", "default", "break", "continue", "return", "goto", "struct", "class",
    "union", "enum", "typedef", "template", "typename", "namespace", "using", "extern", "\"C\"", "static", "const", "constexpr",
    "volatile", "inline", "register", "long", "short", "unsigned", "signed", "int", "float", "double", "char", "bool", "void",
    "auto", "sizeof", "new", "delete", "throw", "try", "catch", "public", "private", "operator", "this", "nullptr", "true", "false",
    "float4", "int2", "double3", "size_t", "uint64_t", "dim3", "__global__", "__shared__", "__device__", "__restrict__",
    "occa", "okl", "occaOuterDim0", "blockIdx", "threadIdx", "inline", "friend", "asm", "decltype", "alignas", "alignof",
    "static_assert", "explicit", "mutable", "noexcept", "thread_local", "virtual", "__attribute__", "((", "))",
    // punctuation and brackets
    "(", ")", "{", "}", "[", "]", "<", ">", "<<<", ">>>", "<<", ">>", ";", ",", ":", "::", "?", ".", "->", "...", "*", "&", "&&",
    "||", "!", "~", "=", "==", "!=", "+=", "-=", "++", "--", "+", "-", "/", "%", "^", "|", "#", "##", "\\", "\\\n", "->*", ".*",
    "<=", ">=", "<=>", "*=", "/=", "%=", "<<=", ">>=", "&=", "|=", "^=",
    // literals
    "0", "1", "-1", "2", "16", "0x", "0b", "0x7fffffff", "0xffffffff", "0xffffffffffffffff", "0x10000000000000000",
    "2147483647", "2147483648", "4294967296", "9223372036854775807", "9223372036854775808", "18446744073709551616",
    "99999999999999999999999999999999999999", "1e999", "1e-999", "1.", ".5", "1.0f", "1.0e", "1e+", "0.0", "1u", "1ul",
    "1ull", "1lu", "1llu", "1uu", "1lll", "08", "09", "0b102", "0xg", "1f", "1.f", "1.0L", "1'000", "0x1p3", "0x1.p", "1e1f",
    "'a'", "''", "'", "'\\", "'\\''", "'ab'", "L'a'", "u8'a'", "\"\"", "\"", "\"abc", "\"\\", "\"\\\"\"", "L\"a\"", "u8\"a\"",
    "R\"(a)\"", "R\"x(a)x\"", "R\"(", "R\"", "u\"", "U'", "\"a\" \"b\"", "/*", "*/", "//", "/* */", "/*/", "//\\\n",
    // statement fragments
    "for (int i = 0; i < N; ++i; @outer) {", "for (int j = 0; j < 16; ++j; @inner) {", "for (;;) {", "for (;;;) {",
    "for (int i = 0; i < N; ++i; @tile(16, @outer, @inner)) {", "for (int i = N; i > 0; --i; @outer) {",
    "for (int i = 0; i < N; i += 2; @inner) {", "for (int i = 0; i < N; i *= 2; @outer) {", "for (i = 0; i < N; ++i; @outer) {",
    "for (int i = 0, j = 0; i < N; ++i; @outer) {", "for (int i = 0; N > i; i++; @outer) {", "for (float f = 0; f < 1; f += 0.1; @inner) {",
    "for (int i = 0; i < N; ++j; @outer) {", "for (int i = 0; j < N; ++i; @inner) {", "for (int i = 0; i < N; ++i; @outer; @inner) {",
    "for (int i = 0; i != N; ++i; @outer) {", "for (int i = 0; i <= N; i -= 1; @inner) {", "for (int i = 0; i < N; i = i + 1; @outer) {",
    "@kernel void k(const int N, float *a) {", "@kernel void k() {", "@kernel int k(int N) {", "@kernel void k(int N, int N) {",
    "@kernel void k(float4 *v @dim(N, M)) {", "@shared float s[16];", "@shared float s[N];", "@shared float s[];",
    "@shared float s[16][16];", "@exclusive int e;", "@exclusive int e[4];", "@shared int s = 0;", "@exclusive int e = 1;",
    "@barrier();", "@barrier(\"local\");", "@atomic a[i] += 1;", "@atomic { a[i] += 1; b[i] = 2; }", "@atomic ;",
    "a(i, j) = 0;", "a(i) = b(j, k);", "a[i] = b[i] + c[i];", "typedef float T @dim(2, 2);", "typedef struct { int x; } S;",
    "struct S { int x; float y; };", "struct S;", "enum E { A, B = 2, C };", "enum { };", "union U { int i; float f; };",
    "int a[1][2][3];", "int *p = &a[0];", "int (*fp)(int, int);", "void f(int, ...);", "int x = (int) y;", "x = y ? z : w;",
    "template <class T> T f(T x) { return x; }", "namespace ns { int x; }", "ns::x = 1;", "extern \"C\" {", "extern \"C\" void f();",
    "switch (x) { case 1: break; default: ; }", "case 1:", "default:", "goto l;", "l:", "do { } while (0);", "while (1) { }",
    "if (x) { } else if (y) { } else { }", "else", "return;", "return x;", "continue;", "break;", "{ }", ";;", "#pragma omp parallel for\n",
    "#pragma occa @dim(1,2)\n", "#pragma\n", "const int N2 = N * 2;", "long long ll;", "long long long x;", "unsigned float u;",
    "int int x;", "const const int x;", "float4 v = {1, 2, 3, 4};", "int a[] = {1, 2, 3};", "sizeof(int)", "sizeof x", "new int[4]",
    "delete [] p;", "throw 1;", "(float) (x)", "static_cast<int>(x)", "f<<<1, 2>>>(x);", "f<<<1>>>();", "a<b>c;", "x = {};", "[&](int x) { return x; }",
    "okl_foo", "__LINE__", "__FILE__", "__COUNTER__", "__DATE__", "__TIME__", "__VA_ARGS__", "OCCA_USING_GPU", "defined", "__has_include",
    // preprocessor lines
    "\n#define A 1\n", "\n#define F(x) x\n", "\n#define F(x, y) x ## y\n", "\n#define S(x) #x\n", "\n#define V(...) __VA_ARGS__\n",
    "\n#define F(x,x) x\n", "\n#define F(\n", "\n#define F(x\n", "\n#define\n", "\n#define 1\n", "\n#define A A\n", "\n#define A B\n#define B A\n",
    "\n#define F(x) F(x)\n", "\n#define G(x) x x\n", "\n#define E(x) x ## \n", "\n#define E2(x) ## x\n", "\n#define H(x) # y\n",
    "\n#define V2(x, ...) x __VA_ARGS__ #__VA_ARGS__\n", "\n#define defined 1\n", "\n#define __LINE__ 3\n", "\n#undef A\n", "\n#undef\n",
    "\n#undef __FILE__\n", "\n#if 1\n", "\n#if 0\n", "\n#if\n", "\n#if (\n", "\n#if 1 +\n", "\n#if defined(A)\n", "\n#if defined\n",
    "\n#if defined(\n", "\n#if !defined A && B\n", "\n#if A == 1\n", "\n#if 1 ? 2 : 3\n", "\n#if 1.5\n", "\n#if \"s\"\n", "\n#if 'a'\n",
    "\n#if 1 << 70\n", "\n#if -1 >> 1\n", "\n#if 2147483647 + 1\n", "\n#if F(1)\n", "\n#if F(\n", "\n#if x y\n", "\n#if ()\n", "\n#if 1 1\n",
    "\n#ifdef A\n", "\n#ifndef A\n", "\n#ifdef\n", "\n#ifdef 1\n", "\n#ifndef\n", "\n#elif 1\n", "\n#elif\n", "\n#elif 0\n", "\n#else\n",
    "\n#else x\n", "\n#endif\n", "\n#endif x\n", "\n#endif\n#endif\n", "\n#else\n#else\n", "\n#include \"inc.h\"\n", "\n#include <inc.h>\n",
    "\n#include \"self.h\"\n", "\n#include \"nonexistent.h\"\n", "\n#include\n", "\n#include \"\n", "\n#include <\n", "\n#include A\n",
    "\n#include \"\"\n", "\n#include <>\n", "\n#include \"deep.h\"\n", "\n#error msg\n", "\n#error\n", "\n#warning msg\n", "\n#line 10\n",
    "\n#line 10 \"f.c\"\n", "\n#line\n", "\n#line x\n", "\n#line -1\n", "\n#line 99999999999\n", "\n#pragma once\n", "\n#unknown\n", "\n#\n",
    "\n# 1 \"f.c\"\n", "\n#if 1\n#elif 1\n#else\n#endif\n", "\n#if 0\n#elif 0\n#elif 1\n#else\n#endif\n", "#", " # ", "\n#define EMPTY\n",
    "\n#define CAT(a, b) a ## b\n", "CAT(1, 2)", "CAT(, )", "CAT(+, +)", "CAT(/, /)", "CAT(/, *)", "CAT(\", \")", "F(", "F()", "F(,)", "F(1, 2, 3)",
    "F((1, 2))", "F(F(F(1)))", "S(\")", "S(\\)", "S('\"')", "V()", "V(,,,)", "A", "EMPTY", "G(G(G(G(1))))", "\n#define okl 1\n",
    "\n#define kernel inner\n", "\n#define for while\n", "\n#define int\n", "\n#define LP (\n", "\n#define RP )\n", "LP", "RP", "\n#define AT @\n", "AT",
    "\n#define OUTER @outer\n", "OUTER", "\n#define LOOP(i, n) for (int i = 0; i < n; ++i; @inner)\n", "LOOP(i, 4) { }",
  };
  return d;
}

static std::string randIdent(Rng &r) {
  static const std::vector<std::string> ids = {"i", "j", "k", "N", "M", "a", "b", "c", "x", "y", "s", "e", "f", "k1", "foo", "T", "S", "ab", "ptr"};
  return r.pick(ids);
}

static std::string nest(Rng &r, const std::string &inner) {
  static const size_t depths[] = {2, 3, 8, 30, 100, 300, 1000, 3000, 10000, 30000};
  size_t d = depths[r.below(r.chance(80) ? 6 : 10)];
  static const char *opens[] = {"(", "{", "[", "((", "{(", "if (1) {", "for (;;) {", "a[", "f(", "-", "!", "*", "&", "(int)", "x ? ", "{ {", "<", "@dim(", "@tile(", "1 +", "1 ? 2 : ", "sizeof(", "struct S {", "else if (x) ", "if (x) ", "while (x) ", "do ", "F(", "/*", "for (int i=0;i<N;++i;@outer) {", "for (int i=0;i<N;++i;@inner) {", "switch (x) {", "case 1:", "*(", "&(", "new ", "::", "a::", "a."};
  static const char *closes[] = {")", "}", "]", "))", ")}", "}", "}", "]", ")", "", "", "", "", "", " : 0", "} }", ">", ")", ")", "", "", ")", "};", "", "", "", " while (0);", ")", "*/", "}", "}", "}", "", ")", ")", "", "", "", ""};
  size_t k = r.below(sizeof(opens) / sizeof(opens[0]));
  std::string o, c;
  bool close = !r.chance(15);      // sometimes leave it unbalanced
  o.reserve(d * strlen(opens[k]));
  for (size_t i = 0; i < d; ++i) { o += opens[k]; if (close) c += closes[k]; }
  return o + inner + c;
}

static std::string hugeLiteral(Rng &r) {
  size_t n = 1 + r.below(r.chance(70) ? 40 : 5000);
  std::string s;
  int kind = (int) r.below(6);
  if (kind == 1) s = "0x"; else if (kind == 2) s = "0b"; else if (kind == 3) s = "0";
  for (size_t i = 0; i < n; ++i) s += (char) ((kind == 1 ? "0123456789abcdefABCDEF"[r.below(22)] : kind == 2 ? "01"[r.below(2)] : "0123456789"[r.below(10)]));
  if (kind == 4) { s += "."; for (size_t i = 0; i < r.below(400); ++i) s += (char) ('0' + r.below(10)); }
  if (kind == 5) { s += "e"; if (r.chance(50)) s += (r.chance(50) ? "-" : "+"); for (size_t i = 0; i < 1 + r.below(8); ++i) s += (char) ('0' + r.below(10)); }
  static const std::vector<std::string> suf = {"", "", "", "u", "l", "ul", "ll", "ull", "f", "L", "uL", "lu", "LL", "i", "_x", "ulll"};
  return s + r.pick(suf);
}

static std::string randAttr(Rng &r) {
  static const std::vector<std::string> names = {"outer", "inner", "tile", "dim", "dimOrder", "shared", "exclusive", "kernel", "barrier", "atomic", "restrict", "max_inner_dims", "simd_length", "nobarrier", "directive", "globalPtr", "implicitArg", "bogus"};
  std::string s = "@" + r.pick(names);
  if (r.chance(25)) return s;
  s += "(";
  size_t n = r.below(5);
  for (size_t i = 0; i < n; ++i) {
    if (i) s += r.chance(90) ? ", " : " ";
    switch (r.below(12)) {
      case 0: s += std::to_string((long long) r.below(40) - 4); break;
      case 1: s += randIdent(r); break;
      case 2: s += "@" + r.pick(names); break;
      case 3: s += randAttr(r); break;
      case 4: s += randIdent(r) + "=" + (r.chance(50) ? "true" : r.chance(50) ? "false" : std::to_string(r.below(5))); break;
      case 5: s += hugeLiteral(r); break;
      case 6: s += "\"" + randIdent(r) + "\""; break;
      case 7: s += randIdent(r) + " * " + std::to_string(r.below(9)) + " + " + randIdent(r); break;
      case 8: s += ""; break;
      case 9: s += "(" + std::to_string(r.below(64)) + ")"; break;
      case 10: s += "1.5"; break;
      default: s += std::to_string(1 + r.below(64)); break;
    }
  }
  if (!r.chance(5)) s += ")";
  return s;
}

static std::string randPpLine(Rng &r) {
  static const std::vector<std::string> ops = {"+", "-", "*", "<<", ">>", "<", ">", "<=", ">=", "==", "!=", "&", "|", "^", "&&", "||", ",", "?", ":", "/", "%"};
  static const std::vector<std::string> atoms = {"0", "1", "2", "-1", "A", "B", "defined(A)", "defined A", "defined", "(", ")", "1u", "0x7fffffff", "2147483648", "1.5", "'a'", "\"s\"", "F(1)", "!", "~", "-", "1ull", "18446744073709551615", "__LINE__", "__COUNTER__", "true", "false", "x"};
  static const std::vector<std::string> dirs = {"#if", "#elif", "#if", "#ifdef", "#ifndef", "#define A", "#define F(x)", "#line", "#include", "#undef", "#error", "#pragma", "#else", "#endif"};
  std::string s = "\n" + r.pick(dirs);
  size_t n = r.below(8);
  for (size_t i = 0; i < n; ++i) {
    s += " " + r.pick(atoms);
    if (r.chance(70)) s += " " + r.pick(ops);
  }
  if (r.chance(10)) s += " \\";
  return s + "\n";
}

static size_t maxLen = 96 * 1024;

static std::string mutateOnce(Rng &r, const std::string &in, const std::vector<std::string> &corpus) {
  int which = (int) r.below(100);
  if (which < 58) {
    Toks t = lexLight(in);
    if (t.empty()) t.push_back("");
    size_t n = t.size();
    size_t i = r.below(n), j = r.below(n);
    size_t len = 1 + r.below(r.chance(80) ? 3 : 30);
    int m = (int) r.below(14);
    switch (m) {
      case 0: t.erase(t.begin() + i, t.begin() + std::min(n, i + len)); break;                         // delete
      case 1: { Toks c(t.begin() + i, t.begin() + std::min(n, i + len)); size_t reps = r.chance(90) ? 1 : 1 + r.below(200);
                for (size_t k = 0; k < reps; ++k) t.insert(t.begin() + i, c.begin(), c.end()); break; } // duplicate
      case 2: std::swap(t[i], t[j]); break;                                                           // swap
      case 3: t.insert(t.begin() + i, " " + r.pick(dictionary()) + " "); break;                        // insert
      case 4: t[i] = r.pick(dictionary()); break;                                                      // replace
      case 5: t.insert(t.begin() + i, " " + randAttr(r) + " "); break;                                 // attribute misuse
      case 6: { static const std::vector<std::string> br = {"(", ")", "{", "}", "[", "]", "<<<", ">>>"};
                if (r.chance(50)) t.insert(t.begin() + i, r.pick(br));
                else { for (size_t k = 0; k < n; ++k) { size_t q = (i + k) % n; if (t[q].size() == 1 && strchr("(){}[]", t[q][0])) { t.erase(t.begin() + q); break; } } }
                break; }                                                                                // unbalance
      case 7: { size_t e = std::min(n, i + len); std::string inner; for (size_t k = i; k < e; ++k) inner += t[k];
                t.erase(t.begin() + i, t.begin() + e); t.insert(t.begin() + i, nest(r, inner)); break; } // deep nesting
      case 8: { for (size_t k = 0; k < n; ++k) { size_t q = (i + k) % n; if (!t[q].empty() && isdigit((unsigned char) t[q][0])) { t[q] = r.chance(50) ? hugeLiteral(r) : r.pick(dictionary()); break; } } break; }
      case 9: t.insert(t.begin() + i, randPpLine(r)); break;                                           // preprocessor line
      case 10: { Toks c(t.begin() + i, t.begin() + std::min(n, i + len)); t.insert(t.begin() + j, c.begin(), c.end()); break; } // copy elsewhere
      case 11: { for (size_t k = 0; k < n; ++k) { size_t q = (i + k) % n; if (!t[q].empty() && t[q][0] == '@') { t[q] = r.chance(50) ? randAttr(r) : ""; break; } } break; } // retarget attribute
      case 12: { for (size_t k = 0; k < n; ++k) { size_t q = (i + k) % n; if (!t[q].empty() && (isalpha((unsigned char) t[q][0]) || t[q][0] == '_')) { t[q] = r.chance(50) ? randIdent(r) : r.pick(dictionary()); break; } } break; } // rename identifier
      default: { if (!corpus.empty()) { Toks o = lexLight(r.pick(corpus)); if (!o.empty()) { size_t a = r.below(o.size()); size_t b = std::min(o.size(), a + 1 + r.below(40)); t.insert(t.begin() + i, o.begin() + a, o.begin() + b); } } break; } // splice
    }
    return join(t);
  }
  if (which < 76) {
    // line level
    std::vector<std::string> ls; { std::string cur; for (char c : in) { cur += c; if (c == '\n') { ls.push_back(cur); cur.clear(); } } if (!cur.empty()) ls.push_back(cur); }
    if (ls.empty()) ls.push_back("\n");
    size_t n = ls.size(), i = r.below(n), j = r.below(n);
    switch (r.below(7)) {
      case 0: ls.erase(ls.begin() + i); break;
      case 1: ls.insert(ls.begin() + i, ls[j]); break;
      case 2: std::swap(ls[i], ls[j]); break;
      case 3: ls.insert(ls.begin() + i, randPpLine(r)); break;
      case 4: { std::string d = r.pick(dictionary()); ls.insert(ls.begin() + i, d + "\n"); break; }
      case 5: if (ls[i].size() > 1) { ls[i].insert(ls[i].size() - 1, "\\"); } break;                  // line continuation
      default: { if (!corpus.empty()) { const std::string &o = r.pick(corpus); size_t a = r.below(o.size() + 1); size_t b = std::min(o.size(), a + r.below(300)); ls.insert(ls.begin() + i, o.substr(a, b - a) + "\n"); } break; }
    }
    std::string s; for (auto &l : ls) s += l; return s;
  }
  if (which < 92) {
    // byte level
    std::string s = in;
    if (s.empty()) s = " ";
    size_t i = r.below(s.size());
    switch (r.below(8)) {
      case 0: s[i] = (char) (1 + r.below(255)); break;
      case 1: s.insert(s.begin() + i, (char) (1 + r.below(255))); break;
      case 2: s.erase(i, 1 + r.below(4)); break;
      case 3: s.resize(i); break;                                                                       // truncate: unterminated everything
      case 4: s[i] ^= (char) (1 << r.below(7)); break;
      case 5: { static const char sp[] = "\"'\\/*#@(){}[]<>;,\n\t\r\v\f\x7f\x80\xff?:"; s.insert(s.begin() + i, sp[r.below(sizeof(sp) - 1)]); break; }
      case 6: { size_t j = r.below(s.size()); if (i > j) std::swap(i, j); std::string mid = s.substr(i, j - i); if (mid.size() < 4096) s.insert(i, mid); break; }
      default: { size_t len = 1 + r.below(r.chance(90) ? 16 : 3000); char c = r.chance(50) ? s[i] : (char) (1 + r.below(255)); s.insert(i, std::string(len, c)); break; }
    }
    return s;
  }
  // whole-input wrappers
  switch (r.below(6)) {
    case 0: return nest(r, in);
    case 1: return "@kernel void w(const int N, float *a, float *b) {\n for (int o = 0; o < N; o += 16; @outer) {\n  for (int q = o; q < o + 16; ++q; @inner) {\n" + in + "\n  }\n }\n}\n";
    case 2: return "#if 1\n" + in + "\n#endif\n";
    case 3: return "#define W(x) x\nW(" + in + ")\n";
    case 4: return in + in;
    default: return "@kernel void w2(const int N, int *a @dim(N,N)) {\n for (int i = 0; i < N; ++i; " + randAttr(r) + ") {\n" + in + "\n }\n}\n";
  }
}

// Steering around the triggers of known findings owned by other properties (F17, F18, and integer
// division by a zero constant in general): in text that can reach the constant folder, a `/` or `%`
// whose right operand begins with something that can evaluate to zero is rewritten to `+`.
// This is deliberately coarse (it also removes harmless divisions by names); `--raw` turns it off.
static bool steerOn = true;
static std::string steer(const std::string &in) {
  if (!steerOn) return in;
  std::string s = in;
  size_t n = s.size();
  for (size_t i = 0; i < n; ++i) {
    if (s[i] != '/' && s[i] != '%') continue;
    if (s[i] == '/' && i + 1 < n && (s[i+1] == '/' || s[i+1] == '*')) { ++i; continue; }   // comment openers stay
    if (s[i] == '/' && i > 0 && (s[i-1] == '*' || s[i-1] == '/')) continue;                // comment closers stay
    if (s[i] == '%' || s[i] == '/') {
      if (i + 1 < n && s[i+1] == '=') { s[i] = '+'; continue; }
      size_t j = i + 1;
      while (j < n && (isspace((unsigned char) s[j]) || s[j] == '(' || s[j] == '+' || s[j] == '-' || s[j] == '!' || s[j] == '~' || s[j] == '\\')) ++j;
      // keep only divisions by a literal that starts with a non-zero digit and has no further operator risk
      bool safe = false;
      if (j < n && s[j] >= '1' && s[j] <= '9' && j == i + 1 + (size_t) (s[i+1] == ' ')) {
        size_t k = j; while (k < n && isdigit((unsigned char) s[k])) ++k;
        // "/ 2" is fine, "/ 2 - 2" could still be fine (precedence) ; "/ 2147483648u" etc. fine
        safe = (k - j) <= 9;
      }
      if (!safe) s[i] = '+';
    }
  }
  return s;
}

// --mild (quick tier): one small edit of a seed that keeps it close to a well-formed kernel — single
// token delete / duplicate / swap, identifier renaming, small integer literals, line delete /
// duplicate / swap.  No dictionary insertions, brackets, nesting, preprocessor lines or byte edits.
static bool mildOn = false;
static std::string mutateMild(Rng &r, const std::string &in) {
  if (r.chance(70)) {
    Toks t = lexLight(in);
    if (t.empty()) return in;
    size_t n = t.size(), i = r.below(n), j = r.below(n);
    // work on visible tokens only (skip whitespace)
    for (size_t k = 0; k < n && (t[i].empty() || isspace((unsigned char) t[i][0])); ++k) i = (i + 1) % n;
    for (size_t k = 0; k < n && (t[j].empty() || isspace((unsigned char) t[j][0])); ++k) j = (j + 1) % n;
    switch (r.below(5)) {
      case 0: t.erase(t.begin() + i); break;
      case 1: t.insert(t.begin() + i, t[i] + " "); break;
      case 2: std::swap(t[i], t[j]); break;
      case 3: { for (size_t k = 0; k < n; ++k) { size_t q = (i + k) % n; if (!t[q].empty() && (isalpha((unsigned char) t[q][0]) || t[q][0] == '_')) { t[q] = randIdent(r); break; } } break; }
      default: { static const std::vector<std::string> nums = {"0", "1", "2", "3", "4", "8", "16", "32", "64", "100", "1.5f", "0.5"};
                 for (size_t k = 0; k < n; ++k) { size_t q = (i + k) % n; if (!t[q].empty() && isdigit((unsigned char) t[q][0])) { t[q] = r.pick(nums); break; } } break; }
    }
    return join(t);
  }
  std::vector<std::string> ls; { std::string cur; for (char c : in) { cur += c; if (c == '\n') { ls.push_back(cur); cur.clear(); } } if (!cur.empty()) ls.push_back(cur); }
  if (ls.empty()) return in;
  size_t n = ls.size(), i = r.below(n), j = r.below(n);
  switch (r.below(3)) {
    case 0: ls.erase(ls.begin() + i); break;
    case 1: ls.insert(ls.begin() + i, ls[j]); break;
    default: std::swap(ls[i], ls[j]); break;
  }
  std::string s; for (auto &l : ls) s += l; return s;
}

static std::string mutate(Rng &r, const std::vector<std::string> &corpus) {
  if (mildOn) {
    std::string m = mutateMild(r, r.pick(corpus));
    size_t z0 = m.find('\0');
    if (z0 != std::string::npos) m.resize(z0);
    return steer(m);
  }
  std::string s = r.pick(corpus);
  size_t k = 1 + r.below(r.chance(70) ? 3 : 10);
  for (size_t i = 0; i < k; ++i) {
    s = mutateOnce(r, s, corpus);
    if (s.size() > maxLen) s.resize(maxLen);
  }
  // NUL ends a C string: keep the bytes before it
  size_t z = s.find('\0');
  if (z != std::string::npos) s.resize(z);
  return steer(s);
}

//---[ files ]----------------------------------------------------------------------------------
static bool readFile(const std::string &p, std::string &out) {
  std::ifstream f(p.c_str(), std::ios::binary);
  if (!f) return false;
  std::stringstream ss; ss << f.rdbuf(); out = ss.str();
  return true;
}
static void writeFile(const std::string &p, const std::string &s) {
  std::ofstream f(p.c_str(), std::ios::binary); f << s;
}
static std::vector<std::string> listDir(const std::string &d) {
  std::vector<std::string> v;
  DIR *dir = opendir(d.c_str());
  if (!dir) return v;
  while (dirent *e = readdir(dir)) { if (e->d_name[0] != '.') v.push_back(d + "/" + e->d_name); }
  closedir(dir);
  std::sort(v.begin(), v.end());
  return v;
}
static uint64_t fnv(const std::string &s) { uint64_t h = 1469598103934665603ull; for (unsigned char c : s) { h ^= c; h *= 1099511628211ull; } return h; }
static std::string oneLine(std::string s) { for (char &c : s) if (c == '\n' || c == '\t' || c == '\r') c = ' '; return s; }

//---[ minimiser ]------------------------------------------------------------------------------
static long minBudget = 4000;
static bool sameSig(const std::string &src, const std::string &sig) {
  if (minBudget-- <= 0) return false;
  Outcome o = execute(src);
  return o.status != "ok" && o.sig == sig;
}
template <class Seq, class Join>
static Seq ddmin(Seq parts, Join joiner, const std::string &sig) {
  size_t n = 2;
  while (parts.size() >= 2 && minBudget > 0) {
    size_t chunk = std::max<size_t>(1, parts.size() / n);
    bool reduced = false;
    for (size_t s = 0; s < parts.size(); s += chunk) {
      Seq cand(parts.begin(), parts.begin() + s);
      cand.insert(cand.end(), parts.begin() + std::min(parts.size(), s + chunk), parts.end());
      if (sameSig(joiner(cand), sig)) { parts = cand; n = std::max<size_t>(n - 1, 2); reduced = true; break; }
      if (minBudget <= 0) break;
    }
    if (!reduced) { if (chunk == 1) break; n = std::min(parts.size(), n * 2); }
  }
  return parts;
}
static std::string minimise(std::string src, const std::string &sig) {
  auto joinV = [](const std::vector<std::string> &v) { std::string s; for (auto &x : v) s += x; return s; };
  for (int round = 0; round < 3; ++round) {
    size_t before = src.size();
    { std::vector<std::string> ls; std::string cur; for (char c : src) { cur += c; if (c == '\n') { ls.push_back(cur); cur.clear(); } } if (!cur.empty()) ls.push_back(cur);
      src = joinV(ddmin(ls, joinV, sig)); }
    { Toks t = lexLight(src); src = joinV(ddmin(t, joinV, sig)); }
    if (src.size() <= 400) { std::vector<std::string> bs; for (char c : src) bs.push_back(std::string(1, c)); src = joinV(ddmin(bs, joinV, sig)); }
    if (src.size() == before) break;
  }
  return src;
}

//---[ main ]-----------------------------------------------------------------------------------
static void usage() { fprintf(stderr, "usage: fuzz_okl run|fuzz|min|mutate ... (see the header of harness/fuzz_okl.cpp)\n"); exit(2); }

int main(int argc, char **argv) {
  if (argc < 2) usage();
  std::string mode = argv[1];
  std::string corpusDir, outDir, sig;
  uint64_t seed = 0; long iters = -1; double secs = -1; long count = 0;
  std::vector<std::string> files;
  for (int i = 2; i < argc; ++i) {
    std::string a = argv[i];
    auto val = [&]() -> std::string { if (i + 1 >= argc) usage(); return argv[++i]; };
    if (a == "--seed") seed = strtoull(val().c_str(), NULL, 10);
    else if (a == "--corpus") corpusDir = val();
    else if (a == "--out") outDir = val();
    else if (a == "--iters") iters = atol(val().c_str());
    else if (a == "--secs") secs = atof(val().c_str());
    else if (a == "--cpu") cpuLimit = atoi(val().c_str());
    else if (a == "--count") count = atol(val().c_str());
    else if (a == "--sig") sig = val();
    else if (a == "--raw") steerOn = false;
    else if (a == "--mild") mildOn = true;
    else if (a == "--maxlen") maxLen = (size_t) atol(val().c_str());
    else if (a == "--parsers") parserMask = (unsigned) strtoul(val().c_str(), NULL, 0);
    else if (a == "--budget") minBudget = atol(val().c_str());
    else files.push_back(a);
  }

  if (mode == "mutate") {
    std::vector<std::string> corpus;
    for (auto &f : listDir(corpusDir)) { std::string s; if (readFile(f, s)) corpus.push_back(s); }
    if (corpus.empty()) { fprintf(stderr, "empty corpus\n"); return 2; }
    Rng r(seed);
    for (long k = 0; k < count; ++k) { char b[64]; snprintf(b, sizeof b, "/m%06ld", k); writeFile(outDir + b, mutate(r, corpus)); }
    return 0;
  }

  signal(SIGPIPE, SIG_IGN);
  makeParsers();
  setupShared();
  zeroCounters();

  if (mode == "run") {
    int bad = 0;
    for (auto &f : files) {
      std::string s;
      if (!readFile(f, s)) { printf("%s\tunreadable\t-\t0/0\n", f.c_str()); continue; }
      size_t z = s.find('\0'); if (z != std::string::npos) s.resize(z);
      Outcome o = execute(s);
      printf("%s\t%s\t%s\t%d/%d/%d\t%s\n", f.c_str(), o.status.c_str(), o.sig.empty() ? "-" : o.sig.c_str(), o.accepted, o.reached, o.threw,
             oneLine(o.detail).substr(0, 400).c_str());
      fflush(stdout);
      if (getenv("FUZZ_VERBOSE")) printf("#cpu_ms=%d\n#log: %s\n", o.cpuMs, o.detail.c_str());
      if (o.status != "ok") bad = 1;
    }
    for (auto &b : benignCount) printf("#benign\t%s\t%ld\n", b.first.c_str(), b.second);
    return bad;
  }

  if (mode == "min") {
    if (files.size() != 2 || sig.empty()) usage();
    std::string s;
    if (!readFile(files[0], s)) return 2;
    size_t z = s.find('\0'); if (z != std::string::npos) s.resize(z);
    long b0 = minBudget;
    Outcome o = execute(s);
    if (o.status == "ok" || o.sig != sig) { printf("not-reproduced\t%s\t%s\n", o.status.c_str(), o.sig.c_str()); return 1; }
    // most failures are in the shared front end: minimise with the first single translator that shows it
    unsigned full = parserMask;
    for (int p = 0; p < NP; ++p) {
      if (!(full & (1u << p))) continue;
      parserMask = 1u << p;
      Outcome q = execute(s);
      if (q.status != "ok" && q.sig == sig) break;
      parserMask = full;
    }
    std::string m = minimise(s, sig);
    if (parserMask != full) {
      parserMask = full;
      Outcome q = execute(m);
      if (q.status == "ok" || q.sig != sig) m = s;    // must still fail with all translators
    }
    writeFile(files[1], m);
    printf("minimised\t%zu\t%zu\t%ld\n", s.size(), m.size(), b0 - minBudget);
    return 0;
  }

  if (mode == "fuzz") {
    std::vector<std::string> corpus;
    for (auto &f : listDir(corpusDir)) { std::string s; if (readFile(f, s)) { size_t z = s.find('\0'); if (z != std::string::npos) s.resize(z); corpus.push_back(steerOn ? steer(s) : s); } }
    if (corpus.empty()) { fprintf(stderr, "empty corpus\n"); return 2; }
    size_t seeds = corpus.size();
    Rng r(seed);
    std::set<uint64_t> seenInputs;
    std::map<std::string, int> sigCount;
    long execs = 0, distinct = 0, reachedN = 0, acceptedAll = 0, acceptedSome = 0, rejected = 0, threwN = 0, crashes = 0, timeouts = 0, covAdds = 0,
         flaky = 0, seedReached = 0, candidates = 0, maxMs = 0;
    long accPer[NP] = {0};
    struct timespec t0; clock_gettime(CLOCK_MONOTONIC, &t0);
    auto elapsed = [&]() { struct timespec t; clock_gettime(CLOCK_MONOTONIC, &t); return (t.tv_sec - t0.tv_sec) + 1e-9 * (t.tv_nsec - t0.tv_nsec); };
    std::vector<std::string> samples;
    // while calibrating on the seeds (small fixed programs that take milliseconds): 60 s of CPU time, so
    // that a seed on which the front end no longer terminates is confirmed (3 x) and reported within
    // the run instead of stalling it; afterwards max(--cpu, 100 x slowest terminating seed)
    int limit = 60;
    long produced = 0;
    size_t nextSeed = 0;
    bool calibrated = false;
    for (;;) {
      std::vector<std::string> batch;
      bool seedBatch = nextSeed < seeds;
      if (seedBatch) {
        while (nextSeed < seeds && batch.size() < (size_t) BATCH) batch.push_back(corpus[nextSeed++]);
      } else {
        if (!calibrated) {
          calibrated = true;
          limit = std::max<long>(cpuLimit, (100 * maxMs + 999) / 1000);
          printf("CALIBRATION\tslowest_seed_ms=%ld\tcpu_limit_s=%d\tseed_pass_s=%.1f\n", maxMs, limit, elapsed()); fflush(stdout);
          clock_gettime(CLOCK_MONOTONIC, &t0);     // the time budget is for the mutation phase
        }
        if (iters >= 0 && produced >= iters) break;
        if (secs >= 0 && elapsed() >= secs) break;
        if (iters < 0 && secs < 0) break;
        size_t want = BATCH;
        if (iters >= 0) want = std::min<long>(want, iters - produced);
        if (secs >= 0) want = std::min<size_t>(want, 16);      // keep the time budget responsive
        for (size_t q = 0; q < want; ++q) {
          std::string in = mutate(r, corpus);
          ++produced;
          if (seenInputs.count(fnv(in))) continue;
          batch.push_back(in);
        }
        if (batch.empty()) continue;
      }
      std::vector<Outcome> outs;
      runBatch(batch, limit, outs);
      for (size_t j = 0; j < batch.size(); ++j) {
        const std::string &in = batch[j];
        Outcome o = outs[j];
        uint64_t h = fnv(in);
        bool fresh = seenInputs.insert(h).second;
        ++execs;
        if (o.status != "ok") {
          // candidate: confirm in a fresh process, alone; a time-out must repeat with three times the limit
          ++candidates;
          Outcome c = execute(in, o.status == "timeout" ? 3 * limit : limit);
          ++execs;
          if (c.status == "ok" || c.sig != o.sig) {
            Outcome c2 = (c.status == "ok") ? c : execute(in, c.status == "timeout" ? 3 * limit : limit);
            if (c2.status == "ok" || c2.sig != c.sig) {
              ++flaky;
              printf("FLAKY\t%s\t%s\t%s\n", o.sig.c_str(), c.status.c_str(), c.sig.c_str()); fflush(stdout);
              o = c2; if (o.status != "ok") { o.status = "ok"; }
            } else o = c2;
          } else o = c;
        }
        if (fresh) {
          ++distinct;
          if (o.reached) { ++reachedN; if (seedBatch) ++seedReached; }
          if (o.accepted == 0x7f) ++acceptedAll; else if (o.accepted) ++acceptedSome; else ++rejected;
          if (o.threw) ++threwN;
          for (int p = 0; p < NP; ++p) if (o.accepted & (1 << p)) ++accPer[p];
        }
        if (o.status != "ok") {
          if (o.status == "timeout") ++timeouts; else ++crashes;
          int c = sigCount[o.sig]++;
          if (c < 3 && !outDir.empty()) {   // keep a few inputs per signature; the plugin minimises the smallest
            char b[128]; snprintf(b, sizeof b, "/fail-%016llx", (unsigned long long) h);
            writeFile(outDir + b, in);
            printf("FAIL\t%s\t%s\t%s\t%s\n", (outDir + b).c_str(), o.status.c_str(), o.sig.c_str(), oneLine(o.detail).substr(0, 600).c_str());
            fflush(stdout);
          }
          continue;
        }
        if (seedBatch && o.status != "timeout" && o.cpuMs > maxMs) maxMs = o.cpuMs;
        if (o.newcov > 0 && !seedBatch && !mildOn && in.size() <= maxLen) { corpus.push_back(in); ++covAdds; }
        if (!seedBatch && samples.size() < 6 && (execs % 37) == 0) samples.push_back(in.substr(0, 300));
      }
    }
    size_t covered = 0;
    for (size_t i = 0; i < covSize; ++i) if (seenCov[i]) ++covered;
    printf("STATS\texecs=%ld\tdistinct=%ld\treached=%ld\tseed_reached=%ld\tseeds=%zu\taccepted_all=%ld\taccepted_some=%ld\trejected=%ld\tthrew=%ld\tcrashes=%ld\ttimeouts=%ld\t"
           "candidates=%ld\tflaky=%ld\tcov_edges=%zu\tcov_total=%zu\tcorpus_added=%ld\tcpu_limit=%d\tsecs=%.1f",
           execs, distinct, reachedN, seedReached, seeds, acceptedAll, acceptedSome, rejected, threwN, crashes, timeouts, candidates, flaky, covered, covSize, covAdds, limit, elapsed());
    for (int p = 0; p < NP; ++p) printf("\tacc_%s=%ld", parserNames[p], accPer[p]);
    printf("\n");
    for (auto &s : sigCount) printf("SIG\t%d\t%s\n", s.second, s.first.c_str());
    for (auto &b : benignCount) printf("BENIGN\t%ld\t%s\n", b.second, b.first.c_str());
    for (auto &s : samples) printf("SAMPLE\t%s\n", oneLine(s).c_str());
    if (!outDir.empty() && covSize) {
      // export the inputs that added coverage so that a later run can start from them
      for (size_t i = seeds; i < corpus.size(); ++i) { char b[128]; snprintf(b, sizeof b, "/cov-%016llx", (unsigned long long) fnv(corpus[i])); writeFile(outDir + b, corpus[i]); }
    }
    return 0;
  }
  usage();
  return 2;
}
