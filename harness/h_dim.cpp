// C19 harness: `@dim` / `@dimOrder` rewrites done by the real parsers.
//
//   D  <id> <k> <dim>*k (none | <order>*k) <arg>*k
//        kernel with `int *x @dim(dims…) [@dimOrder(order…)]` and the access x(args…); prints, for each of the
//        seven translators, the rewritten statement `const long int idx = &x[…] - x;`.  With H_LOOPS_DUMP=1 the
//        complete translated sources are appended (` @@SRC …`, hex) for the execution oracle.
//   DO <order arguments…>      is `@dim(2,…,2) @dimOrder(arguments…)` accepted (dimOrder::isValid)?  -> accept | reject
//        arguments are C integer literals / constant expressions as text, e.g. 0 1 2, 1 1, -1 0, 0+1 0
//   dims / args are Polish expressions (loops_common.hpp); order entries are plain non-negative integers.
#include "loops_common.hpp"

static const char *ARGS = "const int N, const int M, const int a, const int b, const int c, const int s, const int t";

int main() {
  const bool dumpMode = getenv("H_LOOPS_DUMP") != NULL;
  return hp::run(
    []() {},
    [dumpMode](const std::vector<std::string> &t) -> std::string {
      if (t.size() >= 2 && t[0] == "DO") {
        std::string ord, dims;
        for (size_t k = 1; k < t.size(); ++k) {
          ord += (k > 1 ? ", " : "") + t[k];
          dims += (k > 1 ? ", 2" : "2");
        }
        std::string okl = std::string("@kernel void k(") + ARGS + ", int *x @dim(" + dims + ") @dimOrder(" + ord + ")) {\n"
          "  for (int o = 0; o < 2; ++o; @outer) {\n    for (int i = 0; i < 2; ++i; @inner) {\n      rec(o, i);\n    }\n  }\n}\n";
        // the attribute is validated while parsing, the same way by every parser: serial is enough,
        // cuda is run as well so that a backend difference would show
        // NB: a rejected attribute prints "[@dimOrder] ..." but does NOT clear parser.success: the annotated
        // argument is silently dropped from the kernel signature instead (reported to the owners of C16/C22).
        // Acceptance is therefore observed as "the parser succeeded and `x` is still a parameter".
        lc::Translation a = lc::translate("serial", okl), b = lc::translate("cuda", okl);
        const bool accA = a.ok && a.device.find("int * x") != std::string::npos;
        const bool accB = b.ok && b.device.find("int * x") != std::string::npos;
        if (accA != accB) hp::oracle("serial and cuda parsers disagree about @dimOrder(" + ord + ")");
        return accA ? "accept" : "reject";
      }
      if (t.size() < 4 || t[0] != "D") return "bad-op";
      const std::string id = t[1];
      const size_t k = (size_t) atoi(t[2].c_str());
      if (k < 1 || k > 8) return "bad-op";
      size_t p = 3;
      std::vector<std::string> dims, order, args;
      for (size_t j = 0; j < k && p < t.size(); ++j, ++p) {
        std::string e;
        if (!lc::exprText(t[p], e)) return "bad-op";
        dims.push_back(e);
      }
      if (p < t.size() && t[p] == "none") ++p;
      else for (size_t j = 0; j < k && p < t.size(); ++j, ++p) order.push_back(t[p]);
      for (size_t j = 0; j < k && p < t.size(); ++j, ++p) {
        std::string e;
        if (!lc::exprText(t[p], e)) return "bad-op";
        args.push_back(e);
      }
      if (dims.size() != k || args.size() != k || p != t.size() || (!order.empty() && order.size() != k)) return "bad-op";
      std::string attr = " @dim(";
      for (size_t j = 0; j < k; ++j) attr += (j ? ", " : "") + dims[j];
      attr += ")";
      if (!order.empty()) {
        attr += " @dimOrder(";
        for (size_t j = 0; j < k; ++j) attr += (j ? ", " : "") + order[j];
        attr += ")";
      }
      std::string call = "x(";
      for (size_t j = 0; j < k; ++j) call += (j ? ", " : "") + args[j];
      call += ")";
      // a decoy kernel in the same source, BEFORE the kernel under test, with a same-named variable of the same
      // arity but the reversed index order: per-variable state must not leak between variables of equal name
      // (seeded change C19-m3 memoised the evaluated @dimOrder by variable name and arity)
      std::string decoy;
      if (k >= 2) {
        std::string dattr = " @dim(";
        for (size_t j = 0; j < k; ++j) dattr += (j ? ", " : "") + dims[j];
        dattr += ") @dimOrder(";
        for (size_t j = 0; j < k; ++j) dattr += (j ? ", " : "") + (order.empty() ? std::to_string(k - 1 - j) : order[k - 1 - j]);
        dattr += ")";
        std::string dcall = "x(";
        for (size_t j = 0; j < k; ++j) dcall += (j ? ", 0" : "0");
        dcall += ")";
        decoy = "@kernel void kpre" + id + "(" + ARGS + ", int *x" + dattr + ") {\n"
          "  for (int o = 0; o < 1; ++o; @outer) {\n    for (int i = 0; i < 1; ++i; @inner) {\n"
          "      const long pre = &" + dcall + " - x;\n      rec(" + id + ", pre);\n    }\n  }\n}\n";
      }
      std::string okl = decoy + "@kernel void k" + id + "(" + ARGS + ", int *x" + attr + ") {\n"
        "  for (int o = 0; o < 1; ++o; @outer) {\n    for (int i = 0; i < 1; ++i; @inner) {\n"
        "      const long idx = &" + call + " - x;\n      rec(" + id + ", idx);\n    }\n  }\n}\n";
      std::string out = "ok", dump = " @@SRC okl=" + hp::hex(okl);
      for (int m = 0; m < lc::NMODES; ++m) {
        std::string mode = lc::MODES[m];
        lc::Translation tr = lc::translate(mode, okl);
        if (!tr.ok) { out += " @@ " + mode + " ERR"; continue; }
        std::string line = "-";
        for (const std::string &raw : lc::splitc(tr.device, '\n')) {
          std::string l = lc::trim(raw);
          if (lc::starts(l, "const long int idx = ")) line = l;
        }
        out += " @@ " + mode + " " + line;
        if (dumpMode) {
          dump += " " + mode + "=" + hp::hex(tr.device);
          if (m >= 2) dump += " " + mode + ".launcher=" + hp::hex(tr.launcher);
        }
      }
      return dumpMode ? out + dump : out;
    });
}
