// C25 harness: histories of path reads/writes, has, remove, set and += on one real occa::json `J`.
//   new <tree> | touch <path> | w <path> <tree> | wt <path> <leaf> (typed operator=) | rc <path> (const [])
//   get <path> int|bool|str|json <default> | has <path> | size | sizeat <path> | rm <path>
//   set <key> <tree> | setat <path> <key> <tree> | merge <tree> | mergeat <path> <tree> | plus <tree>
//   show | dump <indent> | keys            (paths and keys are hex)
// Oracle: a nested-dictionary reference `R` (jsonproto.hpp: std::map based, written from the property text)
// is updated by every operation and compared with `J` after it; reads, has, size are compared with `R`
// directly; const operations must leave `J` unchanged; an operation that throws must leave `J` unchanged.
#include "jsonproto.hpp"
using namespace jp;

static json J;
static Ref R;
static bool inSync = true;       // false after an operation the dictionary reference has no opinion on

static void check(const std::string &op) {
  if (!inSync) { R = toRef(J); inSync = true; return; }
  Ref now = toRef(J);
  if (now != R) hp::oracle("nested-dictionary reference disagrees after " + op + ": json=" + showRef(now) + " dict=" + showRef(R));
}

static bool typedAssign(json &dst, const std::string &k) {
  std::string b;
  if (k == "T") { dst = true; return true; }
  if (k == "F") { dst = false; return true; }
  if (startsWith(k, "S:")) { if (!hp::unhex(k.substr(2), b)) return false; dst = b; return true; }
  if (startsWith(k, "f32:")) { uint32_t u = (uint32_t) std::strtoull(k.c_str() + 4, NULL, 16); float f; std::memcpy(&f, &u, 4); dst = f; return true; }
  if (startsWith(k, "f64:")) { uint64_t u = std::strtoull(k.c_str() + 4, NULL, 16); double d; std::memcpy(&d, &u, 8); dst = d; return true; }
  size_t c = k.find(':');
  if (c == std::string::npos) return false;
  std::string ty = k.substr(0, c), v = k.substr(c + 1);
  long long s = std::strtoll(v.c_str(), NULL, 10);
  unsigned long long u = (v.size() && v[0] == '-') ? (unsigned long long) s : std::strtoull(v.c_str(), NULL, 10);
  if (ty == "i8") dst = (int8_t) u; else if (ty == "u8") dst = (uint8_t) u;
  else if (ty == "i16") dst = (int16_t) u; else if (ty == "u16") dst = (uint16_t) u;
  else if (ty == "i32") dst = (int32_t) u; else if (ty == "u32") dst = (uint32_t) u;
  else if (ty == "i64") dst = (int64_t) u; else if (ty == "u64") dst = (uint64_t) u;
  else return false;
  return true;
}

static std::string convInt(const json &v) {
  if (v.type == json::number_) {
    const occa::primitive &p = v.number();
    double d = 0; bool fl = false;
    if (p.type == occa::primitiveType::float_) { d = p.value.float_; fl = true; }
    if (p.type == occa::primitiveType::double_) { d = p.value.double_; fl = true; }
    if (fl && !(d > -2147483649.0 && d < 2147483648.0)) return "ub";     // float -> int out of range is UB: not executed
  }
  return std::to_string((int) v);
}

int main() {
  return hp::run(
    []() { J = json(); R = Ref(); inSync = true; },
    [](const toks_t &t) -> std::string {
      if (t.empty()) return "bad-op";
      const std::string &op = t[0];
      std::string p, k;
      json v;
      const std::string before = show(J);
      const json &CJ = J;
      try {
        if (op == "new") {
          if (!readTree1(t, 1, v)) return "bad-op";
          J = v; R = toRef(J); inSync = true;
          return "ok";
        }
        if (op == "show" && t.size() == 1) return show(J);
        if (op == "dump" && t.size() == 2) return hp::hex(CJ.dump(std::atoi(t[1].c_str())));
        if (op == "keys" && t.size() == 1) {
          std::string o = "["; bool first = true;
          for (const std::string &key : CJ.keys()) { if (!first) o += ","; first = false; o += hp::hex(key); }
          return o + "]";
        }
        if (op == "size" && t.size() == 1) {
          int n = CJ.size();
          if (inSync && R.k != Ref::LEAF && n != (int) (R.k == Ref::OBJ ? R.m.size() : 0)) hp::oracle("size() disagrees with the dictionary");
          return std::to_string(n);
        }
        if (t.size() < 2 || !hp::unhex(t[1], p)) {
          if (op != "merge" && op != "plus") return "bad-op";
        }
        std::vector<std::string> ks = splitKeys(p);
        if (op == "touch" && t.size() == 2) {
          bool writable = refWritable(R, ks);
          try { J[p]; }
          catch (occa::exception &e) {
            if (writable && inSync) hp::oracle("non-const operator[] throws although no leaf is in the way");
            if (show(J) != before) hp::oracle("operator[] threw and changed the value");
            return errName(e);
          }
          if (!writable && inSync) hp::oracle("non-const operator[] went through a non-object value");
          refTouch(R, ks);
          check(op);
          return "ok";
        }
        if ((op == "w" || op == "wt") && t.size() >= 3) {
          if (!readTree1(t, 2, v)) return "bad-op";
          bool writable = refWritable(R, ks);
          try {
            if (op == "w") J[p] = v;
            else if (!typedAssign(J[p], t[2])) return "bad-op";
          } catch (occa::exception &e) {
            if (writable && inSync) hp::oracle("write throws although no leaf is in the way");
            if (show(J) != before) hp::oracle("write threw and changed the value");
            return errName(e);
          }
          if (!writable && inSync) hp::oracle("write went through a non-object value");
          *refTouch(R, ks) = toRef(v);
          check(op);
          // read after write
          if (show(CJ[p]) != show(v) && op == "w") hp::oracle("read after write returns a different value");
          return "ok";
        }
        if (op == "rc" && t.size() == 2) {
          const json &r = CJ[p];
          std::string out = show(r);
          const Ref *f = refFind(R, ks);
          Ref expect = f ? *f : Ref();
          if (inSync && toRef(r) != expect) hp::oracle("const read disagrees with the dictionary");
          if (show(J) != before) hp::oracle("const operator[] changed the value");
          return out;
        }
        if (op == "get" && t.size() >= 4) {
          if (!readTree1(t, 3, v)) return "bad-op";
          std::string out;
          const Ref *f = refFind(R, ks);
          bool defined = f && f->k != Ref::UNDEF;
          if (t[2] == "int") {
            // the default is converted first; a float -> int conversion out of range is UB and not executed
            out = convInt(v);
            if (out != "ub") {
              json cur = CJ[p];
              if (cur.isInitialized()) out = convInt(cur);
              if (out != "ub") out = std::to_string(CJ.get<int>(p, (int) v));
            }
          } else if (t[2] == "bool") {
            out = CJ.get<bool>(p, (bool) v) ? "1" : "0";
          } else if (t[2] == "str") {
            out = hp::hex(CJ.get<std::string>(p, (std::string) v));
          } else {
            json g = CJ.get<json>(p, v);
            out = show(g);
            if (inSync && toRef(g) != (defined ? *f : toRef(v))) hp::oracle("get<json> disagrees with the dictionary (stored value if defined, else the default)");
          }
          if (show(J) != before) hp::oracle("get<T> changed the value");
          return out;
        }
        if (op == "has" && t.size() == 2) {
          bool h = CJ.has(p);
          if (inSync && h != (refFind(R, ks) != NULL)) hp::oracle("has() disagrees with the dictionary");
          if (show(J) != before) hp::oracle("has() changed the value");
          return h ? "1" : "0";
        }
        if (op == "sizeat" && t.size() == 2) {
          int n = CJ[p].size();
          const Ref *f = refFind(R, ks);
          if (inSync && (!f || f->k != Ref::LEAF) && n != (int) (f && f->k == Ref::OBJ ? f->m.size() : 0)) hp::oracle("size() of a member disagrees with the dictionary");
          return std::to_string(n);
        }
        if (op == "rm" && t.size() == 2) {
          J.remove(p);
          refRemove(R, ks);
          check(op);
          if (!ks.empty() && CJ.has(p)) hp::oracle("has() is still true after remove()");
          return "ok";
        }
        if (op == "set" && t.size() >= 3) {
          if (!readTree1(t, 2, v)) return "bad-op";
          J.set(p, v);
          if (R.k != Ref::OBJ) { R = Ref(); R.k = Ref::OBJ; }
          R.m[p.substr(0, p.find('\0'))] = toRef(v);
          check(op);
          return "ok";
        }
        if (op == "setat" && t.size() >= 4) {
          if (!hp::unhex(t[2], k) || !readTree1(t, 3, v)) return "bad-op";
          bool writable = refWritable(R, ks);
          try { J[p].set(k, v); }
          catch (occa::exception &e) {
            if (writable && inSync) hp::oracle("operator[] throws although no leaf is in the way");
            if (show(J) != before) hp::oracle("operator[] threw and changed the value");
            return errName(e);
          }
          Ref *n = refTouch(R, ks);
          if (n->k != Ref::OBJ) { *n = Ref(); n->k = Ref::OBJ; }
          n->m[k.substr(0, k.find('\0'))] = toRef(v);
          check(op);
          return "ok";
        }
        if ((op == "merge" || op == "plus") && t.size() >= 2) {
          if (!readTree1(t, 1, v)) return "bad-op";
          bool dict = (R.k != Ref::LEAF) && (v.type == json::object_ || v.type == json::none_);
          Ref expect = R;
          if (dict && v.type == json::object_) { if (expect.k == Ref::UNDEF) expect.k = Ref::OBJ; refMerge(expect, toRef(v)); }
          if (op == "plus") {
            json s = CJ + v;
            if (inSync && dict && toRef(s) != expect) hp::oracle("operator+ disagrees with the recursive right-biased dictionary merge");
            if (show(J) != before) hp::oracle("operator+ changed its left operand");
            return show(s);
          }
          try { J += v; }
          catch (occa::exception &e) {
            if (dict && inSync) hp::oracle("+= of an object throws");
            if (show(J) != before) hp::oracle("+= threw and changed the value");
            return errName(e);
          }
          if (dict) R = expect; else inSync = false;
          check(op);
          return "ok";
        }
        if (op == "mergeat" && t.size() >= 3) {
          if (!readTree1(t, 2, v)) return "bad-op";
          bool writable = refWritable(R, ks);
          if (!writable) {
            try { J[p] += v; } catch (occa::exception &e) {
              if (show(J) != before) hp::oracle("operator[] threw and changed the value");
              return errName(e);
            }
            if (inSync) hp::oracle("non-const operator[] went through a non-object value");
            inSync = false; check(op);
            return "ok";
          }
          Ref *n = refTouch(R, ks);
          bool dict = (n->k != Ref::LEAF) && (v.type == json::object_ || v.type == json::none_);
          if (dict && v.type == json::object_) { if (n->k == Ref::UNDEF) n->k = Ref::OBJ; refMerge(*n, toRef(v)); }
          try { J[p] += v; }
          catch (occa::exception &e) {
            if (dict && inSync) hp::oracle("+= of an object throws");
            inSync = false; check(op);      // the touch persists; the dictionary has no opinion on the failed sum
            return errName(e);
          }
          if (!dict) inSync = false;
          check(op);
          return "ok";
        }
      } catch (occa::exception &e) {
        if (show(J) != before) hp::oracle("an operation threw and changed the value");
        return errName(e);
      }
      return "bad-op";
    });
}
