// C14 correspondence harness: constant folding by the real expression parser + exprNode::evaluate().
//
// op lines (see lean/Driver/Prim.lean for the model side):
//   E <expected> <prefix form ...> ; <expression text ...>
//        the text is tokenized by the real tokenizer, parsed by the real expressionParser and
//        evaluated; the prefix form is for the model only (ignored here).  <expected> is what the
//        host compiler computed for the same text (filled in by tools/checks/C14.py):
//          T:<tag>:<hexbits>   g++ accepts the text as a constant expression with this type and value
//          U                   g++ rejects it (undefined behaviour or ill-formed)
//          -                   unknown (not compared)
//   P <literal text>           primitive::load(text) with the sign included (the json / string path)
// observation:  "<tag> <hexbits>" | err (occa::exception) | trap (SIGFPE) | none | parse-fail | noeval
// oracles (model independent):
//   * value/type differs from the host compiler's for an expression the host compiler accepts
//   * error or trap on an expression the host compiler accepts (covers "operands that C++ does not
//     evaluate are not evaluated": the only observable effect of evaluating them is an error/trap)
//   * UBSan report inside the evaluator on an expression the host compiler accepts
//   * evaluate() of a clone, or a second evaluate(), gives a different result
#include <occa/internal/lang/expr.hpp>
#include <occa/internal/lang/tokenizer.hpp>
#include <occa/types/primitive.hpp>
#include <occa/utils/exception.hpp>
#include <csetjmp>
#include <csignal>
#include <cmath>
#include "hproto.hpp"

using namespace occa;
using namespace occa::lang;

static sigjmp_buf fpeJmp;
static volatile sig_atomic_t fpeArmed = 0;
static volatile int ubsanReports = 0;

extern "C" void __ubsan_on_report(void) { ++ubsanReports; }

static void onFpe(int) {
  if (fpeArmed) siglongjmp(fpeJmp, 1);
  _exit(97);
}

// occa prints parser diagnostics (debugPrint of the operator/output stacks) on std::cout, which is
// the protocol channel: silence std::cout while occa code runs
struct Quiet {
  std::ostringstream sink;
  std::streambuf *old;
  Quiet() : sink(), old(std::cout.rdbuf(sink.rdbuf())) {}
  ~Quiet() { std::cout.rdbuf(old); }
};

static std::string hex64(uint64_t v) {
  char b[32];
  snprintf(b, sizeof(b), "%llx", (unsigned long long) v);
  return b;
}

// canonical (type tag, bits); NaNs are canonicalised (payload and sign are not part of the property)
static std::string show(const primitive &p) {
  switch (p.type) {
    case primitiveType::none:    return "none";
    case primitiveType::bool_:   return std::string("bool ") + (p.value.bool_ ? "1" : "0");
    case primitiveType::int8_:   return "i8 "  + hex64((uint8_t)  p.value.int8_);
    case primitiveType::uint8_:  return "u8 "  + hex64(p.value.uint8_);
    case primitiveType::int16_:  return "i16 " + hex64((uint16_t) p.value.int16_);
    case primitiveType::uint16_: return "u16 " + hex64(p.value.uint16_);
    case primitiveType::int32_:  return "i32 " + hex64((uint32_t) p.value.int32_);
    case primitiveType::uint32_: return "u32 " + hex64(p.value.uint32_);
    case primitiveType::int64_:  return "i64 " + hex64((uint64_t) p.value.int64_);
    case primitiveType::uint64_: return "u64 " + hex64(p.value.uint64_);
    case primitiveType::float_: {
      float f = p.value.float_;
      if (std::isnan(f)) return "f32 7fc00000";
      uint32_t u; memcpy(&u, &f, 4);
      return "f32 " + hex64(u);
    }
    case primitiveType::double_: {
      double d = p.value.double_;
      if (std::isnan(d)) return "f64 7ff8000000000000";
      uint64_t u; memcpy(&u, &d, 8);
      return "f64 " + hex64(u);
    }
    case primitiveType::ptr:     return "ptr";
    default:                     return "badtype";
  }
}

static std::string evalGuarded(exprNode *expr) {
  std::string out;
  fpeArmed = 1;
  if (sigsetjmp(fpeJmp, 1)) {
    fpeArmed = 0;
    return "trap";
  }
  try {
    primitive p = expr->evaluate();
    out = show(p);
  } catch (occa::exception &e) {
    out = "err";
  }
  fpeArmed = 0;
  return out;
}

static std::string joinFrom(const std::vector<std::string> &t, size_t from) {
  std::string s;
  for (size_t i = from; i < t.size(); ++i) { if (i > from) s += ' '; s += t[i]; }
  return s;
}

int main() {
  struct sigaction sa;
  memset(&sa, 0, sizeof(sa));
  sa.sa_handler = onFpe;
  sigemptyset(&sa.sa_mask);
  sa.sa_flags = SA_NODEFER;
  sigaction(SIGFPE, &sa, NULL);

  return hp::run(
    []() {},
    [](const std::vector<std::string> &t) -> std::string {
      if (t.empty()) return "bad-op";
      if (t[0] == "E" && t.size() >= 4) {
        const std::string expected = t[1];
        size_t semi = 2;
        while (semi < t.size() && t[semi] != ";") ++semi;
        if (semi + 1 >= t.size()) return "bad-op";
        const std::string text = joinFrom(t, semi + 1);
        const bool hostDefined = expected.compare(0, 2, "T:") == 0;
        std::string want;
        if (hostDefined) {
          want = expected.substr(2);
          size_t c = want.find(':');
          if (c != std::string::npos) want[c] = ' ';
        }
        const int ub0 = ubsanReports;
        exprNode *expr = NULL;
        std::string got;
        std::vector<std::string> pending;
        Quiet *quiet = new Quiet();
        try {
          tokenVector tokens = tokenizer_t::tokenize(text);
          expr = expressionParser::parse(tokens);
        } catch (occa::exception &e) {
          got = "parse-fail";
        }
        if (got.empty()) {
          if (!expr) got = "parse-fail";
          else if (!expr->canEvaluate()) got = "noeval";
          else {
            got = evalGuarded(expr);
            if (got != "trap") {
              std::string again = evalGuarded(expr);
              if (again != got) pending.push_back("second evaluate() differs: " + got + " then " + again + " for: " + text);
              exprNode *cl = expr->clone();
              std::string viaClone = evalGuarded(cl);
              delete cl;
              if (viaClone != got) pending.push_back("evaluate() of the clone differs: " + got + " vs " + viaClone + " for: " + text);
            }
          }
        }
        delete expr;
        delete quiet;
        for (const std::string &m : pending) hp::oracle(m);
        if (hostDefined) {
          if (got == "err" || got == "trap" || got == "parse-fail" || got == "noeval" || got == "none")
            hp::oracle("the host compiler computes " + want + " but occa gives " + got + " for: " + text);
          else if (got != want)
            hp::oracle("the host compiler computes " + want + " but occa computes " + got + " for: " + text);
          if (ubsanReports != ub0)
            hp::oracle("undefined behaviour inside occa while evaluating a defined expression: " + text);
        }
        return got;
      }
      if (t[0] == "P" && t.size() == 2) {
        std::string text = t[1];
        for (char &ch : text) if (ch == '_') ch = ' ';       // '_' stands for a blank inside the literal text
        const char *c = text.c_str();
        std::string got;
        try {
          primitive p = primitive::load(c, true);
          got = show(p) + " +" + std::to_string((long) (c - text.c_str()));
        } catch (occa::exception &e) {
          got = "err";
        }
        return got;
      }
      return "bad-op";
    });
}
