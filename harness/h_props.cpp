// C26 harness: the property layering of real devices.
//   getbase                      prints env::baseSettings() as a tree script (used by the plugin, not compared)
//   base <tree>                  tells the model what env::baseSettings() is; answers ok / mismatch
//   settings <tree>              occa::settings() = tree   (restored at every history boundary)
//   dev <tree>                   occa::device(tree); prints device.properties()
//   kp|mp|sp <tree>              device.kernelProperties(tree) / memoryProperties / streamProperties
//   msp <mode> <tree>            getModeSpecificProps(mode, tree)
//   osp <mode> <object> <tree>   getObjectSpecificProps(mode, object, tree)
//   iop <mode> <object> <tree>   initialObjectProps(mode, object, tree)            (mode/object hex)
// Oracles (model independent): the layering recomputed on the std::map dictionary reference of
// jsonproto.hpp (generic < own mode, settings < user, stored < per call); no "modes" member survives;
// entries of other modes are inert: the same request with everything under modes/<other> and
// <object>/modes/<other> replaced by a marker gives the same result.
#include "jsonproto.hpp"
#include <occa/internal/utils/env.hpp>
using namespace jp;

namespace occa {
  occa::json getModeSpecificProps(const std::string &mode, const occa::json &props);
  occa::json getObjectSpecificProps(const std::string &mode, const std::string &object, const occa::json &props);
  occa::json initialObjectProps(const std::string &mode, const std::string &object, const occa::json &props);
}

static occa::device D;
static json userProps;

static std::string script(const json &j) {
  namespace pt = occa::primitiveType;
  switch (j.type) {
    case json::none_: return "N";
    case json::null_: return "Z";
    case json::string_: return "S:" + hp::hex(j.string());
    case json::number_: {
      const occa::primitive &p = j.number();
      if (p.source.size()) return "P:" + hp::hex(p.source);
      if (p.type == pt::bool_) return p.value.bool_ ? "T" : "F";
      std::string s = showPrim(p);            // #ty:val:src
      s = s.substr(1, s.rfind(':') - 1);
      if (p.type == pt::float_ || p.type == pt::double_) {
        char buf[64]; unsigned long long u = std::strtoull(s.c_str() + 4, NULL, 10);
        std::snprintf(buf, sizeof buf, "%s:%llx", p.type == pt::float_ ? "f32" : "f64", u);
        return buf;
      }
      return s;
    }
    case json::array_: {
      std::string o = "A" + std::to_string(j.array().size());
      for (const json &c : j.array()) o += " " + script(c);
      return o;
    }
    case json::object_: {
      std::string o = "O" + std::to_string(j.object().size());
      for (auto &kv : j.object()) o += " " + hp::hex(kv.first) + " " + script(kv.second);
      return o;
    }
  }
  return "N";
}

// ---- reference layering on dictionaries -------------------------------------------------------------------
static bool dictLike(const Ref *r) { return !r || r->k != Ref::LEAF; }
static Ref sub(const Ref &r, const std::vector<std::string> &ks) { const Ref *f = refFind(r, ks); return f ? *f : Ref(); }
// a + b on dictionaries (both undefined or objects)
static Ref plusD(Ref a, const Ref &b) {
  if (b.k == Ref::UNDEF) return a;
  if (a.k == Ref::UNDEF) a.k = Ref::OBJ;
  refMerge(a, b);
  return a;
}
static void dropKey(Ref &r, const std::string &k) { if (r.k == Ref::OBJ) r.m.erase(k); }

// generic entries overridden by the entries for `mode`; false if some layer is not a dictionary
static bool modeLayer(const Ref &X, const std::string &mode, Ref &out) {
  const Ref *m = refFind(X, {"modes", mode});
  if (X.k == Ref::LEAF || !dictLike(m)) return false;
  out = plusD(X, m ? *m : Ref());
  dropKey(out, "modes");
  return true;
}
static bool objectLayer(const Ref &X, const std::string &mode, const std::string &obj, Ref &out) {
  const Ref *a = refFind(X, {obj}), *b = refFind(X, {obj, "modes", mode}), *c = refFind(X, {"modes", mode, obj});
  if (!dictLike(a) || !dictLike(b) || !dictLike(c)) return false;
  out = plusD(plusD(a ? *a : Ref(), b ? *b : Ref()), c ? *c : Ref());
  dropKey(out, "modes");
  return true;
}
static Ref leafStr(const std::string &s) { Ref r; r.k = Ref::LEAF; r.leaf = "S" + hp::hex(s); return r; }

static bool plainName(const std::string &s) {
  return !s.empty() && s.find('/') == std::string::npos && s.find('\\') == std::string::npos && s.find('\0') == std::string::npos;
}

static std::string canonical(const std::string &m) {
  return occa::lowercase(m) == "openmp" ? "OpenMP" : "Serial";
}

// replace everything stored for modes other than `mode` by a marker
// (top-level "modes" and the "modes" member of each object in `objs`: the places the code reads mode entries from)
static void scrambleOtherModes(json &props, const std::string &mode, const std::vector<std::string> &objs) {
  if (props.isObject() && props.has("modes") && props["modes"].isObject()) {
    std::vector<std::string> ks = props["modes"].keys();
    for (const std::string &k : ks) if (k != mode) props["modes"].set(k, json::parse("{\"kernel\": {\"zz\": 1, \"x\": 99}, \"zz\": 2, \"x\": 98}"));
    props["modes"].set("OtherMode", json::parse("{\"x\": 97, \"memory\": {\"x\": 96}}"));
  }
  for (const std::string &o : objs) {
    if (props.isObject() && props.has(o) && props[o].isObject() && props[o].has("modes") && props[o]["modes"].isObject()) {
      std::vector<std::string> ks = props[o]["modes"].keys();
      for (const std::string &k : ks) if (k != mode) props[o]["modes"].set(k, json::parse("{\"zz\": 3, \"x\": 95}"));
    }
  }
}

static bool hasModesKey(const json &j) { return j.isObject() && j.object().count("modes"); }

int main() {
  return hp::run(
    []() { D = occa::device(); occa::settings() = json(); userProps = json(); },
    [](const toks_t &t) -> std::string {
      if (t.empty()) return "bad-op";
      const std::string &op = t[0];
      json v;
      try {
        if (op == "getbase") return script(occa::env::baseSettings());
        if (op == "base") {
          if (!readTree1(t, 1, v)) return "bad-op";
          return show(v) == show(occa::env::baseSettings()) ? "ok" : "mismatch";
        }
        if (op == "settings") {
          if (!readTree1(t, 1, v)) return "bad-op";
          occa::settings() = v;
          return "ok";
        }
        if (op == "dev") {
          if (!readTree1(t, 1, v)) return "bad-op";
          userProps = v;
          D = occa::device();
          const json S = occa::settings();
          try { D = occa::device(v); }
          catch (occa::exception &e) { D = occa::device(); return errName(e); }
          const json &P = D.properties();
          // ---- oracles
          const json &CV = v;
          const std::string modeGiven = (std::string) CV["mode"];
          if (CV["mode"].isString() && plainName(modeGiven)) {
            Ref RS = toRef(S), RU = toRef(v), got = toRef(P), expect, dl, ml;
            bool ok = objectLayer(RS, modeGiven, "device", dl) && modeLayer(RU, modeGiven, ml);
            if (ok) {
              expect = plusD(dl, ml);
              if (expect.k == Ref::UNDEF) expect.k = Ref::OBJ;
              for (const char *o : {"kernel", "memory", "stream"}) {
                Ref ls, lu;
                if (!objectLayer(RS, modeGiven, o, ls) || !objectLayer(RU, modeGiven, o, lu)) { ok = false; break; }
                Ref e = plusD(ls, lu);
                if (e.k == Ref::UNDEF) e.k = Ref::OBJ;
                e.m["mode"] = leafStr(modeGiven);
                expect.m[o] = e;
              }
              // the mode the device is created for is read back from the assembled properties; the oracle
              // covers the normal case that no layer overrides the "mode" entry itself
              const Ref *mm = refFind(expect, {"mode"});
              if (ok && mm && *mm == leafStr(modeGiven)) {
                expect.m["mode"] = leafStr(canonical(modeGiven));
                if (got != expect)
                  hp::oracle("device.properties() is not (settings < user) x (generic < own mode): got=" + showRef(got) + " expected=" + showRef(expect));
              }
            }
            if (hasModesKey(P) || hasModesKey(P["kernel"]) || hasModesKey(P["memory"]) || hasModesKey(P["stream"]))
              hp::oracle("a \"modes\" member survives in the device properties");
            // other modes are inert
            json v2 = v;
            scrambleOtherModes(v2, modeGiven, {"kernel", "memory", "stream"});
            json S2 = S;
            scrambleOtherModes(S2, modeGiven, {"device", "kernel", "memory", "stream"});
            occa::settings() = S2;
            try {
              occa::device D2(v2);
              if (show(D2.properties()) != show(P)) hp::oracle("entries of other modes changed the device properties");
            } catch (occa::exception &e) { hp::oracle("entries of other modes make device creation fail"); }
            occa::settings() = S;
          }
          return show(P);
        }
        if (op == "kp" || op == "mp" || op == "sp") {
          if (!readTree1(t, 1, v)) return "bad-op";
          if (!D.isInitialized()) return "nodev";
          const char *o = op == "kp" ? "kernel" : op == "mp" ? "memory" : "stream";
          json r = op == "kp" ? D.kernelProperties(v) : op == "mp" ? D.memoryProperties(v) : D.streamProperties(v);
          Ref stored = toRef(D.properties()[o]), ml, RE = toRef(v);
          if (stored.k != Ref::LEAF && modeLayer(RE, D.mode(), ml)) {
            Ref expect = plusD(stored, ml);
            if (toRef(r) != expect) hp::oracle(std::string("per-call ") + o + " properties are not stored < extra < extra[modes/mode]");
            json v2 = v; scrambleOtherModes(v2, D.mode(), {});
            json r2 = op == "kp" ? D.kernelProperties(v2) : op == "mp" ? D.memoryProperties(v2) : D.streamProperties(v2);
            if (show(r2) != show(r)) hp::oracle("entries of other modes changed the per-call properties");
          }
          if (hasModesKey(r) && !hasModesKey(D.properties()[o])) hp::oracle("a \"modes\" member survives in the per-call properties");
          return show(r);
        }
        std::string m, o;
        if (op == "msp" && t.size() >= 3 && hp::unhex(t[1], m) && readTree1(t, 2, v))
          return show(occa::getModeSpecificProps(m, v));
        if (op == "osp" && t.size() >= 4 && hp::unhex(t[1], m) && hp::unhex(t[2], o) && readTree1(t, 3, v))
          return show(occa::getObjectSpecificProps(m, o, v));
        if (op == "iop" && t.size() >= 4 && hp::unhex(t[1], m) && hp::unhex(t[2], o) && readTree1(t, 3, v))
          return show(occa::initialObjectProps(m, o, v));
      } catch (occa::exception &e) {
        return errName(e);
      }
      return "bad-op";
    });
}
