// Shared helpers for the correspondence harnesses: line protocol, hex, oracle reporting.
#pragma once
#include <cstdio>
#include <cstdlib>
#include <cstring>
#include <iostream>
#include <sstream>
#include <string>
#include <vector>

namespace hp {
  inline std::vector<std::string> split(const std::string &l) {
    std::vector<std::string> t; std::istringstream ss(l); std::string w;
    while (ss >> w) t.push_back(w);
    return t;
  }
  inline int hexv(char c) {
    if (c >= '0' && c <= '9') return c - '0';
    if (c >= 'a' && c <= 'f') return c - 'a' + 10;
    if (c >= 'A' && c <= 'F') return c - 'A' + 10;
    return -1;
  }
  inline bool unhex(const std::string &s, std::string &out) {
    out.clear();
    if (s == "-") return true;
    if (s.size() % 2) return false;
    for (size_t i = 0; i < s.size(); i += 2) {
      int a = hexv(s[i]), b = hexv(s[i+1]);
      if (a < 0 || b < 0) return false;
      out.push_back((char) (a * 16 + b));
    }
    return true;
  }
  inline std::string hex(const std::string &s) {
    if (s.empty()) return "-";
    static const char *d = "0123456789abcdef";
    std::string o;
    for (unsigned char c : s) { o.push_back(d[c >> 4]); o.push_back(d[c & 15]); }
    return o;
  }
  // A model-independent oracle fired: reported on stdout on its own line, the checker
  // strips these lines before diffing against the model and counts them as violations.
  inline void oracle(const std::string &what) {
    std::cout << "!ORACLE " << what << "\n";
  }
  // Main loop: `#...` lines are echoed and reset the state.
  template <class Reset, class Step>
  int run(Reset reset, Step step) {
    std::string line;
    reset();
    while (std::getline(std::cin, line)) {
      if (!line.empty() && line[0] == '#') {
        std::cout << line << std::endl;
        std::cerr << line << std::endl;     // lets the checker attribute sanitizer reports to a history
        reset();
        continue;
      }
      std::vector<std::string> t = split(line);
      std::cout << step(t) << std::endl;   // flush: a crash must not lose earlier lines
    }
    return 0;
  }
}
