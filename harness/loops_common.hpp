// Shared by h_loops.cpp (C17, C18) and h_dim.cpp (C19): Polish-notation expressions of the
// line protocol, OKL kernel text, the seven real translators driven in-process, and the
// extraction of the "interesting" lines of a translation (launch dimensions, iterator
// reconstruction declarations, kept/tiled loop headers, bounds checks).
#pragma once
#include <map>
#include <memory>
#include <occa/internal/lang/modes/serial.hpp>
#include <occa/internal/lang/modes/openmp.hpp>
#include <occa/internal/lang/modes/cuda.hpp>
#include <occa/internal/lang/modes/hip.hpp>
#include <occa/internal/lang/modes/opencl.hpp>
#include <occa/internal/lang/modes/metal.hpp>
#include <occa/internal/lang/modes/dpcpp.hpp>
#include "hproto.hpp"

namespace lc {
  //---[ expressions ]------------------------------------------------------------------
  // Polish form, tokens separated by ',':  vNAME | cLIT | P,e | cast,e | neg,e pos,e not,e bnot,e
  //   | BINOP,l,r  | ?,c,t,f          (see tools/checks/loops_common.py for the generator)
  // Printed in-order; the ONLY parentheses are explicit `P` nodes, so the text handed to the
  // OKL parser is exactly the tree (the generator inserts P where C precedence requires it).
  struct Cursor { std::vector<std::string> t; size_t i = 0; bool bad = false; };

  inline std::vector<std::string> splitc(const std::string &s, char sep) {
    std::vector<std::string> o; std::string cur;
    for (char ch : s) { if (ch == sep) { o.push_back(cur); cur.clear(); } else cur.push_back(ch); }
    o.push_back(cur);
    return o;
  }

  inline bool isBin(const std::string &op) {
    static const char *ops[] = {"+","-","*","/","%","<<",">>","<","<=",">",">=","==","!=","&","^","|","&&","||",0};
    for (int k = 0; ops[k]; ++k) if (op == ops[k]) return true;
    return false;
  }

  inline std::string toC(Cursor &c) {
    if (c.i >= c.t.size()) { c.bad = true; return "?"; }
    std::string k = c.t[c.i++];
    if (k.size() >= 2 && k[0] == 'v') return k.substr(1);
    if (k.size() >= 2 && k[0] == 'c' && isdigit((unsigned char) k[1])) return k.substr(1);
    if (k == "P")    { std::string e = toC(c); return "(" + e + ")"; }
    if (k == "cast") { std::string e = toC(c); return "(int) " + e; }
    if (k == "neg")  return "-" + toC(c);
    if (k == "pos")  return "+" + toC(c);
    if (k == "not")  return "!" + toC(c);
    if (k == "bnot") return "~" + toC(c);
    if (k == "?") { std::string a = toC(c), b = toC(c), d = toC(c); return a + " ? " + b + " : " + d; }
    if (isBin(k)) { std::string l = toC(c), r = toC(c); return l + " " + k + " " + r; }
    c.bad = true;
    return "?";
  }
  inline bool exprText(const std::string &polish, std::string &out) {
    Cursor c; c.t = splitc(polish, ',');
    out = toC(c);
    return !c.bad && c.i == c.t.size();
  }

  //---[ translators ]------------------------------------------------------------------
  static const char *MODES[] = {"serial", "openmp", "cuda", "hip", "opencl", "metal", "dpcpp"};
  static const int NMODES = 7;

  inline occa::lang::parser_t* makeParser(const std::string &mode) {
    using namespace occa::lang::okl;
    occa::json props;
    props["mode"] = mode;
    if (mode == "serial") return new serialParser(props);
    if (mode == "openmp") return new openmpParser(props);
    if (mode == "cuda")   return new cudaParser(props);
    if (mode == "hip")    return new hipParser(props);
    if (mode == "opencl") return new openclParser(props);
    if (mode == "metal")  return new metalParser(props);
    if (mode == "dpcpp")  return new dpcppParser(props);
    return NULL;
  }

  struct Translation { bool ok = false; std::string device, launcher; };

  // occa prints expression-parser debug dumps ("---[ Scopes ]---") to io::stdout = std::cout on some syntax
  // errors; they must not end up in the line protocol
  struct CoutMute {
    std::streambuf *old;
    std::ostringstream sink;
    CoutMute() { old = std::cout.rdbuf(sink.rdbuf()); }
    ~CoutMute() { std::cout.rdbuf(old); }
  };

  // One parser object per mode, reused (parseSource() clears it), as tests/src/internal/lang/modes do;
  // H_LOOPS_FRESH=1 builds a fresh parser per translation as the CLI and the kernel builder do
  // (3x slower; the corpus is run that way once per check).
  inline Translation translate(const std::string &mode, const std::string &okl) {
    Translation t;
    static std::map<std::string, std::unique_ptr<occa::lang::parser_t> > cache;
    static const bool fresh = getenv("H_LOOPS_FRESH") != NULL;
    std::unique_ptr<occa::lang::parser_t> own;
    occa::lang::parser_t *p;
    if (fresh) { own.reset(makeParser(mode)); p = own.get(); }
    else {
      if (!cache[mode]) cache[mode].reset(makeParser(mode));
      p = cache[mode].get();
    }
    CoutMute mute;
    try {
      p->parseSource(okl);
      if (!p->succeeded()) return t;
      t.device = p->toString();
      if (mode != "serial" && mode != "openmp") {
        t.launcher = ((occa::lang::okl::withLauncher*) p)->launcherParser.toString();
      }
      t.ok = true;
    } catch (...) {
      t.ok = false;
    }
    return t;
  }

  //---[ extraction ]-------------------------------------------------------------------
  inline std::string trim(const std::string &s) {
    size_t a = s.find_first_not_of(" \t\r\n");
    if (a == std::string::npos) return "";
    size_t b = s.find_last_not_of(" \t\r\n");
    return s.substr(a, b - a + 1);
  }
  inline bool starts(const std::string &s, const char *p) { return s.compare(0, strlen(p), p) == 0; }

  // `int o = ...;` / `long int _occa_tiled_x = ...;` / `const long idx = ...;`
  inline bool isDecl(const std::string &l) {
    static const char *words[] = {"const ", "unsigned ", "long ", "short ", "int ", "char ", 0};
    size_t p = 0;
    bool any = false;
    for (bool more = true; more; ) {
      more = false;
      for (int k = 0; words[k]; ++k) {
        if (l.compare(p, strlen(words[k]), words[k]) == 0) { p += strlen(words[k]); more = any = true; break; }
      }
    }
    if (!any) return false;
    size_t q = p;
    while (q < l.size() && (isalnum((unsigned char) l[q]) || l[q] == '_')) ++q;
    return q > p && l.compare(q, 3, " = ") == 0 && l[l.size() - 1] == ';';
  }

  inline std::string interesting(const std::string &src) {
    std::string out;
    for (const std::string &raw : splitc(src, '\n')) {
      std::string l = trim(raw);
      bool keep = starts(l, "outer[") || starts(l, "inner[") || starts(l, "outer.dims") || starts(l, "inner.dims")
               || starts(l, "for (") || starts(l, "if (") || starts(l, "#pragma omp") || isDecl(l);
      if (!keep) continue;
      if (l.size() > 2 && l.compare(l.size() - 2, 2, " {") == 0) l = l.substr(0, l.size() - 2);
      if (!out.empty()) out += " ;; ";
      out += l;
    }
    return out.empty() ? "-" : out;
  }
}
