// C20/C21/C22 correspondence harness: drives the seven real OKL translators in-process.
//
//   T <expect> <hex-okl-source>
//       expect: 7 characters over {1,0,?} (serial openmp cuda hip opencl metal dpcpp): what the
//       PROPERTY demands for this kernel (the plugin knows which rule a mutation breaks).
//       prints  v=<7 bits> ir=<KernelIR extracted from occa's own statement tree>
//       oracles: a translator accepts a rule-breaking kernel / rejects a conforming one;
//                translators disagree where the property demands agreement.
//   G <hex-okl-source>   the seven translations as hex text (device source[:launcher source])
//   S <hex-okl-source>
//       prints the canonical structure summary of the serial, openmp and cuda/opencl/metal/dpcpp
//       translations, read from each translator's transformed statement tree:
//       serial=<…> openmp=<…> cuda=<…> hip=<…> opencl=<…> metal=<…> dpcpp=<…> launch=<…>
//
// The IR grammar is described in lean/OccaModel/Okl.lean (`parseKernel`).
#include <occa/internal/lang/expr.hpp>
#include <occa/internal/lang/parser.hpp>
#include <occa/internal/lang/statement.hpp>
#include <occa/internal/lang/variable.hpp>
#include <occa/internal/lang/builtins/types.hpp>
#include <occa/internal/lang/builtins/attributes.hpp>
#include <occa/internal/lang/modes/okl.hpp>
#include <occa/internal/lang/modes/oklForStatement.hpp>
#include <occa/internal/lang/modes/serial.hpp>
#include <occa/internal/lang/modes/openmp.hpp>
#include <occa/internal/lang/modes/cuda.hpp>
#include <occa/internal/lang/modes/hip.hpp>
#include <occa/internal/lang/modes/opencl.hpp>
#include <occa/internal/lang/modes/metal.hpp>
#include <occa/internal/lang/modes/dpcpp.hpp>
#include "hproto.hpp"

using namespace occa;
using namespace occa::lang;

static const char *MODES[7] = {"serial", "openmp", "cuda", "hip", "opencl", "metal", "dpcpp"};

static parser_t *makeParser(int m, const occa::json &props) {
  switch (m) {
    case 0: return new okl::serialParser(props);
    case 1: return new okl::openmpParser(props);
    case 2: return new okl::cudaParser(props);
    case 3: return new okl::hipParser(props);
    case 4: return new okl::openclParser(props);
    case 5: return new okl::metalParser(props);
    default: return new okl::dpcppParser(props);
  }
}

// ---------------------------------------------------------------- KernelIR extraction
static std::string usesOf(statement_t *s) {
  // one character per variable node that refers to a @shared (s) / @exclusive (x) variable and is
  // not the variable being declared by `s`
  std::string u;
  if (!s) return u;
  for (smntExprNode &n : s->getExprNodes()) {
    if (n.node->type() != exprNodeType::variable) continue;
    variable_t &var = ((variableNode*) n.node)->value;
    const bool sh = var.hasAttribute("shared"), ex = var.hasAttribute("exclusive");
    if (!sh && !ex) continue;
    if ((s->type() & statementType::declaration) && ((declarationStatement*) s)->declaresVariable(var)) continue;
    u.push_back(sh ? 's' : 'x');
  }
  return u;
}

static std::string constOf(exprNode *e) {
  if (!e) return "-";
  if (!e->canEvaluate()) return "?";
  primitive p = e->evaluate();
  if (!p.isInteger()) return "?";
  return occa::toString((long) p);
}

// header classification of an @outer/@inner for statement, read off the statement tree
static std::string hdrOf(forStatement &f) {
  std::string init = "k", initv = "-", check = "k", op = "-", checkv = "-", upd = "k", uk = "-", updv = "-", side = "-";
  variable_t *it = NULL;
  statement_t &is = *f.init;
  if (is.type() == statementType::empty) init = "e";
  else if (is.type() != statementType::declaration) init = "n";
  else {
    declarationStatement &d = (declarationStatement&) is;
    if (d.declarations.size() > 1) init = "m";
    else {
      variableDeclaration &vd = d.declarations[0];
      it = &vd.variable();
      if (!vd.hasValue()) init = "v";
      else {
        initv = constOf(vd.value);
        const type_t *ty = it->vartype.flatten().type;
        if (!ty || ((*ty != char_) && (*ty != short_) && (*ty != int_) && (*ty != ptrdiff_t_) && (*ty != size_t_))) init = "t";
      }
    }
  }
  statement_t &cs = *f.check;
  if (cs.type() != statementType::expression) check = "x";
  else {
    exprNode &e = *((expressionStatement&) cs).expr;
    if (e.type() != exprNodeType::binary) check = "b";
    else {
      binaryOpNode &b = (binaryOpNode&) e;
      opType_t t = b.opType();
      if (t & operatorType::lessThan) op = "lt";
      else if (t & operatorType::lessThanEq) op = "le";
      else if (t & operatorType::greaterThan) op = "gt";
      else if (t & operatorType::greaterThanEq) op = "ge";
      else check = "o";
      if (check == "k") {
        exprNode *val = NULL;
        if (b.leftValue->type() == exprNodeType::variable && &((variableNode*) b.leftValue)->value == it) { val = b.rightValue; side = "l"; }
        else if (b.rightValue->type() == exprNodeType::variable && &((variableNode*) b.rightValue)->value == it) { val = b.leftValue; side = "r"; }
        if (!val || !it) { check = "i"; side = "-"; } else checkv = constOf(val);
      }
    }
  }
  statement_t &us = *f.update;
  if (us.type() != statementType::expression) upd = "x";
  else {
    exprNode *e = ((expressionStatement&) us).expr;
    udim_t et = e->type();
    if (!(et & (exprNodeType::leftUnary | exprNodeType::rightUnary | exprNodeType::binary))) upd = "t";
    else {
      bool okOp = false, okVar = false;
      opType_t t = ((exprOpNode*) e)->opType();
      if (et == exprNodeType::leftUnary || et == exprNodeType::rightUnary) {
        exprNode *v = (et == exprNodeType::leftUnary) ? ((leftUnaryOpNode*) e)->value : ((rightUnaryOpNode*) e)->value;
        if (t & operatorType::increment) { okOp = true; uk = "inc"; }
        else if (t & operatorType::decrement) { okOp = true; uk = "dec"; }
        okVar = (v->type() == exprNodeType::variable) && (&((variableNode*) v)->value == it);
      } else {
        binaryOpNode &b = (binaryOpNode&) *e;
        if (t & operatorType::addEq) { okOp = true; uk = "add"; }
        else if (t & operatorType::subEq) { okOp = true; uk = "sub"; }
        exprNode *val = NULL;
        if (b.leftValue->type() == exprNodeType::variable && &((variableNode*) b.leftValue)->value == it) val = b.rightValue;
        else if (b.rightValue->type() == exprNodeType::variable && &((variableNode*) b.rightValue)->value == it) val = b.leftValue;
        okVar = (val != NULL) && it;
        if (okVar) updv = constOf(val);
      }
      if (!okOp) { upd = "o"; uk = "-"; updv = "-"; }
      else if (!okVar) { upd = "w"; updv = "-"; }
    }
  }
  return init + "," + initv + "," + check + "," + op + "," + checkv + "," + upd + "," + uk + "," + updv + "," + side;
}

static void irChildren(blockStatement &b, std::ostringstream &o);

static void irStmt(statement_t *s, std::ostringstream &o) {
  const int t = s->type();
  if (t & statementType::for_) {
    forStatement &f = (forStatement&) *s;
    const bool io = s->hasAttribute("outer"), ii = s->hasAttribute("inner");
    std::string u = usesOf(f.init) + usesOf(f.check) + usesOf(f.update);
    if (io || ii) {
      o << (io && ii ? "OI" : io ? "O" : "I") << ":" << hdrOf(f) << ":" << u;
      if (s->hasAttribute("nobarrier")) o << ":nb";
      o << " ( ";
    } else o << "F:" << u << " ( ";
    irChildren(f, o);
    o << ") ";
  } else if (t & statementType::while_) {
    whileStatement &w = (whileStatement&) *s;
    o << "W:" << usesOf(w.condition) << " ( ";
    irChildren(w, o);
    o << ") ";
  } else if (t & statementType::switch_) {
    switchStatement &w = (switchStatement&) *s;
    o << "S:" << usesOf(w.condition) << " ( ";
    irChildren(w, o);
    o << ") ";
  } else if (t & statementType::if_) {
    ifStatement &f = (ifStatement&) *s;
    o << "C:" << usesOf(f.condition) << " ( ";
    irChildren(f, o);
    o << ") ";
    for (elifStatement *e : f.elifSmnts) {
      o << "E:" << usesOf(e->condition) << " ( ";
      irChildren(*e, o);
      o << ") ";
    }
    if (f.elseSmnt) {
      o << "L ( ";
      irChildren(*f.elseSmnt, o);
      o << ") ";
    }
  } else if (t & statementType::block) {
    o << (s->hasAttribute("atomic") ? "Bg ( " : "B ( ");
    irChildren((blockStatement&) *s, o);
    o << ") ";
  } else if (t & statementType::declaration) {
    declarationStatement &d = (declarationStatement&) *s;
    // one D token per declared variable; uses of the whole statement are attached to the first
    bool first = true;
    for (variableDeclaration &vd : d.declarations) {
      variable_t &v = vd.variable();
      if (v.hasAttribute("shared")) {
        o << "Ds:";
        if (v.vartype.arrays.empty()) o << "-";
        bool f2 = true;
        for (array_t &a : v.vartype.arrays) {
          if (!f2) o << ",";
          f2 = false;
          if (!a.size || !a.size->canEvaluate()) o << "?"; else o << (long) a.size->evaluate();
        }
      } else if (v.hasAttribute("exclusive")) o << "Dx";
      else o << "Dp";
      o << ":" << (first ? usesOf(s) : std::string()) << " ";
      first = false;
    }
  } else if (t & statementType::expression) {
    expressionStatement &e = (expressionStatement&) *s;
    const bool basic = attributes::atomic::isBasicExpression(e);
    const char *a = basic ? "b" : "";
    if (s->hasAttribute("atomic")) a = basic ? "a" : "g";
    o << "X" << a << ":" << usesOf(s) << " ";
  } else if (t & statementType::empty) {
    if (s->hasAttribute("barrier")) o << "R ";
  } else if (t & statementType::break_) o << "b ";
  else if (t & statementType::continue_) o << "c ";
  else if (t & statementType::return_) o << "r ";
  else if (t & (statementType::case_ | statementType::default_ | statementType::comment | statementType::pragma)) {
    // labels and comments carry no structure
  } else o << "?" << s->statementName() << " ";
}

static void irChildren(blockStatement &b, std::ostringstream &o) {
  for (statement_t *c : b.children) irStmt(c, o);
}

static std::string kernelIR(const std::string &src) {
  parser_t p;
  okl::addOklAttributes(p);
  p.parseSource(src);
  if (!p.success) return "parse-error";
  statementArray ks = p.root.children.getKernelStatements();
  if (ks.length() < 1) return "kernels=0";
  std::ostringstream o;
  // several kernels in one source: their IRs joined by '+'
  for (int i = 0; i < (int) ks.length(); ++i) {
    functionDeclStatement &k = (functionDeclStatement&) *ks[i];
    if (i) o << "+";
    o << "K:" << ((*k.function().returnType.type == void_) ? "v" : "n") << " ( ";
    irChildren(k, o);
    o << ")";
  }
  std::string s = o.str();
  for (char &c : s) if (c == ' ') c = '_';
  return s;
}

// ---------------------------------------------------------------- structure summaries
static void sumChildren(blockStatement &b, std::ostringstream &o);

static std::string declSum(declarationStatement &d) {
  std::ostringstream o;
  bool first = true;
  for (variableDeclaration &vd : d.declarations) {
    variable_t &v = vd.variable();
    if (!first) o << "+";
    first = false;
    if (v.name() == "_occa_exclusive_index") { o << "Dxi"; continue; }
    o << (v.hasAttribute("shared") ? "Ds" : v.hasAttribute("exclusive") ? "Dx" : "Dp");
    for (array_t &a : v.vartype.arrays) {
      o << "[";
      if (a.size && a.size->canEvaluate()) o << (long) a.size->evaluate(); else o << "?";
      o << "]";
    }
  }
  return o.str();
}

static bool isExclIndexStmt(expressionStatement &e, std::string &what) {
  std::string s = e.expr->toString();
  if (s == "_occa_exclusive_index = 0") { what = "xi0"; return true; }
  if (s == "++_occa_exclusive_index") { what = "xi+"; return true; }
  return false;
}

static void sumStmt(statement_t *s, std::ostringstream &o) {
  const int t = s->type();
  if (t & statementType::for_) {
    o << (s->hasAttribute("outer") ? "O" : s->hasAttribute("inner") ? "I" : "F") << " ( ";
    sumChildren((blockStatement&) *s, o);
    o << ") ";
  } else if (t & statementType::while_) { o << "W ( "; sumChildren((blockStatement&) *s, o); o << ") "; }
  else if (t & statementType::switch_) { o << "S ( "; sumChildren((blockStatement&) *s, o); o << ") "; }
  else if (t & statementType::if_) {
    ifStatement &f = (ifStatement&) *s;
    o << "C ( "; sumChildren(f, o); o << ") ";
    for (elifStatement *e : f.elifSmnts) { o << "E ( "; sumChildren(*e, o); o << ") "; }
    if (f.elseSmnt) { o << "L ( "; sumChildren(*f.elseSmnt, o); o << ") "; }
  } else if (t & statementType::block) {
    o << "B ( "; sumChildren((blockStatement&) *s, o); o << ") ";
  } else if (t & statementType::declaration) o << declSum((declarationStatement&) *s) << " ";
  else if (t & statementType::expression) {
    std::string w;
    if (isExclIndexStmt((expressionStatement&) *s, w)) o << w << " ";
    else {
      // dpcpp: the kernel body lives in a lambda inside an expression
      bool lambda = false;
      for (smntExprNode &n : s->getExprNodes()) {
        if (n.node->type() == exprNodeType::lambda) {
          lambda = true;
          sumChildren(*((lambdaNode*) n.node)->value.body, o);
          break;   // nested lambdas are reached through the statements of this one
        }
      }
      if (!lambda) {
        // does the statement subscript an exclusive array with the exclusive index?
        std::string txt = ((expressionStatement&) *s).expr->toString();
        if (txt.find("atomic_ref") != std::string::npos) o << "Xa ";
        else o << (txt.find("[_occa_exclusive_index]") != std::string::npos ? "Xx " : "X ");
      }
    }
  } else if (t & statementType::pragma) {
    std::string v = ((pragmaStatement&) *s).value();
    for (char &c : v) if (c == ' ') c = '-';
    o << "P:" << v << " ";
  } else if (t & statementType::sourceCode) {
    std::string v = ((sourceCodeStatement&) *s).sourceCode;
    if (v.find("__syncthreads") != std::string::npos || v.find("barrier(") != std::string::npos) o << "R ";
    else if (v.find("__syncwarp") != std::string::npos) o << "Rw ";
    else if (v.find("atomic") != std::string::npos) o << "Xa ";
    else o << "src ";
  } else if (t & statementType::empty) {
    if (s->hasAttribute("barrier")) o << "R ";
  } else if (t & statementType::break_) o << "b ";
  else if (t & statementType::continue_) o << "c ";
  else if (t & statementType::return_) o << "r ";
}

static void sumChildren(blockStatement &b, std::ostringstream &o) {
  for (statement_t *c : b.children) sumStmt(c, o);
}

static std::string under(std::string s) {
  while (!s.empty() && s.back() == ' ') s.pop_back();
  for (char &c : s) if (c == ' ') c = '_';
  return s.empty() ? "-" : s;
}

static std::string sumRoot(blockStatement &root) {
  std::ostringstream o;
  for (statement_t *c : root.children) {
    if (!(c->type() & statementType::functionDecl)) continue;
    if (!c->hasAttribute("kernel")) continue;
    o << "K ( ";
    sumChildren((blockStatement&) *c, o);
    o << ") ";
  }
  return under(o.str());
}

// launcher: per outer-most @outer loop the (outer.dims, inner.dims) and the dim expressions
static std::string sumLauncher(blockStatement &root) {
  std::ostringstream o;
  statementArray::from(root).nestedForEach([&](statement_t *s) {
    if (s->type() & statementType::sourceCode) {
      std::string v = ((sourceCodeStatement&) *s).sourceCode;
      size_t p;
      if ((p = v.find("outer.dims = ")) != std::string::npos) o << "od" << v.substr(p + 13, v.find(';') - p - 13) << " ";
      else if ((p = v.find("inner.dims = ")) != std::string::npos) o << "id" << v.substr(p + 13, v.find(';') - p - 13) << " ";
      else if ((p = v.find("deviceKernels[")) != std::string::npos) o << "k" << v.substr(p + 14, v.find(']') - p - 14) << " ";
    } else if (s->type() & statementType::expression) {
      std::string txt = ((expressionStatement&) *s).expr->toString();
      if (txt.compare(0, 6, "outer[") == 0 || txt.compare(0, 6, "inner[") == 0) {
        o << txt.substr(0, txt.find(']') + 1) << " ";
      }
    }
  });
  return under(o.str());
}

static std::string lastIR;

int main() {
  return hp::run(
    []() {},
    [](const std::vector<std::string> &t) -> std::string {
      if (t.empty()) return "bad-op";
      std::string src;
      if (t[0] == "T" && t.size() >= 3 && t[1].size() == 7 && hp::unhex(t[2], src)) {
        occa::json props;
        std::string bits;
        for (int m = 0; m < 7; ++m) {
          parser_t *p = makeParser(m, props);
          p->parseSource(src);
          bits.push_back(p->succeeded() ? '1' : '0');
          delete p;
        }
        const std::string &ex = t[1];
        for (int m = 0; m < 7; ++m) {
          if (ex[m] == '1' && bits[m] == '0') hp::oracle(std::string("translator ") + MODES[m] + " rejects a rule-conforming kernel");
          if (ex[m] == '0' && bits[m] == '1') hp::oracle(std::string("translator ") + MODES[m] + " accepts a rule-breaking kernel");
        }
        // agreement: wherever the property's expectation is the same for two translators (1, 0, or
        // `a` = "no demand on the value, but the same everywhere"), so must the flags be
        for (int m = 0; m < 7; ++m) {
          bool done = false;
          for (int n = m + 1; n < 7 && !done; ++n)
            if (ex[m] != '?' && ex[m] == ex[n] && bits[m] != bits[n]) {
              hp::oracle(std::string("translators disagree: ") + MODES[m] + "=" + bits[m] + " " + MODES[n] + "=" + bits[n]);
              done = true;
            }
          if (done) break;
        }
        return "v=" + bits + " ir=" + kernelIR(src);
      }
      if (t[0] == "S" && t.size() >= 2 && hp::unhex(t[1], src)) {
        occa::json props;
        std::ostringstream out;
        for (int m = 0; m < 7; ++m) {
          parser_t *p = makeParser(m, props);
          p->parseSource(src);
          out << (m ? " " : "") << MODES[m] << "=";
          if (!p->succeeded()) out << "fail";
          else {
            out << sumRoot(p->root);
            if (m == 2) out << " launch=" << sumLauncher(((okl::withLauncher*) p)->launcherParser.root);
          }
          delete p;
        }
        return out.str();
      }
      if (t[0] == "G" && t.size() >= 2 && hp::unhex(t[1], src)) {
        // the translations themselves (hex), for the execution checks: device source and, for the
        // launcher-based translators, the host launcher source after a colon
        occa::json props;
        std::ostringstream out;
        for (int m = 0; m < 7; ++m) {
          parser_t *p = makeParser(m, props);
          p->parseSource(src);
          out << (m ? " " : "") << MODES[m] << "=";
          if (!p->succeeded()) out << "fail";
          else {
            out << hp::hex(p->toString());
            if (m >= 2) out << ":" << hp::hex(((okl::withLauncher*) p)->launcherParser.toString());
          }
          delete p;
        }
        return out.str();
      }
      return "bad-op";
    });
}
