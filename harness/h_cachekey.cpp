// C06 / C07 harness: drives the real kernel-cache code of occa with the operations of the line
// protocol of lean/Driver/Cache.lean and evaluates the properties' own oracles.
//
//   dev <serial|openmp>                     -> the 8 lanes of device::hash()   (fed to the model's `env`)
//   env <serial|openmp> l0 … l7             -> ok          (selects the device; lanes are checked)
//   key <srchex> <prop>…                    -> <kernel key> <mode key> <header key>   (setupKernelInfo, no build)
//   cfg <srchex> <prop>…                    -> ok          (configuration + source of the following builds)
//   write <pathhex> <texthex> | rm <pathhex>-> ok          (really writes / removes the file)
//   build                                   -> hit|miss key=<64 hex> out=v0,…,v7 | error key=<64 hex> <class>
//
// Environment: OCCA_CACHE_DIR (cache shared by the processes of one history), H_WORK (directory
// for the kernel source file).  One process = one or more ops; the C07 runner starts a fresh
// process for every build.
#include <occa.hpp>
#include <occa/internal/core/device.hpp>
#include <occa/internal/core/kernel.hpp>
#include <occa/internal/io.hpp>
#include <occa/internal/utils/env.hpp>
#include <occa/internal/utils/sys.hpp>
#include <fstream>
#include <map>
#include <set>
#include <unistd.h>
#include <algorithm>
#include "hproto.hpp"

typedef std::vector<std::string> toks_t;

static occa::device dev;
static std::string devMode;
static occa::json cfgProps;
static std::string cfgSrc, cfgEffective;
static bool haveCfg = false;
// per history: key -> effective inputs that produced it (the pair oracle of C06)
static std::map<std::string, std::string> seenKey, seenDir;

static const char *namedProps[] = {
  "defines", "includes", "headers", "functions", "compiler", "compiler_flags",
  "compiler_linker_flags", "compiler_shared_flags", "compiler_env_script",
  "compiler_language", "okl"
};

static bool parseVal(const toks_t &t, size_t &i, occa::json &out) {
  if (i >= t.size()) return false;
  const std::string &w = t[i++];
  std::string s;
  if (w == "N") { out = occa::json(occa::json::null_); return true; }
  if (w.compare(0, 2, "L:") == 0) {
    if (!hp::unhex(w.substr(2), s)) return false;
    out = occa::json::parse(s);          // numbers / booleans keep their token
    return true;
  }
  if (w.compare(0, 2, "S:") == 0) {
    if (!hp::unhex(w.substr(2), s)) return false;
    out = occa::json(s);
    return true;
  }
  if (w == "A") {
    if (i >= t.size()) return false;
    int n = atoi(t[i++].c_str());
    out = occa::json(occa::json::array_);
    for (int k = 0; k < n; ++k) {
      occa::json v;
      if (!parseVal(t, i, v)) return false;
      out += v;
    }
    return true;
  }
  if (w == "O") {
    if (i >= t.size()) return false;
    int n = atoi(t[i++].c_str());
    out = occa::json(occa::json::object_);
    for (int k = 0; k < n; ++k) {
      if (i >= t.size() || !hp::unhex(t[i++], s)) return false;
      occa::json v;
      if (!parseVal(t, i, v)) return false;
      out.set(s, v);
    }
    return true;
  }
  return false;
}

// <srchex> <name> <value> …   ->  props, source, and the canonical text of the inputs named by C06
static bool parseCfg(const toks_t &t, size_t from, occa::json &props, std::string &src, std::string &effective) {
  if (from >= t.size() || !hp::unhex(t[from], src)) return false;
  props = occa::json(occa::json::object_);
  std::map<std::string, std::string> raw;
  size_t i = from + 1;
  while (i < t.size()) {
    const std::string name = t[i++];
    size_t i0 = i;
    occa::json v;
    if (!parseVal(t, i, v)) return false;
    props.set(name, v);
    std::string r;
    for (size_t k = i0; k < i; ++k) r += t[k] + " ";
    raw[name] = r;
  }
  effective = "src=" + t[from];
  for (const char *n : namedProps) {
    effective += std::string(" | ") + n + "=" + (raw.count(n) ? raw[n] : std::string("<unset>"));
  }
  return true;
}

static bool selectDevice(const std::string &mode) {
  if (mode != "serial" && mode != "openmp") return false;
  if (!dev.isInitialized() || devMode != mode) {
    dev = occa::device({{"mode", mode == "serial" ? "Serial" : "OpenMP"}});
    devMode = mode;
  }
  return true;
}

static std::string lanes(const occa::hash_t &h) {
  std::ostringstream ss;
  for (int i = 0; i < 8; ++i) ss << (i ? " " : "") << h.h[i];
  return ss.str();
}

static std::string sourceFile() {
  const char *w = getenv("H_WORK");
  std::string dir = w ? w : "/tmp";
  return dir + "/k.okl";
}

static std::string errClass(const std::string &msg) {
  if (msg.find("File does not exist") != std::string::npos) return "missing-include";
  if (msg.find("Unable to transform OKL") != std::string::npos) return "parse";
  if (msg.find("Error compiling") != std::string::npos) return "compile";
  if (msg.find("dependency hashes lead back") != std::string::npos) return "chain";
  return "other";
}

static std::vector<std::string> writtenPaths;

int main() {
  return hp::run(
    []() {
      seenKey.clear(); seenDir.clear(); haveCfg = false;
      // `hashfile` only looks at files written in this history (the model starts every history empty;
      // files are NOT removed here: C07 shares them between processes)
      writtenPaths.clear();
    },
    [](const toks_t &t) -> std::string {
      if (t.empty()) return "bad-op";
      try {
        if (t[0] == "dev" && t.size() == 2) {
          if (!selectDevice(t[1])) return "bad-op";
          return lanes(dev.hash());
        }
        if (t[0] == "env" && t.size() == 10) {
          if (!selectDevice(t[1])) return "bad-op";
          std::string want;
          for (int i = 0; i < 8; ++i) want += (i ? " " : "") + t[2 + i];
          if (want != lanes(dev.hash())) hp::oracle("device::hash() differs from the value an earlier process printed");
          return "ok";
        }
        if (t[0] == "key") {
          occa::json props;
          std::string src, eff;
          if (!dev.isInitialized() || !parseCfg(t, 1, props, src, eff)) return "bad-op";
          occa::json kp, kp2;
          occa::hash_t kh, kh2;
          dev.setupKernelInfo(props, occa::hash(src), kp, kh);
          dev.setupKernelInfo(props, occa::hash(src), kp2, kh2);
          if (kh != kh2) hp::oracle("setupKernelInfo gives two different keys for one configuration");
          const std::string full = kh.getFullString();
          const std::string dir = occa::io::hashDir(kh);
          // the property, on the implementation's own outputs: equal key or equal cache
          // directory only for identical effective inputs
          std::map<std::string, std::string>::iterator it = seenKey.find(full);
          if (it != seenKey.end() && it->second != eff)
            hp::oracle("two different build configurations have the same kernel hash");
          else if ((it = seenDir.find(dir)) != seenDir.end() && it->second != eff)
            hp::oracle("two different build configurations use the same cache directory");
          seenKey[full] = eff;
          seenDir[dir] = eff;
          return full + " " + dev.getModeDevice()->kernelHash(kp).getFullString()
                      + " " + occa::kernelHeaderHash(kp).getFullString();
        }
        if (t[0] == "cfg") {
          if (!parseCfg(t, 1, cfgProps, cfgSrc, cfgEffective)) return "bad-op";
          haveCfg = true;
          return "ok";
        }
        if (t[0] == "write" && t.size() == 3) {
          std::string p, txt;
          if (!hp::unhex(t[1], p) || !hp::unhex(t[2], txt)) return "bad-op";
          std::ofstream f(p.c_str(), std::ios::binary | std::ios::trunc);
          f << txt;
          f.close();
          writtenPaths.push_back(p);
          return f.good() ? "ok" : "io-error";
        }
        if (t[0] == "hashfile" && t.size() == 2) {
          // occa::hashFile must reflect the file's CURRENT contents, also within one process and
          // within the same second as the previous write (same length included)
          std::string p;
          if (!hp::unhex(t[1], p)) return "bad-op";
          if (std::find(writtenPaths.begin(), writtenPaths.end(), p) == writtenPaths.end()) return "missing";
          std::ifstream in(p.c_str(), std::ios::binary);
          if (!in) return "missing";
          std::stringstream cur; cur << in.rdbuf();
          const occa::hash_t got = occa::hashFile(p);
          if (got != occa::hash(cur.str())) hp::oracle("hashFile(path) differs from the hash of the file's current contents (stale)");
          return got.getFullString();
        }
        if (t[0] == "rm" && t.size() == 2) {
          std::string p;
          if (!hp::unhex(t[1], p)) return "bad-op";
          ::unlink(p.c_str());
          writtenPaths.erase(std::remove(writtenPaths.begin(), writtenPaths.end(), p), writtenPaths.end());
          return "ok";
        }
        if (t[0] == "build" && t.size() == 1) {
          if (!dev.isInitialized() || !haveCfg) return "bad-op";
          const std::string file = sourceFile();
          {
            std::ifstream in(file.c_str(), std::ios::binary);
            std::stringstream cur;
            if (in) cur << in.rdbuf();
            if (!in || cur.str() != cfgSrc) {
              std::ofstream f(file.c_str(), std::ios::binary | std::ios::trunc);
              f << cfgSrc;
            }
          }
          // the key this build resolves to and whether its binary is already there
          occa::json kp;
          occa::hash_t kh;
          std::string key = "-";
          bool hadBinary = false;
          try {
            dev.setupKernelInfo(cfgProps, occa::hashFile(file), kp, kh);
            key = kh.getFullString();
            hadBinary = occa::io::isFile(occa::io::hashDir(kh) + occa::kc::binaryFile);
          } catch (occa::exception &e) {
            return "error key=- " + errClass(e.what());
          }
          occa::kernel k;
          try {
            k = dev.buildKernel(file, "f", cfgProps);
          } catch (occa::exception &e) {
            return "error key=" + key + " " + errClass(e.what());
          }
          if (!k.isInitialized()) return "error key=" + key + " no-kernel";
          if (k.hash().getFullString() != key)
            hp::oracle("kernel.hash() differs from the key setupKernelInfo resolved just before the build");
          if (k.binaryFilename().compare(0, occa::io::hashDir(kh).size(), occa::io::hashDir(kh)) != 0)
            hp::oracle("the binary is not in the cache directory of the kernel hash");
          int out[8] = {-1, -1, -1, -1, -1, -1, -1, -1};
          occa::memory m = dev.malloc<int>(8, out);
          k(m);
          dev.finish();
          m.copyTo(out);
          std::ostringstream ss;
          ss << (hadBinary ? "hit" : "miss") << " key=" << key << " out=";
          for (int i = 0; i < 8; ++i) ss << (i ? "," : "") << out[i];
          return ss.str();
        }
      } catch (occa::exception &e) {
        return std::string("exception ") + errClass(e.what());
      }
      return "bad-op";
    });
}
