// Shared by h_json.cpp (C24), h_jsonpath.cpp (C25) and h_props.cpp (C26): tree scripts -> occa::json built
// through the public API, the canonical rendering `show` (same format as lean/Driver/Json.lean), mapping of
// occa::exception messages to the model's error enum, and a small nested-dictionary reference (`Ref`) that
// the C25/C26 oracles compare the real json against.  Nothing in here calls the code under test except the
// constructors/`set`/`+=` used to BUILD values.
#pragma once
#include <occa.hpp>
#include <occa/types/json.hpp>
#include <occa/types/primitive.hpp>
#include <cmath>
#include <cstdint>
#include <map>
#include "hproto.hpp"

namespace jp {
  using occa::json;
  typedef std::vector<std::string> toks_t;

  inline std::string errName(const std::string &m) {
    static const char *tab[][2] = {
      {"Cannot load JSON", "cannotLoad"}, {"Unclosed string", "unclosedString"}, {"Expected hex value", "expectedHex"},
      {"Key cannot be of size 0", "keyEmpty"}, {"Key must be followed", "keyColon"},
      {"Object is missing closing", "objBrace"}, {"Object key-values should", "objSep"},
      {"Array values should", "arrSep"}, {"Array is missing closing", "arrBracket"},
      {"Cannot read value", "badValue"}, {"is not an object", "notObject"},
      {"Cannot apply operator +", "addTypes"}, {"Can only apply operator []", "notArray"},
      {"Type not set", "typeNotSet"}};
    for (auto &r : tab) if (m.find(r[0]) != std::string::npos) return std::string("err:") + r[1];
    return "err:other(" + m.substr(0, 40) + ")";
  }
  inline std::string errName(const occa::exception &e) { return errName(e.message); }

  inline bool startsWith(const std::string &s, const char *p) { return s.rfind(p, 0) == 0; }

  template <class T> json numJson(const std::string &v) {
    if (!v.empty() && v[0] == '-') return json((T) std::strtoll(v.c_str(), NULL, 10));
    return json((T) std::strtoull(v.c_str(), NULL, 10));
  }

  // One tree from t[i...]; objects are built with set() in script order (later duplicates win), arrays
  // with asArray() and +=.
  inline bool readTree(const toks_t &t, size_t &i, json &out) {
    if (i >= t.size()) return false;
    const std::string &k = t[i++];
    std::string b;
    if (k == "N") { out = json(); return true; }
    if (k == "Z") { out = json(); out.asNull(); return true; }
    if (k == "T") { out = json(true); return true; }
    if (k == "F") { out = json(false); return true; }
    if (startsWith(k, "S:")) { if (!hp::unhex(k.substr(2), b)) return false; out = json(b); return true; }
    if (startsWith(k, "P:")) {
      if (!hp::unhex(k.substr(2), b)) return false;
      out = json(occa::primitive::load(b));
      return true;
    }
    if (startsWith(k, "f32:")) {
      uint32_t u = (uint32_t) std::strtoull(k.c_str() + 4, NULL, 16); float f; std::memcpy(&f, &u, 4);
      out = json(f); return true;
    }
    if (startsWith(k, "f64:")) {
      uint64_t u = std::strtoull(k.c_str() + 4, NULL, 16); double d; std::memcpy(&d, &u, 8);
      out = json(d); return true;
    }
    if (k[0] == 'A' || k[0] == 'O') {
      char *end = NULL;
      long n = std::strtol(k.c_str() + 1, &end, 10);
      if (end == k.c_str() + 1 || *end || n < 0) return false;
      json r;
      if (k[0] == 'A') {
        r.asArray();
        for (long j = 0; j < n; ++j) {
          json c; if (!readTree(t, i, c)) return false;
          if (c.type == json::none_) r.array().push_back(c); else r += c;   // += ignores none_
        }
      } else {
        r.asObject();
        for (long j = 0; j < n; ++j) {
          if (i >= t.size() || !hp::unhex(t[i++], b)) return false;
          std::string key = b;
          json c; if (!readTree(t, i, c)) return false;
          r.set(key, c);
        }
      }
      out = r;
      return true;
    }
    size_t c = k.find(':');
    if (c == std::string::npos) return false;
    std::string ty = k.substr(0, c), v = k.substr(c + 1);
    if (v.empty()) return false;
    if (ty == "i8") out = numJson<int8_t>(v); else if (ty == "u8") out = numJson<uint8_t>(v);
    else if (ty == "i16") out = numJson<int16_t>(v); else if (ty == "u16") out = numJson<uint16_t>(v);
    else if (ty == "i32") out = numJson<int32_t>(v); else if (ty == "u32") out = numJson<uint32_t>(v);
    else if (ty == "i64") out = numJson<int64_t>(v); else if (ty == "u64") out = numJson<uint64_t>(v);
    else return false;
    return true;
  }
  inline bool readTree1(const toks_t &t, size_t from, json &out) {
    size_t i = from;
    return readTree(t, i, out) && i == t.size();
  }

  inline std::string showPrim(const occa::primitive &p) {
    std::ostringstream s;
    namespace pt = occa::primitiveType;
    switch (p.type) {
      case pt::bool_:   s << "#bool:" << (p.value.bool_ ? 1 : 0); break;
      case pt::int8_:   s << "#i8:" << (long long) p.value.int8_; break;
      case pt::uint8_:  s << "#u8:" << (unsigned long long) p.value.uint8_; break;
      case pt::int16_:  s << "#i16:" << (long long) p.value.int16_; break;
      case pt::uint16_: s << "#u16:" << (unsigned long long) p.value.uint16_; break;
      case pt::int32_:  s << "#i32:" << (long long) p.value.int32_; break;
      case pt::uint32_: s << "#u32:" << (unsigned long long) p.value.uint32_; break;
      case pt::int64_:  s << "#i64:" << (long long) p.value.int64_; break;
      case pt::uint64_: s << "#u64:" << (unsigned long long) p.value.uint64_; break;
      case pt::float_:  { uint32_t u; std::memcpy(&u, &p.value.float_, 4); s << "#f32:" << u; break; }
      case pt::double_: { uint64_t u; std::memcpy(&u, &p.value.double_, 8); s << "#f64:" << u; break; }
      case pt::none:    s << "#none:0"; break;
      default:          s << "#other:" << p.type; break;
    }
    s << ":" << hp::hex(p.source);
    return s.str();
  }

  inline std::string show(const json &j) {
    switch (j.type) {
      case json::none_: return "N";
      case json::null_: return "Z";
      case json::number_: return showPrim(j.number());
      case json::string_: return "S" + hp::hex(j.string());
      case json::array_: {
        std::string o = "["; bool first = true;
        for (const json &c : j.array()) { if (!first) o += ","; first = false; o += show(c); }
        return o + "]";
      }
      case json::object_: {
        std::string o = "{"; bool first = true;
        for (auto &kv : j.object()) { if (!first) o += ","; first = false; o += hp::hex(kv.first) + "=" + show(kv.second); }
        return o + "}";
      }
    }
    return "?";
  }

  // ---- classification of a value against the quantifier of C24 -------------------------------------
  struct Traits { bool none = false, nul = false, nanInf = false, emptyKey = false, srcNum = false; };
  inline void traits(const json &j, Traits &t, bool top = true) {
    switch (j.type) {
      case json::none_: t.none = true; break;
      case json::number_: {
        const occa::primitive &p = j.number();
        if (p.type == occa::primitiveType::float_ && !std::isfinite(p.value.float_)) t.nanInf = true;
        if (p.type == occa::primitiveType::double_ && !std::isfinite(p.value.double_)) t.nanInf = true;
        if (p.type == occa::primitiveType::none) t.none = true;
        if (p.source.size()) t.srcNum = true;
        break;
      }
      case json::string_: if (j.string().find('\0') != std::string::npos) t.nul = true; break;
      case json::array_: for (const json &c : j.array()) traits(c, t, false); break;
      case json::object_:
        for (auto &kv : j.object()) {
          if (kv.first.empty()) t.emptyKey = true;
          if (kv.first.find('\0') != std::string::npos) t.nul = true;
          traits(kv.second, t, false);
        }
        break;
      default: break;
    }
    (void) top;
  }

  // ---- nested-dictionary reference ----------------------------------------------------------------------
  // A dictionary node is undefined (a placeholder left by a non-const operator[]), a leaf (any non-object
  // json value, identified by its canonical rendering) or an object (key -> node).
  struct Ref {
    enum K { UNDEF, LEAF, OBJ } k = UNDEF;
    std::string leaf;
    std::map<std::string, Ref> m;
    bool operator==(const Ref &o) const {
      if (k != o.k) return false;
      if (k == LEAF) return leaf == o.leaf;
      if (k == OBJ) return m == o.m;
      return true;
    }
    bool operator!=(const Ref &o) const { return !(*this == o); }
  };
  inline Ref toRef(const json &j) {
    Ref r;
    if (j.type == json::none_) return r;
    if (j.type == json::object_) {
      r.k = Ref::OBJ;
      for (auto &kv : j.object()) r.m[kv.first] = toRef(kv.second);
      return r;
    }
    r.k = Ref::LEAF; r.leaf = show(j);
    return r;
  }
  inline std::string showRef(const Ref &r) {
    if (r.k == Ref::UNDEF) return "N";
    if (r.k == Ref::LEAF) return r.leaf;
    std::string o = "{"; bool first = true;
    for (auto &kv : r.m) { if (!first) o += ","; first = false; o += hp::hex(kv.first) + "=" + showRef(kv.second); }
    return o + "}";
  }
  // path -> keys: split at '/', a backslash protects the next character (and stays in the key),
  // a trailing empty segment is dropped
  inline std::vector<std::string> splitKeys(const std::string &pathIn) {
    std::string path = pathIn.substr(0, pathIn.find('\0'));
    std::vector<std::string> ks; std::string cur; size_t i = 0; bool pending = false;
    while (i < path.size()) {
      char c = path[i];
      if (c == '\\') { cur += c; if (i + 1 < path.size()) cur += path[i + 1]; i += 2; pending = true; continue; }
      if (c == '/') { ks.push_back(cur); cur.clear(); pending = false; ++i; continue; }
      cur += c; pending = true; ++i;
    }
    if (pending) ks.push_back(cur);
    return ks;
  }
  // write: creates missing intermediate objects; fails (returns false, nothing changed) when an existing
  // node on the way is a leaf
  inline bool refWritable(const Ref &root, const std::vector<std::string> &ks) {
    const Ref *r = &root;
    for (size_t i = 0; i < ks.size(); ++i) {
      if (r->k == Ref::UNDEF) return true;           // everything below is created
      if (r->k == Ref::LEAF) return false;
      auto it = r->m.find(ks[i]);
      if (it == r->m.end()) return true;
      r = &it->second;
    }
    return true;
  }
  inline Ref* refTouch(Ref &root, const std::vector<std::string> &ks) {
    Ref *r = &root;
    for (size_t i = 0; i < ks.size(); ++i) {
      if (r->k == Ref::UNDEF) r->k = Ref::OBJ;
      r = &r->m[ks[i]];
    }
    return r;
  }
  inline const Ref* refFind(const Ref &root, const std::vector<std::string> &ks) {
    const Ref *r = &root;
    for (size_t i = 0; i < ks.size(); ++i) {
      if (r->k != Ref::OBJ) return NULL;
      auto it = r->m.find(ks[i]);
      if (it == r->m.end()) return NULL;
      r = &it->second;
    }
    return r;
  }
  inline void refRemove(Ref &root, const std::vector<std::string> &ks) {
    if (ks.empty()) return;
    Ref *r = &root;
    for (size_t i = 0; i + 1 < ks.size(); ++i) {
      if (r->k != Ref::OBJ) return;
      auto it = r->m.find(ks[i]);
      if (it == r->m.end()) return;
      r = &it->second;
    }
    if (r->k == Ref::OBJ) r->m.erase(ks.back());
  }
  // a += b for dictionaries: recursive, right-hand side wins; members that are objects on both sides merge
  inline void refMerge(Ref &a, const Ref &b) {
    for (auto &kv : b.m) {
      auto it = a.m.find(kv.first);
      if (it != a.m.end() && it->second.k == Ref::OBJ && kv.second.k == Ref::OBJ) refMerge(it->second, kv.second);
      else a.m[kv.first] = kv.second;
    }
  }
}
