// C23 correspondence harness: drives the REAL occa::array / occa::range / occa::forLoop (JIT-compiled
// kernels on a Serial and an OpenMP device) with the operations of the line protocol (see
// lean/Driver/Func.lean) and evaluates the property's own oracle: every result is compared with the
// sequential std:: computation on the contents read back from the device before the operation
// (ints exactly; floats with a bound that holds for every summation order).
//
// Protocol (one op per line; `k`,`j`,`l` are slot numbers 0..7; all numbers decimal ints):
//   dev S|O                         select the device (Serial / OpenMP); clears all slots
//   swapdev                         switch to the other device; slots become unset but their objects are reused
//   new k n v1..vn                  occa::array<int>(dev, n) + copyFrom           -> len n
//   tile k ts ti | tile1 k ts       setTileSize(ts, ti) / setTileSize(ts)          -> ok
//   get k                           contents
//   map k j F p q | mapto k j F p q map<int> / mapTo<int> with function F (0,1,2 = arity 1,2,3)
//   every|some|find k P p           predicates P 0..4
//   foreach k j E p                 forEach writing into slot j through the scope (E 0,1,2)
//   reduce k R G p [init]           reduce<int|bool>(R, [init,] G)
//   min|max k, incl|idx|lidx k v, fill k v, rev k j, shl|shr k j off ev, dot k l,
//   clamp k j lo hi, cmin|cmax k j v, cast k j T, slice k j off cnt, concat k l j, clone k j,
//   resize k n, at k i, cpf k n v1..vn (copyFrom(ptr, n)), asg k j (j = copy of k, shares memory and tiling)
//   rlen A a b c                    range constructors (A = 1,2,3 arguments)      -> start end step len
//   r.every|r.some|r.find s e st ts ti P p,  r.map|r.mapto s e st ts ti j p q,  r.foreach s e st ts ti j,
//   r.reduce s e st ts ti R [init], r.toarr s e st ts ti j
//   loop <spec>.. [| <spec>..]      occa::forLoop: outer specs | inner specs; spec = n:N | r:s:e:st | a:k,
//                                   optional suffix :tT on every outer spec = forLoop::tile
//   f.* / d.*                       float / double arrays (values checked by the oracle only)
#include <occa.hpp>
#include <occa/functional.hpp>
#include <algorithm>
#include <cfloat>
#include <cmath>
#include <numeric>
#include "hproto.hpp"

using int2 = occa::int2;
using int3 = occa::int3;
typedef std::vector<std::string> toks_t;
typedef std::vector<int> ivec;

static occa::device devSerial, devOpenMP, dev;
static bool isOmp = false;

struct Slot { bool set = false; occa::array<int> a; };
static Slot slots[8];
struct FSlot { bool set = false; occa::array<float> a; };
static FSlot fslots[4];
struct DSlot { bool set = false; occa::array<double> a; };
static DSlot dslots[4];

static int I(const std::string &s) { return (int) std::strtol(s.c_str(), NULL, 10); }
static bool isnum(const std::string &s) {
  if (s.empty()) return false;
  size_t i = (s[0] == '-') ? 1 : 0;
  if (i >= s.size()) return false;
  for (; i < s.size(); ++i) if (s[i] < '0' || s[i] > '9') return false;
  return true;
}
static bool nums(const toks_t &t, size_t from) {
  for (size_t i = from; i < t.size(); ++i) if (!isnum(t[i])) return false;
  return true;
}
static bool slotOk(const std::string &s) { return isnum(s) && I(s) >= 0 && I(s) < 8; }

template <class T>
static std::vector<T> contents(const occa::array<T> &a) {
  std::vector<T> v(a.length());
  if (v.size()) a.copyTo(v.data());
  return v;
}
static std::string show(const ivec &v) {
  if (v.empty()) return "-";
  std::ostringstream ss;
  for (size_t i = 0; i < v.size(); ++i) ss << (i ? " " : "") << v[i];
  return ss.str();
}
static std::string showA(const occa::array<int> &a) { return show(contents(a)); }
static void expectEq(const ivec &got, const ivec &want, const std::string &what) {
  if (got != want) hp::oracle(what + ": got [" + show(got) + "] but the sequential computation gives [" + show(want) + "]");
}
static void expectVal(long got, long want, const std::string &what) {
  if (got != want) hp::oracle(what + ": got " + std::to_string(got) + " but the sequential computation gives " + std::to_string(want));
}

// histories must not see each other: the slot objects are destroyed and constructed again (assignment would
// keep members that array::operator= does not touch, e.g. the return buffer of another device)
template <class S>
static void rebuild(S &s) { s.~S(); new (&s) S(); }
static void reset() {
  for (auto &s : slots) rebuild(s);
  for (auto &s : fslots) rebuild(s);
  for (auto &s : dslots) rebuild(s);
  dev = devSerial;
  isOmp = false;
}
static std::string oneLine(const std::string &m, size_t n) {
  std::string o;
  for (char c : m) { if (c == '\n' || c == '\r') { if (!o.empty() && o.back() != ' ') o.push_back(' '); } else o.push_back(c); }
  while (o.find("  ") != std::string::npos) o.erase(o.find("  "), 1);
  return o.substr(0, n);
}

// ------------------------------------------------------------------ function menus (int arrays)
// sequential meaning of the menus (used by the oracle)
static int mapF(int F, int p, int q, const ivec &in, int i) {
  switch (F) {
    case 0: return in[i] * p + q;
    case 1: return in[i] + i * p + q;
    default: return in[i] * p - in[0] + q;
  }
}
static bool predP(int P, int p, const ivec &in, int i) {
  switch (P) {
    case 0: return in[i] > p;
    case 1: return in[i] + i > p;
    case 2: return in[i] == in[0] + p;
    case 3: return i == p;
    default: return in[i] == p;
  }
}

static occa::array<int> doMap(const occa::array<int> &a, int F, const int p, const int q) {
  occa::scope sc({{"p", p}, {"q", q}});
  switch (F) {
    case 0: return a.map<int>(OCCA_FUNCTION(sc, [=](const int &v) -> int { return v * p + q; }));
    case 1: return a.map<int>(OCCA_FUNCTION(sc, [=](const int &v, const int i) -> int { return v + i * p + q; }));
    default: return a.map<int>(OCCA_FUNCTION(sc, [=](const int &v, const int i, const int *vs) -> int { return vs[i] * p - vs[0] + q; }));
  }
}
static void doMapTo(const occa::array<int> &a, occa::array<int> &out, int F, const int p, const int q) {
  occa::scope sc({{"p", p}, {"q", q}});
  switch (F) {
    case 0: a.mapTo<int>(out, OCCA_FUNCTION(sc, [=](const int &v) -> int { return v * p + q; })); break;
    case 1: a.mapTo<int>(out, OCCA_FUNCTION(sc, [=](const int &v, const int i) -> int { return v + i * p + q; })); break;
    default: a.mapTo<int>(out, OCCA_FUNCTION(sc, [=](const int &v, const int i, const int *vs) -> int { return vs[i] * p - vs[0] + q; })); break;
  }
}
#define PRED_DISPATCH(CALL)                                                                                          \
  switch (P) {                                                                                                       \
    case 0: return a.CALL(OCCA_FUNCTION(sc, [=](const int &v) -> bool { return v > p; }));                            \
    case 1: return a.CALL(OCCA_FUNCTION(sc, [=](const int &v, const int i) -> bool { return v + i > p; }));           \
    case 2: return a.CALL(OCCA_FUNCTION(sc, [=](const int &v, const int i, const int *vs) -> bool { return vs[i] == vs[0] + p; })); \
    case 3: return a.CALL(OCCA_FUNCTION(sc, [=](const int &v, const int i) -> bool { return i == p; }));              \
    default: return a.CALL(OCCA_FUNCTION(sc, [=](const int &v) -> bool { return v == p; }));                          \
  }
static bool doEvery(const occa::array<int> &a, int P, const int p) { occa::scope sc({{"p", p}}); PRED_DISPATCH(every) }
static bool doSome(const occa::array<int> &a, int P, const int p) { occa::scope sc({{"p", p}}); PRED_DISPATCH(some) }
static int doFind(const occa::array<int> &a, int P, const int p) { occa::scope sc({{"p", p}}); PRED_DISPATCH(findIndex) }

// reductions: R = 0 sum 1 multiply 2 bitOr 3 bitAnd 4 bitXor 5 boolOr 6 boolAnd 7 min 8 max
static const occa::reductionType RT[9] = {
  occa::reductionType::sum, occa::reductionType::multiply, occa::reductionType::bitOr, occa::reductionType::bitAnd,
  occa::reductionType::bitXor, occa::reductionType::boolOr, occa::reductionType::boolAnd, occa::reductionType::min,
  occa::reductionType::max};
// G: 0 = the plain operation of R (arity 2); 1 = sum of v*i (arity 3); 2 = count of vs[i] > p (arity 4);
//    3 = acc - v (sum, arity 2); 4 = max of |v| (max, arity 2)
static bool reduceOk(int R, int G) {
  if (G == 0) return R >= 0 && R <= 8;
  if (G == 1 || G == 2 || G == 3) return R == 0;
  if (G == 4) return R == 8;
  return false;
}
static long reduceStep(int R, int G, int p, long acc, const ivec &in, int i) {
  const int v = in[i];
  switch (G) {
    case 1: return acc + (long) v * i;
    case 2: return acc + (in[i] > p ? 1 : 0);
    case 3: return acc - v;
    case 4: { const int m = v < 0 ? -v : v; return acc > m ? acc : m; }
    default: break;
  }
  switch (R) {
    case 0: return acc + v;
    case 1: return acc * v;
    case 2: return acc | v;
    case 3: return acc & v;
    case 4: return acc ^ v;
    case 5: return (acc || v) ? 1 : 0;
    case 6: return (acc && v) ? 1 : 0;
    case 7: return acc < v ? acc : v;
    default: return acc > v ? acc : v;
  }
}
template <class A>
static long doReduceInt(const A &a, int R, int G, const int p, bool useInit, const int init) {
  occa::scope sc({{"p", p}});
  const occa::reductionType rt = RT[R];
#define RED(T2, FN) (useInit ? (long) a.template reduce<T2>(rt, (T2) init, FN) : (long) a.template reduce<T2>(rt, FN))
  switch (G) {
    case 1: return RED(int, OCCA_FUNCTION(sc, [=](const int &acc, const int &v, const int i) -> int { return acc + v * i; }));
    case 2: return RED(int, OCCA_FUNCTION(sc, [=](const int &acc, const int &v, const int i, const int *vs) -> int { return acc + (vs[i] > p ? 1 : 0); }));
    case 3: return RED(int, OCCA_FUNCTION(sc, [=](const int &acc, const int &v) -> int { return acc - v; }));
    case 4: return RED(int, OCCA_FUNCTION(sc, [=](const int &acc, const int &v) -> int { const int m = v < 0 ? -v : v; return acc > m ? acc : m; }));
    default: break;
  }
  switch (R) {
    case 0: return RED(int, OCCA_FUNCTION(sc, [=](const int &acc, const int &v) -> int { return acc + v; }));
    case 1: return RED(int, OCCA_FUNCTION(sc, [=](const int &acc, const int &v) -> int { return acc * v; }));
    case 2: return RED(int, OCCA_FUNCTION(sc, [=](const int &acc, const int &v) -> int { return acc | v; }));
    case 3: return RED(int, OCCA_FUNCTION(sc, [=](const int &acc, const int &v) -> int { return acc & v; }));
    case 4: return RED(int, OCCA_FUNCTION(sc, [=](const int &acc, const int &v) -> int { return acc ^ v; }));
    case 5: return RED(bool, OCCA_FUNCTION(sc, [=](const bool &acc, const int &v) -> bool { return acc || v; }));
    case 6: return RED(bool, OCCA_FUNCTION(sc, [=](const bool &acc, const int &v) -> bool { return acc && v; }));
    case 7: return RED(int, OCCA_FUNCTION(sc, [=](const int &acc, const int &v) -> int { return acc < v ? acc : v; }));
    default: return RED(int, OCCA_FUNCTION(sc, [=](const int &acc, const int &v) -> int { return acc > v ? acc : v; }));
  }
#undef RED
}
// identity / first-element start value the sequential fold uses when no initial value is given
static bool seqReduce(int R, int G, int p, bool useInit, int init, const ivec &in, long &out) {
  long acc;
  size_t from = 0;
  if (useInit) acc = (R == 5 || R == 6) ? (init != 0) : init;
  else if (R == 0 || R == 2 || R == 4 || R == 5) acc = 0;
  else if (R == 1) acc = 1;
  else {                                        // bitAnd, boolAnd, min, max start from the first element
    if (in.empty()) return false;
    acc = (R == 6) ? 1 : in[0];
    if (G == 4) acc = 0;
    if (R != 6 && G != 4) from = 1;
  }
  for (size_t i = from; i < in.size(); ++i) acc = reduceStep(R, G, p, acc, in, (int) i);
  out = acc;
  return true;
}

// ------------------------------------------------------------------ ranges
static ivec rangeSeq(long s, long e, long st) {          // the sequential loop a range stands for
  ivec v;
  if (st > 0) for (long x = s; x < e; x += st) v.push_back((int) x);
  else if (st < 0) for (long x = s; x > e; x += st) v.push_back((int) x);
  return v;
}
static occa::range mkRange(long s, long e, long st, int ts, int ti) {
  occa::range r(dev, s, e, st);
  if (ts > 0 || ti > 0) r.setTileSize(ts, ti);
  return r;
}

// ------------------------------------------------------------------ floats
template <class T>
static std::vector<T> genFloats(int n, unsigned seed) {   // multiples of 1/8 in [-4, 4]: products/sums stay tame
  std::vector<T> v(n);
  unsigned x = seed * 2654435761u + 12345u;
  for (int i = 0; i < n; ++i) {
    x = x * 1664525u + 1013904223u;
    v[i] = (T) ((int) ((x >> 16) % 65) - 32) / (T) 8;
  }
  return v;
}
template <class T> static double epsOf();
template <> double epsOf<float>() { return FLT_EPSILON; }
template <> double epsOf<double>() { return DBL_EPSILON; }

template <class T>
static void expectClose(double got, double want, double sumAbs, size_t n, const std::string &what) {
  // any order of n-1 additions of rounded terms: |error| <= (n+2) * eps * sum|x_i| (first order), doubled for safety
  const double tol = 2.0 * (n + 2) * epsOf<T>() * sumAbs + 1e-30;
  if (!(std::fabs(got - want) <= tol)) {
    std::ostringstream ss;
    ss.precision(17);
    ss << what << ": got " << got << " but the sequential computation gives " << want << " (tolerance " << tol << ")";
    hp::oracle(ss.str());
  }
}

template <class T, class SLOT>
static std::string floatOp(SLOT *fs, const toks_t &t, const std::string &op) {
  // f.new k n seed | f.map k j | f.sum k | f.prod k | f.min k | f.max k | f.dot k l | f.clamp k j lo8 hi8
  // f.fill k v8 | f.toint k j (int slot) | f.fromint k j (k int slot) | f.tile k ts ti | f.slice k j off cnt | f.concat k l j
  auto fslot = [&](size_t i) -> int { return (t.size() > i && isnum(t[i]) && I(t[i]) >= 0 && I(t[i]) < 4) ? I(t[i]) : -1; };
  if (op == "new" && t.size() == 4 && nums(t, 1)) {
    const int k = fslot(1), n = I(t[2]);
    if (k < 0 || n < 0 || n > 4096) return "bad-op";
    std::vector<T> v = genFloats<T>(n, (unsigned) I(t[3]));
    fs[k].a = occa::array<T>(dev, n);
    if (n) fs[k].a.copyFrom(v.data());
    fs[k].set = true;
    if (contents(fs[k].a) != v) hp::oracle("float array does not read back what was copied in");
    return "len " + std::to_string(fs[k].a.length());
  }
  if (op == "fromint" && t.size() == 3 && nums(t, 1)) {
    const int k = I(t[1]), j = fslot(2);
    if (!slotOk(t[1]) || j < 0) return "bad-op";
    if (!slots[k].set) return "none";
    ivec in = contents(slots[k].a);
    fs[j].a = slots[k].a.template cast<T>();
    fs[j].set = true;
    std::vector<T> got = contents(fs[j].a), want(in.begin(), in.end());
    if (got != want) hp::oracle("cast<float>: result differs from the element-wise conversion");
    return "len " + std::to_string(fs[j].a.length());
  }
  const int k = fslot(1);
  if (k < 0) return "bad-op";
  if (!fs[k].set) return "none";
  occa::array<T> &a = fs[k].a;
  std::vector<T> in = contents(a);
  const size_t n = in.size();
  double sumAbs = 0;
  for (T x : in) sumAbs += std::fabs((double) x);
  if (op == "tile" && t.size() == 4 && nums(t, 1)) { a.setTileSize(I(t[2]), I(t[3])); return "ok"; }
  if (op == "map" && t.size() == 3) {
    const int j = fslot(2);
    if (j < 0) return "bad-op";
    occa::array<T> out = a.template map<T>(OCCA_FUNCTION([=](const T &v, const int i) -> T { return v * (T) 0.5 + (T) i; }));
    std::vector<T> got = contents(out), want(n);
    for (size_t i = 0; i < n; ++i) want[i] = in[i] * (T) 0.5 + (T) i;     // exact: one multiply by 0.5, one add of small values
    if (got != want) hp::oracle("float map: result differs from std::transform");
    fs[j].a = out; fs[j].set = true;
    return "len " + std::to_string(out.length());
  }
  if (op == "sum" && t.size() == 2) {
    const T got = a.template reduce<T>(occa::reductionType::sum, OCCA_FUNCTION([=](const T &acc, const T &v) -> T { return acc + v; }));
    double want = 0;
    for (T x : in) want += (double) x;
    expectClose<T>((double) got, want, sumAbs, n, "float sum");
    return "ok";
  }
  if (op == "prod" && t.size() == 2) {
    // product of (1 + v/64): every factor within [0.93, 1.07]; relative error <= n * eps (first order)
    const T got = a.template reduce<T>(occa::reductionType::multiply, OCCA_FUNCTION([=](const T &acc, const T &v) -> T { return acc * ((T) 1 + v / (T) 64); }));
    double want = 1;
    for (T x : in) want *= (1.0 + (double) x / 64.0);
    const double tol = 4.0 * (n + 2) * epsOf<T>() * std::fabs(want);
    if (!(std::fabs((double) got - want) <= tol)) hp::oracle("float product: outside the order-independent error bound");
    return "ok";
  }
  if ((op == "min" || op == "max") && t.size() == 2) {
    if (!n) return "empty";
    const T got = (op == "min") ? a.min() : a.max();
    const T want = (op == "min") ? *std::min_element(in.begin(), in.end()) : *std::max_element(in.begin(), in.end());
    if (got != want) hp::oracle("float " + op + ": differs from std::" + op + "_element");
    return "ok";
  }
  if (op == "dot" && t.size() == 3) {
    const int l = fslot(2);
    if (l < 0) return "bad-op";
    if (!fs[l].set) return "none";
    std::vector<T> other = contents(fs[l].a);
    if (other.size() < n) return "short";
    const T got = a.dotProduct(fs[l].a);
    double want = 0, sa = 0;
    for (size_t i = 0; i < n; ++i) { want += (double) in[i] * (double) other[i]; sa += std::fabs((double) in[i] * (double) other[i]); }
    expectClose<T>((double) got, want, sa, n + 1, "float dotProduct");
    return "ok";
  }
  if (op == "clamp" && t.size() == 5 && nums(t, 1)) {
    const int j = fslot(2);
    if (j < 0) return "bad-op";
    const T lo = (T) I(t[3]) / 8, hi = (T) I(t[4]) / 8;
    occa::array<T> out = a.clamp(lo, hi);
    std::vector<T> got = contents(out), want(n);
    for (size_t i = 0; i < n; ++i) { const T w = in[i] > hi ? hi : in[i]; want[i] = w < lo ? lo : w; }
    if (got != want) hp::oracle("float clamp: differs from the element-wise computation");
    fs[j].a = out; fs[j].set = true;
    return "len " + std::to_string(out.length());
  }
  if (op == "fill" && t.size() == 3 && nums(t, 1)) {
    const T v = (T) I(t[2]) / 8;
    a.fill(v);
    std::vector<T> got = contents(a), want(n, v);
    if (got != want) hp::oracle("float fill: not every element holds the fill value");
    return "len " + std::to_string(a.length());
  }
  if (op == "toint" && t.size() == 2) {
    occa::array<int> out = a.template cast<int>();
    ivec got = contents(out), want(n);
    for (size_t i = 0; i < n; ++i) want[i] = (int) in[i];
    expectEq(got, want, "cast<int> of a float array");
    return "len " + std::to_string(out.length());
  }
  if (op == "slice" && t.size() == 5 && nums(t, 1)) {
    const int j = fslot(2);
    if (j < 0) return "bad-op";
    const long off = I(t[3]), cnt = I(t[4]);
    if (off < 0 || off > (long) n || cnt < -1 || (cnt >= 0 && off + cnt > (long) n)) return "bad-op";
    occa::array<T> out = a.slice(off, cnt);
    std::vector<T> got = contents(out);
    std::vector<T> want(in.begin() + off, cnt < 0 ? in.end() : in.begin() + off + cnt);
    if (got != want) hp::oracle("float slice: wrong elements");
    fs[j].a = out; fs[j].set = true;
    return "len " + std::to_string(out.length());
  }
  if (op == "concat" && t.size() == 4) {
    const int l = fslot(2), j = fslot(3);
    if (l < 0 || j < 0) return "bad-op";
    if (!fs[l].set) return "none";
    std::vector<T> other = contents(fs[l].a);
    occa::array<T> out = a.concat(fs[l].a);
    std::vector<T> got = contents(out), want(in);
    want.insert(want.end(), other.begin(), other.end());
    if (got != want) hp::oracle("float concat: wrong elements");
    fs[j].a = out; fs[j].set = true;
    return "len " + std::to_string(out.length());
  }
  return "bad-op";
}

// ------------------------------------------------------------------ forLoop
struct Spec { char kind; long s, e, st; int slot; int tile; ivec vals; };
static bool parseSpec(const std::string &w, Spec &sp) {
  std::vector<std::string> f;
  std::string cur;
  for (char c : w) { if (c == ':') { f.push_back(cur); cur.clear(); } else cur.push_back(c); }
  f.push_back(cur);
  sp.tile = 0;
  if (f.size() >= 2 && f.back().size() > 1 && f.back()[0] == 't' && isnum(f.back().substr(1))) {
    sp.tile = I(f.back().substr(1));
    f.pop_back();
    if (sp.tile <= 0) return false;
  }
  if (f[0].size() != 1) return false;
  sp.kind = f[0][0];
  for (size_t i = 1; i < f.size(); ++i) if (!isnum(f[i])) return false;
  if (sp.kind == 'n' && f.size() == 2) { sp.s = 0; sp.e = I(f[1]); sp.st = sp.e >= 0 ? 1 : -1; return true; }
  if (sp.kind == 'r' && f.size() == 4) { sp.s = I(f[1]); sp.e = I(f[2]); sp.st = I(f[3]); return sp.st != 0; }
  if (sp.kind == 'a' && f.size() == 2) { sp.slot = I(f[1]); return sp.slot >= 0 && sp.slot < 8; }
  return false;
}
static occa::iteration mkIter(const Spec &sp) {
  occa::iteration it;
  if (sp.kind == 'n') it = occa::iteration((int) sp.e);
  else if (sp.kind == 'r') it = occa::iteration(occa::range(dev, sp.s, sp.e, sp.st));
  else it = occa::iteration(slots[sp.slot].a);
  return it;
}

static std::string loopOp(const toks_t &t) {
  std::vector<Spec> outer, inner;
  bool in = false, tiled = false;
  for (size_t i = 1; i < t.size(); ++i) {
    if (t[i] == "|") { if (in) return "bad-op"; in = true; continue; }
    Spec sp;
    if (!parseSpec(t[i], sp)) return "bad-op";
    if (sp.kind == 'a' && !slots[sp.slot].set) return "none";
    if (sp.tile) { if (in) return "bad-op"; tiled = true; }
    (in ? inner : outer).push_back(sp);
  }
  if (outer.empty() || outer.size() > 3 || inner.size() > 3) return "bad-op";
  if (tiled) {
    if (!inner.empty()) return "bad-op";
    for (auto &sp : outer) if (!sp.tile) return "bad-op";
  }
  // expected values per dimension (the sequential meaning) and the cell geometry of the counter array
  std::vector<Spec*> dims;
  for (auto &sp : outer) dims.push_back(&sp);
  for (auto &sp : inner) dims.push_back(&sp);
  const int nd = (int) dims.size();
  int lo[6] = {0, 0, 0, 0, 0, 0}, w[6] = {1, 1, 1, 1, 1, 1};
  long cells = 1;
  for (int d = 0; d < nd; ++d) {
    Spec &sp = *dims[d];
    if (sp.kind == 'a') sp.vals = contents(slots[sp.slot].a);
    else sp.vals = rangeSeq(sp.s, sp.e, sp.st);
    int mn = 0, mx = 0;
    if (!sp.vals.empty()) { mn = *std::min_element(sp.vals.begin(), sp.vals.end()); mx = *std::max_element(sp.vals.begin(), sp.vals.end()); }
    else if (sp.kind != 'a') { mn = mx = (int) sp.s; }
    const int margin = (sp.kind == 'a') ? 1 : (int) (2 * std::labs(sp.st));
    lo[d] = mn - margin;
    w[d] = mx + margin - lo[d] + 1;
    cells *= w[d];
    if (cells > (1L << 21)) return "bad-op";
  }
  occa::array<int> counts(dev, cells + 1);
  counts.fill(0);
  const int lo0 = lo[0], lo1 = lo[1], lo2 = lo[2], lo3 = lo[3], lo4 = lo[4], lo5 = lo[5];
  const int w0 = w[0], w1 = w[1], w2 = w[2], w3 = w[3], w4 = w[4], w5 = w[5];
  const int total = (int) cells;
  occa::scope sc({{"counts", counts}, {"total", total},
                  {"lo0", lo0}, {"lo1", lo1}, {"lo2", lo2}, {"lo3", lo3}, {"lo4", lo4}, {"lo5", lo5},
                  {"w0", w0}, {"w1", w1}, {"w2", w2}, {"w3", w3}, {"w4", w4}, {"w5", w5}});
  (void) w0;
  // (no top-level commas in a lambda body: OCCA_FUNCTION counts macro arguments)
  // the loop body: cell of the tuple (x0..x5), or the overflow cell `total` when a component is outside its window
#define CELL6(x0, x1, x2, x3, x4, x5)                                                                              \
  const int c0 = (x0) - lo0; const int c1 = (x1) - lo1; const int c2 = (x2) - lo2;                               \
  const int c3 = (x3) - lo3; const int c4 = (x4) - lo4; const int c5 = (x5) - lo5;                               \
  const bool inside = c0 >= 0 && c0 < w0 && c1 >= 0 && c1 < w1 && c2 >= 0 && c2 < w2 &&                          \
                      c3 >= 0 && c3 < w3 && c4 >= 0 && c4 < w4 && c5 >= 0 && c5 < w5;                            \
  const int cell = inside ? ((((c0 * w1 + c1) * w2 + c2) * w3 + c3) * w4 + c4) * w5 + c5 : total;               \
  counts[cell] += 1;
#define OUTER_ONLY(BODY) OKL("@inner"); for (int z = 0; z < 1; ++z) { BODY }
  occa::forLoop fl(dev);
  const int no = (int) outer.size(), ni = (int) inner.size();
  try {
    if (tiled) {
      if (no == 1) fl.tile(occa::tileIteration(mkIter(outer[0]), outer[0].tile))
        .run(OCCA_FUNCTION(sc, [=](const int o) -> void { CELL6(o, lo1, lo2, lo3, lo4, lo5) }));
      else if (no == 2) fl.tile(occa::tileIteration(mkIter(outer[0]), outer[0].tile), occa::tileIteration(mkIter(outer[1]), outer[1].tile))
        .run(OCCA_FUNCTION(sc, [=](const int2 o) -> void { CELL6(o.x, o.y, lo2, lo3, lo4, lo5) }));
      else fl.tile(occa::tileIteration(mkIter(outer[0]), outer[0].tile), occa::tileIteration(mkIter(outer[1]), outer[1].tile),
                   occa::tileIteration(mkIter(outer[2]), outer[2].tile))
        .run(OCCA_FUNCTION(sc, [=](const int3 o) -> void { CELL6(o.x, o.y, o.z, lo3, lo4, lo5) }));
    } else if (no == 1) {
      occa::outerForLoop1 ol = fl.outer(mkIter(outer[0]));
      if (ni == 0) ol.run(OCCA_FUNCTION(sc, [=](const int o) -> void { OUTER_ONLY(CELL6(o, lo1, lo2, lo3, lo4, lo5)) }));
      else if (ni == 1) ol.inner(mkIter(inner[0])).run(OCCA_FUNCTION(sc, [=](const int o, const int n) -> void { CELL6(o, n, lo2, lo3, lo4, lo5) }));
      else if (ni == 2) ol.inner(mkIter(inner[0]), mkIter(inner[1])).run(OCCA_FUNCTION(sc, [=](const int o, const int2 n) -> void { CELL6(o, n.x, n.y, lo3, lo4, lo5) }));
      else ol.inner(mkIter(inner[0]), mkIter(inner[1]), mkIter(inner[2])).run(OCCA_FUNCTION(sc, [=](const int o, const int3 n) -> void { CELL6(o, n.x, n.y, n.z, lo4, lo5) }));
    } else if (no == 2) {
      occa::outerForLoop2 ol = fl.outer(mkIter(outer[0]), mkIter(outer[1]));
      if (ni == 0) ol.run(OCCA_FUNCTION(sc, [=](const int2 o) -> void { OUTER_ONLY(CELL6(o.x, o.y, lo2, lo3, lo4, lo5)) }));
      else if (ni == 1) ol.inner(mkIter(inner[0])).run(OCCA_FUNCTION(sc, [=](const int2 o, const int n) -> void { CELL6(o.x, o.y, n, lo3, lo4, lo5) }));
      else if (ni == 2) ol.inner(mkIter(inner[0]), mkIter(inner[1])).run(OCCA_FUNCTION(sc, [=](const int2 o, const int2 n) -> void { CELL6(o.x, o.y, n.x, n.y, lo4, lo5) }));
      else ol.inner(mkIter(inner[0]), mkIter(inner[1]), mkIter(inner[2])).run(OCCA_FUNCTION(sc, [=](const int2 o, const int3 n) -> void { CELL6(o.x, o.y, n.x, n.y, n.z, lo5) }));
    } else {
      occa::outerForLoop3 ol = fl.outer(mkIter(outer[0]), mkIter(outer[1]), mkIter(outer[2]));
      if (ni == 0) ol.run(OCCA_FUNCTION(sc, [=](const int3 o) -> void { OUTER_ONLY(CELL6(o.x, o.y, o.z, lo3, lo4, lo5)) }));
      else if (ni == 1) ol.inner(mkIter(inner[0])).run(OCCA_FUNCTION(sc, [=](const int3 o, const int n) -> void { CELL6(o.x, o.y, o.z, n, lo4, lo5) }));
      else if (ni == 2) ol.inner(mkIter(inner[0]), mkIter(inner[1])).run(OCCA_FUNCTION(sc, [=](const int3 o, const int2 n) -> void { CELL6(o.x, o.y, o.z, n.x, n.y, lo5) }));
      else ol.inner(mkIter(inner[0]), mkIter(inner[1]), mkIter(inner[2])).run(OCCA_FUNCTION(sc, [=](const int3 o, const int3 n) -> void { CELL6(o.x, o.y, o.z, n.x, n.y, n.z) }));
    }
  } catch (occa::exception &e) {
    hp::oracle("forLoop raised an exception: " + oneLine(e.message, 160));
    return "err";
  }
#undef CELL6
#undef OUTER_ONLY
  ivec c = contents(counts);
  // expected: the cartesian product of the per-dimension sequential values, each tuple once
  std::vector<int> expect(cells, 0);
  {
    std::vector<size_t> ix(nd, 0);
    bool empty = false;
    for (int d = 0; d < nd; ++d) if (dims[d]->vals.empty()) empty = true;
    while (!empty) {
      long cell = 0;
      for (int d = 0; d < nd; ++d) cell = cell * w[d] + (dims[d]->vals[ix[d]] - lo[d]);
      expect[cell] += 1;
      int d = nd - 1;
      while (d >= 0 && ++ix[d] == dims[d]->vals.size()) { ix[d] = 0; --d; }
      if (d < 0) break;
    }
  }
  std::ostringstream ss;
  bool first = true, bad = (c[cells] != 0);
  for (long cell = 0; cell < cells; ++cell) {
    if (c[cell] != expect[cell]) bad = true;
    if (!c[cell]) continue;
    int comp[6];
    long r = cell;
    for (int d = nd - 1; d >= 0; --d) { comp[d] = (int) (r % w[d]) + lo[d]; r /= w[d]; }
    ss << (first ? "" : " ");
    for (int d = 0; d < nd; ++d) ss << (d ? "," : "") << comp[d];
    ss << "x" << c[cell];
    first = false;
  }
  if (c[cells]) ss << (first ? "" : " ") << "outside x" << c[cells];
  if (bad) hp::oracle("forLoop did not run its body exactly once per index tuple (visited: " + ss.str().substr(0, 300) + ")");
  std::string s = ss.str();
  return s.empty() ? "-" : s;
}

// ------------------------------------------------------------------ the step function
static std::string stepImpl(const toks_t &t) {
  if (t.empty()) return "bad-op";
  const std::string &op = t[0];
  if (op == "dev" && t.size() == 2 && (t[1] == "S" || t[1] == "O")) {
    reset();
    isOmp = (t[1] == "O");
    dev = isOmp ? devOpenMP : devSerial;
    return "ok";
  }
  if (op == "swapdev" && t.size() == 1) {
    // switch the device but KEEP the slot objects (marked unset): the next `new k` assigns an array of the
    // other device over an object that was used on this one
    isOmp = !isOmp;
    dev = isOmp ? devOpenMP : devSerial;
    for (auto &s : slots) s.set = false;
    for (auto &s : fslots) s.set = false;
    for (auto &s : dslots) s.set = false;
    return "ok";
  }
  if (op.rfind("f.", 0) == 0) return floatOp<float>(fslots, t, op.substr(2));
  if (op.rfind("d.", 0) == 0) return floatOp<double>(dslots, t, op.substr(2));
  if (op == "loop") return loopOp(t);
  if (!nums(t, 1)) return "bad-op";

  if (op == "rlen" && t.size() >= 3 && t.size() == (size_t) (2 + I(t[1]))) {
    const int A = I(t[1]);
    occa::range r = (A == 1) ? occa::range(dev, I(t[2])) : (A == 2) ? occa::range(dev, I(t[2]), I(t[3]))
                                                                    : occa::range(dev, I(t[2]), I(t[3]), I(t[4]));
    ivec seq = rangeSeq(r.start, r.end, r.step);
    expectVal((long) r.length(), (long) seq.size(), "range::length");
    std::ostringstream ss;
    ss << r.start << " " << r.end << " " << r.step << " " << r.length();
    return ss.str();
  }
  if (op.rfind("r.", 0) == 0) {
    if (t.size() < 6) return "bad-op";
    const long s = I(t[1]), e = I(t[2]);
    long st = I(t[3]);
    const int ts = I(t[4]), ti = I(t[5]);
    occa::range r = mkRange(s, e, st, ts, ti);
    st = r.step;
    const ivec seq = rangeSeq(s, e, st);
    const int n = (int) seq.size();
    const std::string rop = op.substr(2);
    if ((rop == "every" || rop == "some" || rop == "find") && t.size() == 8) {
      const int P = I(t[6]);
      const int p = I(t[7]);
      occa::scope sc({{"p", p}});
      auto pred = [&](int x) { return P == 0 ? x > p : x == p; };
      if (rop == "every") {
        const bool got = (P == 0) ? r.every(OCCA_FUNCTION(sc, [=](const int x) -> bool { return x > p; }))
                                  : r.every(OCCA_FUNCTION(sc, [=](const int x) -> bool { return x == p; }));
        expectVal(got, std::all_of(seq.begin(), seq.end(), pred), "range every");
        return got ? "1" : "0";
      }
      if (rop == "some") {
        const bool got = (P == 0) ? r.some(OCCA_FUNCTION(sc, [=](const int x) -> bool { return x > p; }))
                                  : r.some(OCCA_FUNCTION(sc, [=](const int x) -> bool { return x == p; }));
        expectVal(got, std::any_of(seq.begin(), seq.end(), pred), "range some");
        return got ? "1" : "0";
      }
      const int got = (P == 0) ? r.findIndex(OCCA_FUNCTION(sc, [=](const int x) -> bool { return x > p; }))
                               : r.findIndex(OCCA_FUNCTION(sc, [=](const int x) -> bool { return x == p; }));
      auto it = std::find_if(seq.begin(), seq.end(), pred);
      const int want = (it == seq.end()) ? -1 : (int) (it - seq.begin());
      const long matches = std::count_if(seq.begin(), seq.end(), pred);
      expectVal(got, want, "range findIndex (first match)");
      if (isOmp && matches > 1 && got >= 0 && got < n && pred(seq[got])) return "race";
      return std::to_string(got);
    }
    if ((rop == "map" || rop == "mapto") && t.size() == 9 && slotOk(t[6])) {
      const int j = I(t[6]);
      const int p = I(t[7]), q = I(t[8]);
      occa::scope sc({{"p", p}, {"q", q}});
      ivec want(n);
      for (int i = 0; i < n; ++i) want[i] = seq[i] * p + q;
      if (rop == "map") {
        slots[j].a = r.map<int>(OCCA_FUNCTION(sc, [=](const int x) -> int { return x * p + q; }));
        slots[j].set = true;
      } else {
        if (!slots[j].set) return "none";
        r.mapTo<int>(slots[j].a, OCCA_FUNCTION(sc, [=](const int x) -> int { return x * p + q; }));
      }
      ivec got = contents(slots[j].a);
      expectEq(got, want, "range " + rop);
      return show(got);
    }
    if (rop == "toarr" && t.size() == 7 && slotOk(t[6])) {
      const int j = I(t[6]);
      slots[j].a = r.toArray();
      slots[j].set = true;
      ivec got = contents(slots[j].a);
      expectEq(got, seq, "range toArray");
      return show(got);
    }
    if (rop == "foreach" && t.size() == 7 && slotOk(t[6])) {
      const int j = I(t[6]);
      // the body marks cell (x - lo) of a counter array; every value of the range must be marked once
      const int lo = n ? std::min(seq.front(), seq.back()) : 0;
      const int hi = n ? std::max(seq.front(), seq.back()) : 0;
      const int m = hi - lo + 1;
      occa::array<int> out(dev, m + 1);
      out.fill(0);
      occa::scope sc({{"out", out}, {"lo", lo}, {"m", m}});
      r.forEach(OCCA_FUNCTION(sc, [=](const int x) -> void {
        const int c = x - lo;
        if (c >= 0 && c < m) { out[c] += 1; } else { out[m] += 1; }
      }));
      ivec got = contents(out), want(m + 1, 0);
      for (int x : seq) want[x - lo] += 1;
      expectEq(got, want, "range forEach (visit counts per value)");
      slots[j].a = out; slots[j].set = true;
      return show(got);
    }
    if (rop == "reduce" && (t.size() == 7 || t.size() == 8)) {
      const int R = I(t[6]);
      if (!(R == 0 || R == 1 || R == 7 || R == 8)) return "bad-op";
      const bool useInit = t.size() == 8;
      const int init = useInit ? I(t[7]) : 0;
      if (!useInit && (R == 7 || R == 8) && n == 0) return "empty";
      const occa::reductionType rt = RT[R];
      long got;
#define RRED(FN) (useInit ? (long) r.reduce<int>(rt, init, FN) : (long) r.reduce<int>(rt, FN))
      if (R == 0) got = RRED(OCCA_FUNCTION([=](const int &acc, const int x) -> int { return acc + x; }));
      else if (R == 1) got = RRED(OCCA_FUNCTION([=](const int &acc, const int x) -> int { return acc * (x % 3 + 1); }));
      else if (R == 7) got = RRED(OCCA_FUNCTION([=](const int &acc, const int x) -> int { return acc < x ? acc : x; }));
      else got = RRED(OCCA_FUNCTION([=](const int &acc, const int x) -> int { return acc > x ? acc : x; }));
#undef RRED
      long acc = useInit ? init : (R == 0 ? 0 : R == 1 ? 1 : seq[0]);
      for (int x : seq) acc = (R == 0) ? acc + x : (R == 1) ? acc * (x % 3 + 1) : (R == 7) ? std::min<long>(acc, x) : std::max<long>(acc, x);
      expectVal(got, acc, "range reduce");
      return std::to_string(got);
    }
    return "bad-op";
  }

  // ---- int array ops: first argument is a slot
  if (t.size() < 2 || !slotOk(t[1])) return "bad-op";
  const int k = I(t[1]);
  if (op == "new" && t.size() >= 3 && (int) t.size() == 3 + I(t[2])) {
    const int n = I(t[2]);
    ivec v(n);
    for (int i = 0; i < n; ++i) v[i] = I(t[3 + i]);
    slots[k].a = occa::array<int>(dev, n);
    if (n) slots[k].a.copyFrom(v.data());
    slots[k].set = true;
    expectEq(contents(slots[k].a), v, "array does not read back what was copied in");
    return "len " + std::to_string(slots[k].a.length());
  }
  if (!slots[k].set) return "none";
  occa::array<int> &a = slots[k].a;
  const ivec in = contents(a);
  const int n = (int) in.size();

  if (op == "get" && t.size() == 2) return show(in);
  if (op == "tile" && t.size() == 4) { a.setTileSize(I(t[2]), I(t[3])); return "ok"; }
  if (op == "tile1" && t.size() == 3) { a.setTileSize(I(t[2])); return "ok"; }
  if ((op == "map" || op == "mapto") && t.size() == 6 && slotOk(t[2])) {
    const int j = I(t[2]), F = I(t[3]), p = I(t[4]), q = I(t[5]);
    if (F < 0 || F > 2) return "bad-op";
    ivec want(n);
    for (int i = 0; i < n; ++i) want[i] = mapF(F, p, q, in, i);
    if (op == "map") {
      occa::array<int> out = doMap(a, F, p, q);
      slots[j].a = out;
      slots[j].set = true;
    } else {
      if (!slots[j].set) return "none";
      doMapTo(a, slots[j].a, F, p, q);
    }
    ivec got = contents(slots[j].a);
    expectEq(got, want, op);
    return show(got);
  }
  if ((op == "every" || op == "some" || op == "find") && t.size() == 4) {
    const int P = I(t[2]), p = I(t[3]);
    if (P < 0 || P > 4) return "bad-op";
    int first = -1, matches = 0;
    bool all = true;
    for (int i = 0; i < n; ++i) {
      const bool b = predP(P, p, in, i);
      if (b) { if (first < 0) first = i; ++matches; } else all = false;
    }
    if (op == "every") { const bool got = doEvery(a, P, p); expectVal(got, all, "every"); return got ? "1" : "0"; }
    if (op == "some") { const bool got = doSome(a, P, p); expectVal(got, matches > 0, "some"); return got ? "1" : "0"; }
    const int got = doFind(a, P, p);
    expectVal(got, first, "findIndex (first match)");
    if (isOmp && matches > 1 && got >= 0 && got < n && predP(P, p, in, got)) return "race";
    return std::to_string(got);
  }
  if (op == "foreach" && t.size() == 5 && slotOk(t[2])) {
    const int j = I(t[2]), E = I(t[3]), p = I(t[4]);
    if (E < 0 || E > 2) return "bad-op";
    if (!slots[j].set) return "none";
    if (j == k) return "bad-op";
    occa::array<int> out = slots[j].a;
    ivec want = contents(out);
    const int m = (int) want.size();
    if ((E != 0 && m < n) || m == 0) return "short";     // (an empty array in a scope is an untyped pointer)
    for (int i = 0; i < n; ++i) {
      if (E == 0) { if (in[i] >= 0 && in[i] < m) want[in[i]] = p; }
      else if (E == 1) want[i] = in[i] + p;
      else want[i] = in[i] - in[0] + i + p;
    }
    occa::scope sc({{"out", out}, {"p", p}, {"m", m}});
    if (E == 0) a.forEach(OCCA_FUNCTION(sc, [=](const int &v) -> void { if (v >= 0 && v < m) { out[v] = p; } }));
    else if (E == 1) a.forEach(OCCA_FUNCTION(sc, [=](const int &v, const int i) -> void { out[i] = v + p; }));
    else a.forEach(OCCA_FUNCTION(sc, [=](const int &v, const int i, const int *vs) -> void { out[i] = vs[i] - vs[0] + i + p; }));
    ivec got = contents(out);
    expectEq(got, want, "forEach (effects on the output array)");
    return show(got);
  }
  if (op == "reduce" && (t.size() == 5 || t.size() == 6)) {
    const int R = I(t[2]), G = I(t[3]), p = I(t[4]);
    if (!reduceOk(R, G)) return "bad-op";
    const bool useInit = t.size() == 6;
    const int init = useInit ? I(t[5]) : 0;
    long want = 0;
    if (!seqReduce(R, G, p, useInit, init, in, want)) return "empty";     // no value defined: not exercised
    const long got = doReduceInt(a, R, G, p, useInit, init);
    expectVal(got, want, "reduce");
    return std::to_string(got);
  }
  if ((op == "min" || op == "max") && t.size() == 2) {
    if (!n) return "empty";
    const int got = (op == "min") ? a.min() : a.max();
    expectVal(got, (op == "min") ? *std::min_element(in.begin(), in.end()) : *std::max_element(in.begin(), in.end()), op);
    return std::to_string(got);
  }
  if (op == "incl" && t.size() == 3) {
    const bool got = a.includes(I(t[2]));
    expectVal(got, std::find(in.begin(), in.end(), I(t[2])) != in.end(), "includes");
    return got ? "1" : "0";
  }
  if (op == "idx" && t.size() == 3) {
    const long got = a.indexOf(I(t[2]));
    auto it = std::find(in.begin(), in.end(), I(t[2]));
    expectVal(got, it == in.end() ? -1 : (long) (it - in.begin()), "indexOf");
    return std::to_string(got);
  }
  if (op == "lidx" && t.size() == 3) {
    const long got = a.lastIndexOf(I(t[2]));
    long want = -1;
    for (int i = 0; i < n; ++i) if (in[i] == I(t[2])) want = i;
    expectVal(got, want, "lastIndexOf");
    return std::to_string(got);
  }
  if (op == "fill" && t.size() == 3) {
    a.fill(I(t[2]));
    ivec got = contents(a);
    expectEq(got, ivec(n, I(t[2])), "fill");
    return show(got);
  }
  if (op == "rev" && t.size() == 3 && slotOk(t[2])) {
    const int j = I(t[2]);
    occa::array<int> out = a.reverse();
    slots[j].a = out; slots[j].set = true;
    ivec got = contents(out), want(in.rbegin(), in.rend());
    expectEq(got, want, "reverse");
    return show(got);
  }
  if ((op == "shl" || op == "shr") && t.size() == 5 && slotOk(t[2])) {
    const int j = I(t[2]), off = I(t[3]), ev = I(t[4]);
    if (off < 0) return "bad-op";
    occa::array<int> out = (op == "shl") ? a.shiftLeft(off, ev) : a.shiftRight(off, ev);
    slots[j].a = out; slots[j].set = true;
    ivec got = contents(out), want(n, ev);
    for (int i = 0; i < n; ++i) {
      if (op == "shl") { if ((long) i + off < n) want[i] = in[i + off]; }
      else if (i - off >= 0) want[i] = in[i - off];
    }
    expectEq(got, want, op == "shl" ? "shiftLeft" : "shiftRight");
    return show(got);
  }
  if (op == "dot" && t.size() == 3 && slotOk(t[2])) {
    const int l = I(t[2]);
    if (!slots[l].set) return "none";
    ivec other = contents(slots[l].a);
    if ((int) other.size() < n) return "short";
    const long got = a.dotProduct(slots[l].a);
    long want = 0;
    for (int i = 0; i < n; ++i) want += (long) in[i] * other[i];
    expectVal(got, want, "dotProduct");
    return std::to_string(got);
  }
  if (op == "clamp" && t.size() == 5 && slotOk(t[2])) {
    const int j = I(t[2]), lo = I(t[3]), hi = I(t[4]);
    occa::array<int> out = a.clamp(lo, hi);
    slots[j].a = out; slots[j].set = true;
    ivec got = contents(out), want(n);
    for (int i = 0; i < n; ++i) { const int w = in[i] > hi ? hi : in[i]; want[i] = w < lo ? lo : w; }
    expectEq(got, want, "clamp");
    return show(got);
  }
  if ((op == "cmin" || op == "cmax") && t.size() == 4 && slotOk(t[2])) {
    const int j = I(t[2]), v = I(t[3]);
    occa::array<int> out = (op == "cmin") ? a.clampMin(v) : a.clampMax(v);
    slots[j].a = out; slots[j].set = true;
    ivec got = contents(out), want(n);
    for (int i = 0; i < n; ++i) want[i] = (op == "cmin") ? std::max(in[i], v) : std::min(in[i], v);
    expectEq(got, want, op == "cmin" ? "clampMin" : "clampMax");
    return show(got);
  }
  if (op == "cast" && t.size() == 4 && slotOk(t[2])) {
    // through another element type and back: T = 0 char, 1 long, 2 float, 3 double
    const int j = I(t[2]), T = I(t[3]);
    ivec want(n), got;
    occa::array<int> out;
    if (T == 0) { for (int i = 0; i < n; ++i) want[i] = (int) (char) in[i]; out = a.cast<char>().cast<int>(); }
    else if (T == 1) { for (int i = 0; i < n; ++i) want[i] = (int) (long) in[i]; out = a.cast<long>().cast<int>(); }
    else if (T == 2) { for (int i = 0; i < n; ++i) want[i] = (int) (float) in[i]; out = a.cast<float>().cast<int>(); }
    else if (T == 3) { for (int i = 0; i < n; ++i) want[i] = (int) (double) in[i]; out = a.cast<double>().cast<int>(); }
    else return "bad-op";
    slots[j].a = out; slots[j].set = true;
    got = contents(out);
    expectEq(got, want, "cast");
    return show(got);
  }
  if (op == "slice" && t.size() == 5 && slotOk(t[2])) {
    const int j = I(t[2]);
    const long off = I(t[3]), cnt = I(t[4]);
    if (off < 0 || off > n || cnt < -1 || (cnt >= 0 && off + cnt > n)) return "bad-op";   // invalid requests belong to C02
    occa::array<int> out = a.slice(off, cnt);
    slots[j].a = out; slots[j].set = true;
    ivec got = contents(out), want(in.begin() + off, cnt < 0 ? in.end() : in.begin() + off + cnt);
    expectEq(got, want, "slice");
    return show(got);
  }
  if (op == "concat" && t.size() == 4 && slotOk(t[2]) && slotOk(t[3])) {
    const int l = I(t[2]), j = I(t[3]);
    if (!slots[l].set) return "none";
    ivec other = contents(slots[l].a), want(in);
    want.insert(want.end(), other.begin(), other.end());
    occa::array<int> out = a.concat(slots[l].a);
    slots[j].a = out; slots[j].set = true;
    ivec got = contents(out);
    expectEq(got, want, "concat");
    return show(got);
  }
  if (op == "clone" && t.size() == 3 && slotOk(t[2])) {
    const int j = I(t[2]);
    occa::array<int> out = a.clone();
    slots[j].a = out; slots[j].set = true;
    ivec got = contents(out);
    expectEq(got, in, "clone");
    return show(got);
  }
  if (op == "asg" && t.size() == 3 && slotOk(t[2])) {
    const int j = I(t[2]);
    slots[j].a = a; slots[j].set = true;
    return "len " + std::to_string(slots[j].a.length());
  }
  if (op == "resize" && t.size() == 3) {
    const int m = I(t[2]);
    if (m < 0 || m > 4096) return "bad-op";
    a.resize(m);
    ivec got = contents(a);
    if ((int) got.size() != m) hp::oracle("resize: wrong length");
    for (int i = 0; i < std::min(n, m); ++i) if (got[i] != in[i]) { hp::oracle("resize: did not keep the common prefix"); break; }
    return "len " + std::to_string(a.length());
  }
  if (op == "at" && t.size() == 3) {
    const int i = I(t[2]);
    if (i < 0 || i >= n) return "bad-op";
    const int got = a[i];
    expectVal(got, in[i], "operator[]");
    return std::to_string(got);
  }
  if (op == "cpf" && t.size() >= 3 && (int) t.size() == 3 + I(t[2])) {
    const int m = I(t[2]);
    if (m < 1 || m > n) return "bad-op";
    ivec v(m), want(in);
    for (int i = 0; i < m; ++i) { v[i] = I(t[3 + i]); want[i] = v[i]; }
    a.copyFrom(v.data(), m);
    ivec got = contents(a);
    expectEq(got, want, "copyFrom(ptr, entries)");
    return show(got);
  }
  return "bad-op";
}

int main() {
  std::cout << std::unitbuf;
  devSerial = occa::device({{"mode", "Serial"}});
  devOpenMP = occa::device({{"mode", "OpenMP"}});
  return hp::run(
    []() { reset(); },
    [](const toks_t &t) -> std::string {
      try {
        return stepImpl(t);
      } catch (occa::exception &e) {
        // no operation of the generated histories is an invalid request: an exception breaks the property
        hp::oracle("occa::exception: " + oneLine(e.message, 200));
        return "err";
      }
    });
}
