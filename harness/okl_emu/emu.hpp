// Emulation of the launch model the OKL GPU translations are written against
// (DESIGN.md section 4, C20): a grid of blocks, each a group of threads; the threads of a block
// run in lock-step between barriers -- here: one at a time, in thread order, each up to its next
// barrier (or its end); when all have stopped the next phase starts.  Blocks run one after the other.
// Only one emulated thread runs at any time, so the emulation is deterministic and ASan-clean.
#pragma once
#include <condition_variable>
#include <cstdio>
#include <cstdlib>
#include <functional>
#include <mutex>
#include <thread>
#include <vector>

namespace emu {
  struct Dim3 { unsigned x, y, z; };
  inline thread_local Dim3 tBlock = {0, 0, 0}, tThread = {0, 0, 0};
  inline Dim3 gGrid = {1, 1, 1}, gGroup = {1, 1, 1};
  inline int divergentBarriers = 0;      // a barrier that some threads of a block reached and others did not

  struct Sched {
    std::mutex m;
    std::condition_variable cv;
    int n = 0, turn = 0;
    long blocksLeft = 0;                 // blocks still to run after the current one
    std::vector<int> st;                 // 0 to run in this phase, 1 waiting at a barrier, 2 finished the block
    void advance(int t) {
      for (int u = t + 1; u < n; ++u) if (st[u] == 0) { turn = u; return; }
      bool anyb = false, anyd = false;
      for (int u = 0; u < n; ++u) { anyb |= (st[u] == 1); anyd |= (st[u] == 2); }
      if (!anyb) {
        // the block is finished: start the next one with the same threads, or stop
        if (blocksLeft > 0) { --blocksLeft; for (int u = 0; u < n; ++u) st[u] = 0; turn = 0; }
        else turn = -1;
        return;
      }
      if (anyd) ++divergentBarriers;
      for (int u = 0; u < n; ++u) if (st[u] == 1) st[u] = 0;
      for (int u = 0; u < n; ++u) if (st[u] == 0) { turn = u; return; }
    }
    void waitTurn(int t) { std::unique_lock<std::mutex> l(m); cv.wait(l, [&] { return turn == t; }); }
    void stop(int t, int state) {
      std::unique_lock<std::mutex> l(m);
      st[t] = state;
      advance(t);
      cv.notify_all();
      if (state == 1) cv.wait(l, [&] { return turn == t; });
    }
  };
  inline thread_local Sched *tSched = nullptr;
  inline thread_local int tId = 0;

  inline void barrier() { if (tSched) tSched->stop(tId, 1); }

  // run `body` once per thread of every block (the same n OS threads serve all blocks, one block after the other)
  inline void launch(Dim3 grid, Dim3 group, const std::function<void()> &body) {
    gGrid = grid; gGroup = group;
    const int n = (int) (group.x * group.y * group.z);
    const long blocks = (long) grid.x * grid.y * grid.z;
    if (n <= 0 || blocks <= 0) return;
    Sched s;
    s.n = n; s.turn = 0; s.st.assign(n, 0); s.blocksLeft = blocks - 1;
    std::vector<std::thread> ts;
    for (int t = 0; t < n; ++t) {
      ts.emplace_back([&, t]() {
        tSched = &s; tId = t;
        tThread = {(unsigned) t % group.x, ((unsigned) t / group.x) % group.y, (unsigned) t / (group.x * group.y)};
        for (unsigned bz = 0; bz < grid.z; ++bz) for (unsigned by = 0; by < grid.y; ++by) for (unsigned bx = 0; bx < grid.x; ++bx) {
          tBlock = {bx, by, bz};
          s.waitTurn(t);
          body();
          s.stop(t, 2);
        }
      });
    }
    for (auto &th : ts) th.join();
  }
}
