// Stand-in for the small part of SYCL that dpcppParser's output uses.
#pragma once
#include "../emu.hpp"
#include <map>
#define SYCL_EXTERNAL
namespace sycl {
  template <int D> struct range { size_t v[D]; range(size_t a, size_t b, size_t c) : v{a, b, c} {} size_t operator[](int i) const { return v[i]; } };
  template <int D> struct nd_range { range<D> global, local; nd_range(range<D> g, range<D> l) : global(g), local(l) {} };
  namespace access { enum class fence_space { local_space, global_space, global_and_local }; enum class address_space { global_space, local_space }; }
  enum class memory_order { relaxed, acq_rel, seq_cst };
  enum class memory_scope { work_item, sub_group, work_group, device, system };
  template <int D> struct group { };
  template <int D> struct nd_item {
    size_t get_group(int i) const { const emu::Dim3 &b = emu::tBlock; return i == 2 ? b.x : (i == 1 ? b.y : b.z); }
    size_t get_local_id(int i) const { const emu::Dim3 &t = emu::tThread; return i == 2 ? t.x : (i == 1 ? t.y : t.z); }
    group<D> get_group() const { return group<D>(); }
    void barrier(access::fence_space) const { emu::barrier(); }
  };
  struct handler {
    template <class F> void parallel_for(nd_range<3> r, F f) {
      emu::Dim3 grp = {(unsigned) r.local[2], (unsigned) r.local[1], (unsigned) r.local[0]};
      emu::Dim3 grid = {(unsigned) (r.global[2] / (grp.x ? grp.x : 1)), (unsigned) (r.global[1] / (grp.y ? grp.y : 1)),
                        (unsigned) (r.global[0] / (grp.z ? grp.z : 1))};
      emu::launch(grid, grp, [&]() { f(nd_item<3>()); });
    }
  };
  struct queue { template <class F> void submit(F f) { handler h; f(h); } };
  template <class T, memory_order O, memory_scope S, access::address_space A> struct atomic_ref {
    T &r; atomic_ref(T &x) : r(x) {}
    T operator+=(T v) { return r += v; } T operator-=(T v) { return r -= v; }
    T operator++() { return ++r; } T operator++(int) { return r++; } T operator--() { return --r; } T operator--(int) { return r--; }
    T operator=(T v) { return r = v; } operator T() const { return r; }
    T operator&=(T v) { return r &= v; } T operator|=(T v) { return r |= v; } T operator^=(T v) { return r ^= v; }
  };
  namespace ext { namespace oneapi {
    // one object per call site (the template is instantiated per lambda type is not available here):
    // keyed by the address of a static tag local to each instantiation of T and call site line is not
    // known, so storage is keyed by type and reused -- every kernel declares distinct array types or
    // rewrites the contents before reading (a @shared array is uninitialised at kernel start anyway)
    template <class T, class G> T *group_local_memory_for_overwrite(G) { static T storage; return &storage; }
  } }
}
