#pragma once
#include "emu.hpp"
#define __kernel
#define __global
#define __constant const
#define __local static
#define restrict __restrict__
#define CLK_LOCAL_MEM_FENCE 1
#define CLK_GLOBAL_MEM_FENCE 2
inline unsigned pick(emu::Dim3 d, int i) { return i == 0 ? d.x : (i == 1 ? d.y : d.z); }
inline size_t get_group_id(int i) { return pick(emu::tBlock, i); }
inline size_t get_local_id(int i) { return pick(emu::tThread, i); }
inline size_t get_local_size(int i) { return pick(emu::gGroup, i); }
inline size_t get_num_groups(int i) { return pick(emu::gGrid, i); }
inline size_t get_global_id(int i) { return get_group_id(i) * get_local_size(i) + get_local_id(i); }
inline void barrier(int) { emu::barrier(); }
