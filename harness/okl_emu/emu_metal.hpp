#pragma once
#include "emu.hpp"
struct uint3 { unsigned x, y, z; };
namespace metal { namespace mem_flags { enum { mem_threadgroup = 1, mem_device = 2 }; }
  inline void threadgroup_barrier(int) { emu::barrier(); } }
#define kernel
#define device
#define constant const
#define threadgroup static
