// Stand-in for the host API used by the launcher source that withLauncher generates.
#pragma once
#include "../../emu.hpp"
namespace occa {
  struct dim {
    int dims = 0;
    size_t x = 1, y = 1, z = 1;
    size_t& operator[](int i) { return i == 0 ? x : (i == 1 ? y : z); }
  };
  struct modeMemory_t;
  // one per extracted device kernel: a thunk that unpacks the type-erased arguments
  struct modeKernel_t { void (*thunk)(dim outer, dim inner, void **args); };
  struct kernel {
    modeKernel_t *k;
    dim outer, inner;
    kernel(modeKernel_t *k_) : k(k_) {}
    void setRunDims(dim o, dim i) { outer = o; inner = i; }
    template <class... A> void operator()(const A &...a) {
      void *args[] = {(void*) &a..., nullptr};
      k->thunk(outer, inner, args);
    }
  };
  inline emu::Dim3 d3(dim d) { return {(unsigned) d.x, (unsigned) d.y, (unsigned) d.z}; }
}
