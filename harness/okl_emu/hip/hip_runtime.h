#pragma once
