#pragma once
#include "emu.hpp"
#define __global__
#define __device__
#define __constant__ const
#define __shared__ static
#define __launch_bounds__(n)
#define blockIdx emu::tBlock
#define threadIdx emu::tThread
inline void __syncthreads() { emu::barrier(); }
inline void __syncwarp() { emu::barrier(); }
template <class T, class U> T atomicAdd(T *p, U v) { T o = *p; *p += v; return o; }
template <class T, class U> T atomicSub(T *p, U v) { T o = *p; *p -= v; return o; }
template <class T, class U> T atomicAnd(T *p, U v) { T o = *p; *p &= v; return o; }
template <class T, class U> T atomicOr(T *p, U v) { T o = *p; *p |= v; return o; }
template <class T, class U> T atomicXor(T *p, U v) { T o = *p; *p ^= v; return o; }
// the translator emits the one-argument forms for ++ / --
template <class T> T atomicInc(T *p) { T o = *p; *p += 1; return o; }
template <class T> T atomicDec(T *p) { T o = *p; *p -= 1; return o; }
