// Emulation of the launch model for the execution oracles of C17/C18/C19.
//
// tools/checks/loops_common.py pastes the *complete* translated sources (host launcher and
// device kernel of each backend, kept loops of Serial/OpenMP) into one translation unit
// per batch of kernels, includes this header, and links against the real libocca, so that
//   launcher source  ->  real occa::dim / occa::kernel::setRunDims / operator() / run() / isNoop()
//   ->  emu::FakeKernel::run()  (stands for <backend>::kernel::deviceRun + the device's
//       scheduler: for each work-group, for each work-item: call the translated device function)
// Only the last step is a model (of cuLaunchKernel, clEnqueueNDRangeKernel, the Metal
// dispatch and sycl::handler::parallel_for); it is written after
// src/occa/internal/modes/{cuda,hip,opencl,metal,dpcpp}/kernel.cpp::deviceRun.
#pragma once
#include <algorithm>
#include <cstdio>
#include <functional>
#include <mutex>
#include <vector>

#include <occa/core/base.hpp>
#include <occa/core/device.hpp>
#include <occa/core/kernel.hpp>
#include <occa/internal/core/device.hpp>
#include <occa/internal/core/kernel.hpp>

namespace emu {
  typedef std::vector<long long> Tuple;
  static std::vector<Tuple> visited;
  static std::mutex mu;
  static bool huge = false;          // a launch far beyond anything the sequential loop does
  static long long lastInner[3] = {0, 0, 0};   // work-group size of the last launch that was not a noop
  static const unsigned long long CAP = 300000ULL;

  template <class... A>
  inline void rec(A... a) {
    std::lock_guard<std::mutex> g(mu);
    if (visited.size() > CAP) { huge = true; return; }
    visited.push_back(Tuple{(long long) a...});
  }

  struct uint3 { unsigned int x, y, z; };

  struct FakeKernel : public occa::modeKernel_t {
    std::function<void(const occa::dim&, const occa::dim&)> body;
    FakeKernel() :
      occa::modeKernel_t(occa::host().getModeDevice(), "emu", "", occa::json()) {
      dontUseRefs();      // as launchedDevice.cpp does for device kernels
    }
    ~FakeKernel() {}
    int maxDims() const { return 3; }
    occa::dim maxOuterDims() const { return occa::dim(-1, -1, -1); }
    occa::dim maxInnerDims() const { return occa::dim(-1, -1, -1); }
    const occa::lang::kernelMetadata_t& getMetadata() const { return metadata; }
    void run() const {
      const occa::udim_t d[6] = {outerDims.x, outerDims.y, outerDims.z, innerDims.x, innerDims.y, innerDims.z};
      unsigned long long total = 1;
      for (int k = 0; k < 6; ++k) {
        if (d[k] > CAP) { huge = true; return; }
        total *= d[k];
        if (total > CAP) { huge = true; return; }
      }
      lastInner[0] = (long long) innerDims.x; lastInner[1] = (long long) innerDims.y; lastInner[2] = (long long) innerDims.z;
      body(outerDims, innerDims);
    }
  };

  // for each work-group, for each work-item (x fastest)
  template <class F>
  inline void grid(const occa::dim &o, const occa::dim &i, F f) {
    for (occa::udim_t bz = 0; bz < o.z; ++bz)
    for (occa::udim_t by = 0; by < o.y; ++by)
    for (occa::udim_t bx = 0; bx < o.x; ++bx)
    for (occa::udim_t tz = 0; tz < i.z; ++tz)
    for (occa::udim_t ty = 0; ty < i.y; ++ty)
    for (occa::udim_t tx = 0; tx < i.x; ++tx) {
      f(bx, by, bz, tx, ty, tz);
    }
  }

  inline void canon(std::vector<Tuple> &v) { std::sort(v.begin(), v.end()); }

  inline void print(const char *tag, const std::vector<Tuple> &v) {
    std::printf("%s", tag);
    for (const Tuple &t : v) {
      std::printf(" ");
      for (size_t k = 0; k < t.size(); ++k) std::printf(k ? ",%lld" : "%lld", t[k]);
    }
    std::printf("\n");
  }
}

//---[ CUDA / HIP built-ins ]-----------------------------------------------------------
static emu::uint3 blockIdx, threadIdx;    // `unsigned int` members, as in CUDA/HIP
#define __global__
#define __launch_bounds__(n)
#define __device__
#define __restrict__

//---[ OpenCL built-ins ]---------------------------------------------------------------
static size_t emu_group[3], emu_local[3];
static inline size_t get_group_id(int d) { return emu_group[d]; }
static inline size_t get_local_id(int d) { return emu_local[d]; }
#define __kernel
#define __global
#define __constant const
#define __attribute__(x)

//---[ Metal ]--------------------------------------------------------------------------
namespace metal {}
typedef emu::uint3 uint3;                  // Metal's uint3 has 32-bit unsigned members

//---[ SYCL ]---------------------------------------------------------------------------
namespace sycl {
  template <int D> struct range {
    size_t v[3];
    range(size_t a, size_t b, size_t c) { v[0] = a; v[1] = b; v[2] = c; }
    size_t operator [] (int k) const { return v[k]; }
  };
  template <int D> struct nd_range {
    range<D> global, local;
    nd_range(range<D> g, range<D> l) : global(g), local(l) {}
  };
  template <int D> struct nd_item {
    size_t grp[3], loc[3];
    size_t get_group(int d) const { return grp[d]; }
    size_t get_local_id(int d) const { return loc[d]; }
  };
  struct handler {
    template <class F>
    void parallel_for(const nd_range<3> &r, F f) {
      size_t ng[3];
      for (int k = 0; k < 3; ++k) ng[k] = r.local[k] ? r.global[k] / r.local[k] : 0;
      nd_item<3> it;
      for (it.grp[0] = 0; it.grp[0] < ng[0]; ++it.grp[0])
      for (it.grp[1] = 0; it.grp[1] < ng[1]; ++it.grp[1])
      for (it.grp[2] = 0; it.grp[2] < ng[2]; ++it.grp[2])
      for (it.loc[0] = 0; it.loc[0] < r.local[0]; ++it.loc[0])
      for (it.loc[1] = 0; it.loc[1] < r.local[1]; ++it.loc[1])
      for (it.loc[2] = 0; it.loc[2] < r.local[2]; ++it.loc[2]) {
        f(it);
      }
    }
  };
  struct queue {
    template <class F> void submit(F f) { handler h; f(h); }
  };
}
