// C16 (proved part) correspondence harness: drives the real occa::lang::tokenContext_t with token
// lists built from kind codes and with navigation calls, prints one observation per op (see
// lean/Driver/FrontEnd.lean) and evaluates model-independent oracles:
//   * the window stays inside the token list after every call,
//   * hasError after setup <=> an independent stack matcher finds the bracket word unbalanced,
//   * every pair binding goes forward; operator[] returns exactly tokens[tokenIndices[start+i]] or NULL.
#include <occa/internal/lang/tokenContext.hpp>
#include <occa/internal/lang/token.hpp>
#include <occa/internal/lang/operator.hpp>
#include <occa/internal/lang/file.hpp>
#include <occa/internal/io/output.hpp>
#include <occa/utils/exception.hpp>
#include "hproto.hpp"

using namespace occa::lang;

static tokenContext_t *ctx = NULL;
static std::string kinds;          // kind code per native token
static const char *srcText = "tok\n";

static void drop(const char *) {}

static token_t* make(char k) {
  fileOrigin origin(originSource::string, filePosition(1, srcText, srcText, srcText + 3));
  switch (k) {
    case 'o': return new identifierToken(origin, "x");
    case 'c': return new commentToken(origin, "/* c */", 0);
    case '(': return new operatorToken(origin, op::parenthesesStart);
    case ')': return new operatorToken(origin, op::parenthesesEnd);
    case '{': return new operatorToken(origin, op::braceStart);
    case '}': return new operatorToken(origin, op::braceEnd);
    case '[': return new operatorToken(origin, op::bracketStart);
    case ']': return new operatorToken(origin, op::bracketEnd);
    case '<': return new operatorToken(origin, op::cudaCallStart);
    case '>': return new operatorToken(origin, op::cudaCallEnd);
    case ';': return new operatorToken(origin, op::semicolon);
    case ',': return new operatorToken(origin, op::comma);
    case '+': return new operatorToken(origin, op::add);
    default: return NULL;
  }
}

static bool balanced(const std::string &ks) {
  std::string st;
  for (char k : ks) {
    if (k == '(' || k == '{' || k == '[' || k == '<') st.push_back(k);
    else if (k == ')' || k == '}' || k == ']' || k == '>') {
      char want = k == ')' ? '(' : k == '}' ? '{' : k == ']' ? '[' : '<';
      if (st.empty() || st.back() != want) return false;
      st.pop_back();
    }
  }
  return st.empty();
}

// kind codes of the non-skippable tokens (the index space of the window)
static std::string visibleKinds() {
  std::string v;
  for (char k : kinds) if (k != 'c') v.push_back(k);
  return v;
}
static char closerOf(char k) { return k == '(' ? ')' : k == '{' ? '}' : k == '[' ? ']' : k == '<' ? '>' : 0; }

// getClosingPair: independent statement of what it must return on a balanced token list
static void closingOracle(int r) {
  if (ctx->hasError) return;
  const std::string v = visibleKinds();
  const int s = ctx->tp.start;
  const bool opener = (ctx->tp.start < ctx->tp.end) && s < (int) v.size() && closerOf(v[s]);
  if (!opener) { if (r != -1) hp::oracle("getClosingPair found a pair at a token that is not an opening bracket"); return; }
  // the matching closer by depth counting
  int depth = 0, want = -1;
  for (int i = s; i < (int) v.size(); ++i) {
    if (closerOf(v[i])) ++depth;
    else if (v[i] == ')' || v[i] == '}' || v[i] == ']' || v[i] == '>') { if (--depth == 0) { want = i - s; break; } }
  }
  if (r != want) hp::oracle("getClosingPair is not the relative position of the matching closing bracket");
}

static void windowOracle() {
  if (!ctx) return;
  if (!(0 <= ctx->tp.start && ctx->tp.start <= ctx->tp.end && ctx->tp.end <= (int) ctx->tokenIndices.size()))
    hp::oracle("token window left the token list");
}

static std::string tpStr() {
  std::ostringstream ss; ss << "tp=" << ctx->tp.start << "," << ctx->tp.end; return ss.str();
}

static opType_t opArg(const std::string &s) {
  if (s == ";") return operatorType::semicolon;
  if (s == ",") return operatorType::comma;
  if (s == "(") return operatorType::parenthesesStart;
  return operatorType::parenthesesEnd;
}

int main() {
  occa::io::stdout.setOverride(drop);
  occa::io::stderr.setOverride(drop);
  return hp::run(
    []() { delete ctx; ctx = NULL; kinds.clear(); },
    [](const std::vector<std::string> &t) -> std::string {
      if (t.empty()) return "bad-op";
      std::ostringstream ss;
      try {
        if (t[0] == "T") {
          tokenVector toks;
          kinds.clear();
          for (size_t i = 1; i < t.size(); ++i) {
            token_t *tok = t[i].size() == 1 ? make(t[i][0]) : NULL;
            if (!tok) { for (token_t *x : toks) delete x; return "bad-op"; }
            toks.push_back(tok);
            kinds.push_back(t[i][0]);
          }
          delete ctx;
          ctx = new tokenContext_t();
          ctx->setup(toks);
          if (ctx->hasError == balanced(kinds)) hp::oracle("hasError does not agree with an independent bracket matcher");
          ss << "ok n=" << ctx->tokenIndices.size() << " err=" << (ctx->hasError ? 1 : 0) << " pairs=";
          bool first = true;
          for (auto &p : ctx->pairs) {
            ss << (first ? "" : ",") << p.first << ":" << p.second; first = false;
            if (!(p.first < p.second && p.second < (int) ctx->tokenIndices.size())) hp::oracle("pair binding not forward / out of the list");
          }
          ss << " semis=";
          for (size_t i = 0; i < ctx->semicolons.size(); ++i) ss << (i ? "," : "") << ctx->semicolons[i];
          windowOracle();
          return ss.str();
        }
        if (!ctx) return "bad-op";
        auto I = [&](size_t k) { return (int) std::strtol(t[k].c_str(), NULL, 10); };
        std::string r;
        if (t[0] == "state" && t.size() == 1) { ss << tpStr() << " stack=" << ctx->stack.size() << " err=" << (ctx->hasError ? 1 : 0); r = ss.str(); }
        else if (t[0] == "set" && t.size() == 2) { ctx->set(I(1)); r = tpStr(); }
        else if (t[0] == "set2" && t.size() == 3) { ctx->set(I(1), I(2)); r = tpStr(); }
        else if (t[0] == "push" && t.size() == 1) { ctx->push(); r = tpStr(); }
        else if (t[0] == "push1" && t.size() == 2) { ctx->push(I(1)); r = tpStr(); }
        else if (t[0] == "push2" && t.size() == 3) { ctx->push(I(1), I(2)); r = tpStr(); }
        else if (t[0] == "pop" && t.size() == 1) { tokenRange x = ctx->pop(); ss << "pop=" << x.start << "," << x.end << " " << tpStr(); r = ss.str(); }
        else if (t[0] == "popskip" && t.size() == 1) { ctx->popAndSkip(); r = tpStr(); }
        else if (t[0] == "pushpair" && t.size() == 1) { ctx->pushPairRange(); r = tpStr(); }
        else if (t[0] == "at" && t.size() == 2) {
          int i = I(1);
          token_t *tok = (*ctx)[i];
          bool inr = (i >= 0) && (ctx->tp.start + i < ctx->tp.end);
          if (inr != (tok != NULL)) hp::oracle("operator[] NULL-ness disagrees with the window");
          if (tok && tok != ctx->tokens[ctx->tokenIndices[ctx->tp.start + i]]) hp::oracle("operator[] returned a different token");
          r = tok ? "tok" : "null";
        }
        else if (t[0] == "end" && t.size() == 1) { r = ctx->end() ? "tok" : "null"; }
        else if (t[0] == "closing" && t.size() == 1) { int x = ctx->getClosingPair(); closingOracle(x); ss << x; r = ss.str(); }
        else if (t[0] == "closingtok" && t.size() == 1) { r = ctx->getClosingPairToken() ? "tok" : "null"; }
        else if (t[0] == "printtok" && t.size() == 2) {
          tokenRange before = ctx->tp;
          token_t *tok = ctx->getPrintToken(I(1) != 0);
          if (before.start != ctx->tp.start || before.end != ctx->tp.end) hp::oracle("getPrintToken did not restore the window");
          if ((tok == NULL) != (ctx->size() == 0)) hp::oracle("getPrintToken NULL-ness disagrees with size()");
          r = tok ? "tok" : "null";
        }
        else if (t[0] == "next" && t.size() == 2) {
          if (ctx->hasError) r = "skip";       // C16_getNextOperator_full_fails: may not terminate; parser_t never gets here
          else {
            int x = ctx->getNextOperator(opArg(t[1]));
            if (!(x == -1 || (0 <= x && x < ctx->size()))) hp::oracle("getNextOperator answer outside the window");
            ss << x; r = ss.str();
          }
        }
        else return "bad-op";
        windowOracle();
        return r;
      } catch (occa::exception &e) {
        windowOracle();
        return "exc";
      }
    });
}
