// C01 correspondence harness: drives the REAL handle classes (occa::device, memory, memoryPool,
// kernel, stream) on a Serial device with the operations of the line protocol (see
// lean/Driver/Gc.lean) and evaluates the property's own, model-independent oracles.
//
// Handle variables live in an arena and are constructed with placement-new; `drop` runs the
// destructor and ASan-poisons the storage, so that any ring pointer that still refers to a dropped
// handle is a sanitizer report as soon as it is followed.
//
// Needs the hook of fixes/H01-live-counters.patch (occa::verif::live / isLive / errors).
#include <occa.hpp>
#include <occa/internal/core/device.hpp>
#include <occa/internal/core/buffer.hpp>
#include <occa/internal/core/memory.hpp>
#include <occa/internal/core/memoryPool.hpp>
#include <occa/internal/core/kernel.hpp>
#include <occa/internal/core/stream.hpp>
#include <occa/internal/utils/verif.hpp>
#include <sanitizer/asan_interface.h>
#include <map>
#include <new>
#include <set>
#include "hproto.hpp"

namespace ov = occa::verif;

static const int K = 5;                 // variables per handle kind
enum HK { HD = 0, HM = 1, HP = 2, HK_ = 3, HS = 4, NHK = 5 };
static const char hkLetter[NHK] = {'d', 'm', 'p', 'k', 's'};

// ---------------------------------------------------------------- arena of handle variables
static const size_t SLOT = 128;         // >= sizeof of every handle class, rest is red zone
alignas(64) static char arena[NHK][K][SLOT];
static bool vlive[NHK][K];

static occa::device&     D(int i) { return *reinterpret_cast<occa::device*>(arena[HD][i]); }
static occa::memory&     M(int i) { return *reinterpret_cast<occa::memory*>(arena[HM][i]); }
static occa::memoryPool& P(int i) { return *reinterpret_cast<occa::memoryPool*>(arena[HP][i]); }
static occa::kernel&     Kr(int i) { return *reinterpret_cast<occa::kernel*>(arena[HK_][i]); }
static occa::stream&     S(int i) { return *reinterpret_cast<occa::stream*>(arena[HS][i]); }

static void unpoison(int k, int i) { ASAN_UNPOISON_MEMORY_REGION(arena[k][i], SLOT); }
static void poison(int k, int i)   { ASAN_POISON_MEMORY_REGION(arena[k][i], SLOT); }

// ---------------------------------------------------------------- raw pointers (never dereferenced here)
struct Ref {                    // identity of a backend object: registry kind + address
  int kind; const void *p;
  bool operator<(const Ref &o) const { return kind != o.kind ? kind < o.kind : p < o.p; }
  bool operator==(const Ref &o) const { return kind == o.kind && p == o.p; }
};
static const int regKind[NHK] = {ov::kDevice, ov::kMemory, ov::kMemoryPool, ov::kKernel, ov::kStream};

static const void* rawPtr(int k, int i) {
  switch (k) {
  case HD: return (const void*) D(i).getModeDevice();
  case HM: return (const void*) M(i).getModeMemory();
  case HP: return (const void*) P(i).getModeMemoryPool();
  case HK_: return (const void*) Kr(i).getModeKernel();
  default: return (const void*) S(i).getModeStream();
  }
}
static bool isInit(int k, int i) {
  switch (k) {
  case HD: return D(i).isInitialized();
  case HM: return M(i).isInitialized();
  case HP: return P(i).isInitialized();
  case HK_: return Kr(i).isInitialized();
  default: return S(i).isInitialized();
  }
}

// ---------------------------------------------------------------- bookkeeping for the oracles
static long base[ov::kindCount];
static long baseErrors;
static std::set<Ref> pinned;            // objects on which dontUseRefs() was called
static std::map<Ref, int> canon;        // canonical ids by first sight in the fixed scan order
static int nextCanon;
static const char *kernelSource = "@kernel void k(const int n, int *a) { for (int b = 0; b < n; b += 4; @outer) { for (int i = b; i < b + 4; ++i; @inner) { if (i < n) a[i] = i; } } }";

static long liveRel(int kind) { return ov::live(kind) - base[kind]; }

static int cid(int kind, const void *p) {
  Ref r{kind, p};
  auto it = canon.find(r);
  if (it != canon.end()) return it->second;
  canon[r] = nextCanon;
  return nextCanon++;
}
static void purgeCanon() {
  for (auto it = canon.begin(); it != canon.end();) {
    if (!ov::isLive(it->first.kind, it->first.p)) it = canon.erase(it); else ++it;
  }
  for (auto it = pinned.begin(); it != pinned.end();) {
    if (!ov::isLive(it->kind, it->p)) it = pinned.erase(it); else ++it;
  }
}

// device of a (live) backend object
static occa::modeDevice_t* deviceOf(const Ref &r) {
  switch (r.kind) {
  case ov::kDevice: return (occa::modeDevice_t*) r.p;
  case ov::kMemory: return ((occa::modeMemory_t*) r.p)->getModeDevice();
  case ov::kMemoryPool: return ((occa::modeMemoryPool_t*) r.p)->modeDevice;
  case ov::kBuffer: return ((occa::modeBuffer_t*) r.p)->modeDevice;
  case ov::kKernel: return ((occa::modeKernel_t*) r.p)->modeDevice;
  case ov::kStream: return ((occa::modeStream_t*) r.p)->modeDevice;
  }
  return NULL;
}

// Bytes accounted on a device that belong to pool allocations (inner buffers of its pools), and the
// sum of the sizes of all its accounted buffers; walks the device's buffer ring.
static void deviceBytes(occa::modeDevice_t *dev, long &poolBytes, long &allBytes, std::set<Ref> &found) {
  poolBytes = 0; allBytes = 0;
  std::set<const occa::modeBuffer_t*> seen;
  std::vector<occa::modeBuffer_t*> todo;
  occa::gc::ringEntry_t *h = dev->memoryRing.head;
  if (h) {
    occa::gc::ringEntry_t *e = h;
    int guard = 0;
    do {
      todo.push_back(static_cast<occa::modeBuffer_t*>(e));
      e = e->rightRingEntry;
      if (++guard > 100000) { hp::oracle("device buffer ring does not close"); break; }
    } while (e != h);
  }
  for (size_t q = 0; q < todo.size(); ++q) {
    occa::modeBuffer_t *b = todo[q];
    if (!seen.insert(b).second) continue;
    if (!ov::isLive(ov::kBuffer, (const void*) b)) { hp::oracle("device buffer ring contains a destroyed buffer"); continue; }
    found.insert(Ref{ov::kBuffer, (const void*) b});
    occa::modeMemoryPool_t *pool = dynamic_cast<occa::modeMemoryPool_t*>(b);
    if (pool) {
      found.insert(Ref{ov::kMemoryPool, (const void*) pool});
      if (pool->buffer) {
        if (seen.count(pool->buffer) == 0) todo.push_back(pool->buffer);
        if (ov::isLive(ov::kBuffer, (const void*) pool->buffer)) poolBytes += (long) pool->buffer->size;
      }
    } else if (!b->isWrapped) {
      allBytes += (long) b->size;
    }
  }
}

// ---------------------------------------------------------------- oracles after every operation
static void checkState(bool atEnd) {
  purgeCanon();
  if (ov::errors() != baseErrors) { hp::oracle("a backend object was destroyed twice (or constructed twice at one address)"); baseErrors = ov::errors(); }
  for (int k = 0; k < ov::kindCount; ++k)
    if (ov::live(k) < 0) hp::oracle("live-object counter is negative");
  // (1) no handle points to a destroyed object
  std::set<Ref> roots(pinned);
  for (int k = 0; k < NHK; ++k) for (int i = 0; i < K; ++i) {
    if (!vlive[k][i]) continue;
    const void *p = rawPtr(k, i);
    if ((p != NULL) != isInit(k, i)) hp::oracle("isInitialized() disagrees with the stored pointer");
    if (!p) continue;
    if (!ov::isLive(regKind[k], p)) {
      hp::oracle(std::string("handle ") + hkLetter[k] + std::to_string(i) + " points to a destroyed backend object");
      continue;
    }
    roots.insert(Ref{regKind[k], p});
  }
  // (2) the objects that must be alive: roots, what they own, their devices (which must be roots)
  std::set<Ref> expect(roots);
  std::set<occa::modeDevice_t*> devs;
  for (const Ref &r : roots) {
    occa::modeDevice_t *dev = deviceOf(r);
    if (r.kind == ov::kMemory) {
      occa::modeBuffer_t *b = ((occa::modeMemory_t*) r.p)->modeBuffer;
      if (!b) { hp::oracle("live memory object without a buffer"); continue; }
      if (!ov::isLive(ov::kBuffer, (const void*) b)) { hp::oracle("memory object refers to a destroyed buffer"); continue; }
      expect.insert(Ref{ov::kBuffer, (const void*) b});
      occa::modeMemoryPool_t *pool = dynamic_cast<occa::modeMemoryPool_t*>(b);
      if (pool) {
        expect.insert(Ref{ov::kMemoryPool, (const void*) pool});
        if (pool->buffer) expect.insert(Ref{ov::kBuffer, (const void*) pool->buffer});
        // a reservation outliving all handles of its pool would be a leak: the pool must be a root
        if (!roots.count(Ref{ov::kMemoryPool, (const void*) pool})) hp::oracle("a pool without handles is alive");
      }
      dev = b->modeDevice;
    }
    if (r.kind == ov::kMemoryPool) {
      occa::modeMemoryPool_t *pool = (occa::modeMemoryPool_t*) r.p;
      expect.insert(Ref{ov::kBuffer, (const void*) static_cast<occa::modeBuffer_t*>(pool)});
      if (pool->buffer) {
        if (!ov::isLive(ov::kBuffer, (const void*) pool->buffer)) hp::oracle("pool refers to a destroyed inner buffer");
        expect.insert(Ref{ov::kBuffer, (const void*) pool->buffer});
      }
    }
    if (!dev) { hp::oracle("live backend object without a device"); continue; }
    if (!ov::isLive(ov::kDevice, (const void*) dev)) { hp::oracle("backend object refers to a destroyed device"); continue; }
    devs.insert(dev);
  }
  for (occa::modeDevice_t *dev : devs) {
    if (!roots.count(Ref{ov::kDevice, (const void*) dev})) {
      hp::oracle("a device without handles is alive (leak)");
      expect.insert(Ref{ov::kDevice, (const void*) dev});
    }
    occa::modeStream_t *cs = dev->currentStream.getModeStream();
    if (cs) {
      if (!ov::isLive(ov::kStream, (const void*) cs)) hp::oracle("device's current stream is destroyed");
      else expect.insert(Ref{ov::kStream, (const void*) cs});
    }
    // (3) accounted bytes == sizes of the live, accounted buffers of the device
    long poolBytes, allBytes; std::set<Ref> found;
    deviceBytes(dev, poolBytes, allBytes, found);
    if ((long) dev->bytesAllocated != allBytes)
      hp::oracle("device.memoryAllocated() differs from the total size of its live buffers");
    for (const Ref &f : found)
      if (!expect.count(f)) hp::oracle(f.kind == ov::kMemoryPool ? "a pool without handles is alive (leak)" : "a buffer without memory objects is alive (leak)");
  }
  // (4) counters == number of distinct expected objects
  long cnt[ov::kindCount] = {0};
  for (const Ref &r : expect) cnt[r.kind]++;
  static const char *names[] = {"device", "buffer", "memory", "memoryPool", "kernel", "stream", "streamTag"};
  for (int k = 0; k < ov::kindCount; ++k) {
    if (liveRel(k) != cnt[k]) {
      std::ostringstream ss;
      ss << "live " << names[k] << " objects: " << liveRel(k) << " but " << cnt[k] << " are reachable from live handles"
         << (liveRel(k) > cnt[k] ? " (leak)" : " (destroyed too early)");
      hp::oracle(ss.str());
    }
  }
  if (atEnd) {
    for (int k = 0; k < ov::kindCount; ++k)
      if (liveRel(k) != 0) hp::oracle(std::string("backend objects of class ") + names[k] + " leaked at the end of the history");
  }
}

// ---------------------------------------------------------------- canonical observation
static std::string devId(occa::modeDevice_t *d) { return d ? std::to_string(cid(ov::kDevice, (const void*) d)) : "-"; }

static std::string observe() {
  std::ostringstream ss;
  for (int k = 0; k < NHK; ++k) for (int i = 0; i < K; ++i) {
    ss << " " << hkLetter[k] << i << "=";
    if (!vlive[k][i]) { ss << "x"; continue; }
    const void *p = rawPtr(k, i);
    if (!p) { ss << "-"; continue; }
    if (!ov::isLive(regKind[k], p)) { ss << "DANGLING"; continue; }
    ss << cid(regKind[k], p);
    if (k == HD) {
      occa::modeDevice_t *dev = (occa::modeDevice_t*) p;
      long poolBytes, allBytes; std::set<Ref> found;
      deviceBytes(dev, poolBytes, allBytes, found);
      occa::modeStream_t *cs = dev->currentStream.getModeStream();
      ss << ":" << ((long) D(i).memoryAllocated() - poolBytes) << ":";
      if (cs && ov::isLive(ov::kStream, (const void*) cs)) ss << cid(ov::kStream, (const void*) cs); else ss << "-";
    } else if (k == HM) {
      occa::modeMemory_t *mm = (occa::modeMemory_t*) p;
      occa::modeBuffer_t *b = mm->modeBuffer;
      if (b && ov::isLive(ov::kBuffer, (const void*) b)) {
        ss << "/" << cid(ov::kBuffer, (const void*) b) << "^" << devId(b->modeDevice);
      } else ss << "/?";
      ss << ":" << M(i).size();
    } else {
      ss << "^" << devId(deviceOf(Ref{regKind[k], p}));
    }
  }
  ss << " live=";
  for (int k = 0; k < ov::kindCount; ++k) ss << (k ? "," : "") << liveRel(k);
  return ss.str();
}

// ---------------------------------------------------------------- operations
static bool parseVar(const std::string &t, int &k, int &i) {
  if (t.size() != 2) return false;
  const char *pos = strchr("dmpks", t[0]);
  if (!pos || t[1] < '0' || t[1] >= '0' + K) return false;
  k = (int) (pos - "dmpks"); i = t[1] - '0';
  return true;
}

static void construct(int k, int i) {
  unpoison(k, i);
  switch (k) {
  case HD: new (arena[k][i]) occa::device(); break;
  case HM: new (arena[k][i]) occa::memory(); break;
  case HP: new (arena[k][i]) occa::memoryPool(); break;
  case HK_: new (arena[k][i]) occa::kernel(); break;
  default: new (arena[k][i]) occa::stream(); break;
  }
  vlive[k][i] = true;
}
static void copyConstruct(int k, int i, int j) {
  unpoison(k, i);
  switch (k) {
  case HD: new (arena[k][i]) occa::device(D(j)); break;
  case HM: new (arena[k][i]) occa::memory(M(j)); break;
  case HP: new (arena[k][i]) occa::memoryPool(P(j)); break;
  case HK_: new (arena[k][i]) occa::kernel(Kr(j)); break;
  default: new (arena[k][i]) occa::stream(S(j)); break;
  }
  vlive[k][i] = true;
}
static void destroy(int k, int i) {
  switch (k) {
  case HD: D(i).~device(); break;
  case HM: M(i).~memory(); break;
  case HP: P(i).~memoryPool(); break;
  case HK_: Kr(i).~kernel(); break;
  default: S(i).~stream(); break;
  }
  vlive[k][i] = false;
  memset(arena[k][i], 0xdd, SLOT);
  poison(k, i);
}

// device of a live handle of any kind (NULL when uninitialised)
static occa::modeDevice_t* handleDevice(int k, int i) {
  const void *p = rawPtr(k, i);
  if (!p) return NULL;
  return deviceOf(Ref{regKind[k], p});
}

// drop every live variable, then release what was pinned by dontUseRefs and is still alive
// (non-device objects first, their device may be pinned too)
static void releaseAll() {
  for (int k = NHK - 1; k >= 0; --k) for (int i = 0; i < K; ++i) if (vlive[k][i]) destroy(k, i);
  purgeCanon();
  for (int pass = 0; pass < 2; ++pass) {
    std::set<Ref> todo(pinned);
    for (const Ref &r : todo) {
      if (!ov::isLive(r.kind, r.p)) continue;
      if ((r.kind == ov::kDevice) != (pass == 1)) continue;
      switch (r.kind) {
      case ov::kDevice: { occa::device h((occa::modeDevice_t*) r.p); h.free(); break; }
      case ov::kMemory: { occa::memory h((occa::modeMemory_t*) r.p); h.free(); break; }
      case ov::kMemoryPool: { occa::memoryPool h((occa::modeMemoryPool_t*) r.p); h.free(); break; }
      case ov::kKernel: { occa::kernel h((occa::modeKernel_t*) r.p); h.free(); break; }
      case ov::kStream: { occa::stream h((occa::modeStream_t*) r.p); h.free(); break; }
      }
    }
  }
  purgeCanon();
}

static void cleanup() {
  releaseAll();
  pinned.clear();
  canon.clear();
  nextCanon = 0;
}

static void reset() {
  cleanup();
  for (int k = 0; k < ov::kindCount; ++k) base[k] = ov::live(k);
  baseErrors = ov::errors();
}

static std::string step(const std::vector<std::string> &t) {
  if (t.empty()) return "bad-op";
  const std::string &op = t[0];
  int k1 = -1, i1 = -1, k2 = -1, i2 = -1;
  bool v1 = t.size() > 1 && parseVar(t[1], k1, i1);
  bool v2 = t.size() > 2 && parseVar(t[2], k2, i2);
  std::string res = "ok";
  bool atEnd = false;
  // pointers before the operation, for the free() oracle
  const void *before[NHK][K];
  occa::modeDevice_t *devBefore[NHK][K];
  for (int k = 0; k < NHK; ++k) for (int i = 0; i < K; ++i) {
    before[k][i] = vlive[k][i] ? rawPtr(k, i) : NULL;
    devBefore[k][i] = NULL;
  }
  // objects pinned by dontUseRefs(): their device and (for pool reservations) their pool before the operation
  struct PinInfo { Ref r; const void *dev; const void *buf; };
  std::vector<PinInfo> pinsBefore;
  for (const Ref &r : pinned) {
    if (!ov::isLive(r.kind, r.p)) continue;
    PinInfo pi{r, (const void*) deviceOf(r), NULL};
    if (r.kind == ov::kMemory) {
      // only a pool destroys its slices; a plain buffer goes with its last slice, not before it
      occa::modeBuffer_t *b = ((occa::modeMemory_t*) r.p)->modeBuffer;
      occa::modeMemoryPool_t *pool = b ? dynamic_cast<occa::modeMemoryPool_t*>(b) : NULL;
      pi.buf = (const void*) pool;
    }
    pinsBefore.push_back(pi);
  }
  const void *freeTarget = (op == "free" && v1 && vlive[k1][i1]) ? rawPtr(k1, i1) : NULL;
  try {
    if (op == "end" && t.size() == 1) {
      releaseAll();   // what dontUseRefs pinned is released explicitly; everything else must already be gone
      atEnd = true;
    } else if (op == "ctor" && t.size() == 2 && v1) {
      if (vlive[k1][i1]) return "bad-op";
      construct(k1, i1);
    } else if (op == "copy" && t.size() == 3 && v1 && v2 && k1 == k2) {
      if (vlive[k1][i1] || !vlive[k2][i2]) return "bad-op";
      copyConstruct(k1, i1, i2);
    } else if (op == "asg" && t.size() == 3 && v1 && v2 && k1 == k2) {
      if (!vlive[k1][i1] || !vlive[k2][i2]) return "bad-op";
      switch (k1) {
      case HD: D(i1) = D(i2); break;
      case HM: M(i1) = M(i2); break;
      case HP: P(i1) = P(i2); break;
      case HK_: Kr(i1) = Kr(i2); break;
      default: S(i1) = S(i2); break;
      }
    } else if (op == "swap" && t.size() == 3 && v1 && v2 && k1 == k2 && (k1 == HM || k1 == HP)) {
      if (!vlive[k1][i1] || !vlive[k2][i2]) return "bad-op";
      if (k1 == HM) M(i1).swap(M(i2)); else P(i1).swap(P(i2));
    } else if (op == "free" && t.size() == 2 && v1) {
      if (!vlive[k1][i1]) return "bad-op";
      // record the device of every handle, to check that freeing a device clears them all
      for (int k = 0; k < NHK; ++k) for (int i = 0; i < K; ++i)
        if (vlive[k][i] && before[k][i] && ov::isLive(regKind[k], before[k][i])) devBefore[k][i] = handleDevice(k, i);
      switch (k1) {
      case HD: D(i1).free(); break;
      case HM: M(i1).free(); break;
      case HP: P(i1).free(); break;
      case HK_: Kr(i1).free(); break;
      default: S(i1).free(); break;
      }
      // oracle: after free() every alias reports uninitialised
      const void *obj = before[k1][i1];
      if (obj) {
        for (int i = 0; i < K; ++i)
          if (vlive[k1][i] && before[k1][i] == obj && isInit(k1, i))
            hp::oracle(std::string("after free() the alias ") + hkLetter[k1] + std::to_string(i) + " still reports isInitialized()");
        if (ov::isLive(regKind[k1], obj)) hp::oracle("free() did not destroy the backend object");
        if (k1 == HD) {
          for (int k = 0; k < NHK; ++k) for (int i = 0; i < K; ++i)
            if (vlive[k][i] && devBefore[k][i] == (occa::modeDevice_t*) obj && isInit(k, i))
              hp::oracle(std::string("after device.free() the handle ") + hkLetter[k] + std::to_string(i) + " of that device still reports isInitialized()");
        }
      }
    } else if (op == "drop" && t.size() == 2 && v1) {
      if (!vlive[k1][i1]) return "bad-op";
      destroy(k1, i1);
    } else if (op == "norefs" && t.size() == 2 && v1) {
      if (!vlive[k1][i1]) return "bad-op";
      const void *p = rawPtr(k1, i1);
      if (p) pinned.insert(Ref{regKind[k1], p});
      switch (k1) {
      case HD: D(i1).dontUseRefs(); break;
      case HM: M(i1).dontUseRefs(); break;
      case HP: P(i1).dontUseRefs(); break;
      case HK_: Kr(i1).dontUseRefs(); break;
      default: S(i1).dontUseRefs(); break;
      }
    } else if (op == "mkdev" && t.size() == 2 && v1 && k1 == HD) {
      if (!vlive[k1][i1]) return "bad-op";
      D(i1) = occa::device(std::string("{mode: 'Serial'}"));
    } else if (op == "malloc" && t.size() == 4 && v1 && v2 && k1 == HM && k2 == HD) {
      if (!vlive[k1][i1] || !vlive[k2][i2]) return "bad-op";
      long n = std::strtol(t[3].c_str(), NULL, 10);
      M(i1) = D(i2).malloc(n, occa::dtype::byte);
    } else if (op == "slice" && t.size() == 5 && v1 && v2 && k1 == HM && k2 == HM) {
      if (!vlive[k1][i1] || !vlive[k2][i2]) return "bad-op";
      long off = std::strtol(t[3].c_str(), NULL, 10), n = std::strtol(t[4].c_str(), NULL, 10);
      M(i1) = M(i2).slice(off, n);
    } else if (op == "mkpool" && t.size() == 3 && v1 && v2 && k1 == HP && k2 == HD) {
      if (!vlive[k1][i1] || !vlive[k2][i2]) return "bad-op";
      P(i1) = D(i2).createMemoryPool();
    } else if (op == "reserve" && t.size() == 4 && v1 && v2 && k1 == HM && k2 == HP) {
      if (!vlive[k1][i1] || !vlive[k2][i2]) return "bad-op";
      long n = std::strtol(t[3].c_str(), NULL, 10);
      M(i1) = P(i2).reserve(n, occa::dtype::byte);
    } else if (op == "mkker" && t.size() == 3 && v1 && v2 && k1 == HK_ && k2 == HD) {
      if (!vlive[k1][i1] || !vlive[k2][i2]) return "bad-op";
      Kr(i1) = D(i2).buildKernelFromString(kernelSource, "k");
    } else if (op == "mkstr" && t.size() == 3 && v1 && v2 && k1 == HS && k2 == HD) {
      if (!vlive[k1][i1] || !vlive[k2][i2]) return "bad-op";
      S(i1) = D(i2).createStream();
    } else if (op == "getstr" && t.size() == 3 && v1 && v2 && k1 == HS && k2 == HD) {
      if (!vlive[k1][i1] || !vlive[k2][i2]) return "bad-op";
      S(i1) = D(i2).getStream();
    } else if (op == "setstr" && t.size() == 3 && v1 && v2 && k1 == HD && k2 == HS) {
      if (!vlive[k1][i1] || !vlive[k2][i2]) return "bad-op";
      D(i1).setStream(S(i2));
    } else if (op == "getdev" && t.size() == 3 && v1 && v2 && k1 == HD && k2 != HD) {
      if (!vlive[k1][i1] || !vlive[k2][i2]) return "bad-op";
      switch (k2) {
      case HM: D(i1) = M(i2).getDevice(); break;
      case HP: D(i1) = P(i2).getDevice(); break;
      case HK_: D(i1) = Kr(i2).getDevice(); break;
      default: D(i1) = S(i2).getDevice(); break;
      }
    } else {
      return "bad-op";
    }
  } catch (occa::exception &e) {
    res = "err";
  }
  // oracle: an object pinned by dontUseRefs() is only destroyed by free() on it or together with its
  // device / pool, never because a handle went away
  if (!atEnd) {
    for (const PinInfo &pi : pinsBefore) {
      if (ov::isLive(pi.r.kind, pi.r.p)) continue;
      if (pi.r.p == freeTarget) continue;
      if (pi.dev && !ov::isLive(ov::kDevice, pi.dev)) continue;
      if (pi.buf && !ov::isLive(ov::kMemoryPool, pi.buf)) continue;
      hp::oracle("an object pinned by dontUseRefs() was destroyed although nobody freed it");
    }
  }
  checkState(atEnd);
  return res + observe();
}

int main() {
  // things the library creates once (host device, its stream, ...) must not count as leaks
  occa::host();
  {
    occa::device warm(std::string("{mode: 'Serial'}"));
    occa::kernel k = warm.buildKernelFromString(kernelSource, "k");   // compiled once, cached afterwards
    occa::memoryPool p = warm.createMemoryPool();
    occa::memory m = p.reserve(16, occa::dtype::byte);
  }
  int rc = hp::run(reset, step);
  cleanup();
  return rc;
}
