// C30 harness (ENABLE_SHARABLE_DEVICE + ThreadSanitizer build of /repo's working tree).
//   h_conc replay-f34 <kind>      deterministic replay of the model's double-free schedule
//                                 (C30_unlocked_check_races): two threads drop the last two handles of
//                                 one object; the yield hook holds each thread between its unlink and its
//                                 needsFree() read until both have unlinked.
//   h_conc stress <seed> <threads> <iters> <mix>
//                                 seeded stress: threads copy/destroy handles of shared objects, allocate and
//                                 free memory, build and run a kernel on ONE device; quiescence oracles.
// Output: one line per observation; `!ORACLE …` lines are model-independent failures.
#include <occa.hpp>
#include <occa/internal/utils/verif.hpp>
#include <atomic>
#include <thread>
#include <vector>
#include <random>
#include <cstdio>
#include <cstdlib>
#include <cstring>
#include <unistd.h>
#include <signal.h>
#include "hproto.hpp"

using namespace occa;

static std::atomic<int> arrived(0);
static std::atomic<bool> armed(false);
static int expectedId = -1;

static void holdUntilBoth(int id) {
  if (!armed.load() || id != expectedId) return;
  arrived.fetch_add(1);
  // wait (bounded) until the other thread has unlinked as well
  for (int spin = 0; spin < 20000 && arrived.load() < 2; ++spin) usleep(100);
}

static void onSignal(int sig) {
  // double delete usually ends in a crash: report it as an observation and leave
  const char *m = "!ORACLE crashed in replay (signal)\nresult crash\n";
  ssize_t r = write(1, m, strlen(m)); (void) r;
  _exit(0);
}

template <class H>
static void dropInThread(H *h) { delete h; }

static int replayF34(const std::string &kind) {
  signal(SIGSEGV, onSignal); signal(SIGABRT, onSignal); signal(SIGBUS, onSignal);
  occa::device dev({{"mode", "Serial"}});
  long before = 0, createdBefore = 0;
  int k = -1;
  std::thread t1, t2;
  if (kind == "memory") {
    k = verif::kMemory; expectedId = verif::yMemoryRemoveRef;
    occa::memory *a = new occa::memory(dev.malloc<int>(16));
    occa::memory *b = new occa::memory(*a);
    before = verif::live(k);
    verif::setYieldCallback(holdUntilBoth); armed = true;
    t1 = std::thread(dropInThread<occa::memory>, a);
    t2 = std::thread(dropInThread<occa::memory>, b);
  } else if (kind == "stream") {
    k = verif::kStream; expectedId = verif::yStreamRemoveRef;
    occa::stream *a = new occa::stream(dev.createStream());
    occa::stream *b = new occa::stream(*a);
    before = verif::live(k);
    verif::setYieldCallback(holdUntilBoth); armed = true;
    t1 = std::thread(dropInThread<occa::stream>, a);
    t2 = std::thread(dropInThread<occa::stream>, b);
  } else {
    std::printf("bad-kind\n"); return 2;
  }
  (void) createdBefore;
  t1.join(); t2.join();
  armed = false; verif::setYieldCallback(NULL);
  long after = verif::live(k);
  long errs = verif::errors();
  std::printf("live_before %ld live_after %ld unregister_errors %ld\n", before, after, errs);
  // exactly one object must have been destroyed exactly once
  if (after != before - 1) hp::oracle("object destroyed " + std::to_string(before - after) + " times when its last two handles were dropped concurrently");
  if (errs != 0) hp::oracle("an object was destroyed that was not alive (double destruction)");
  std::printf("result done\n");
  std::fflush(stdout);
  _exit(0);   // skip static destruction: the heap may be corrupted after a double delete
}

static const char *kernelSrc =
  "@kernel void addOne(const int n, int *a) {\n"
  "  for (int i = 0; i < n; ++i; @tile(8, @outer, @inner)) { a[i] += 1; }\n"
  "}\n";

static int stress(unsigned seed, int nthreads, int iters, const std::string &mix) {
  occa::device dev({{"mode", "Serial"}});
  occa::memory shared = dev.malloc<int>(64);
  occa::stream sstream = dev.createStream();
  occa::kernel sk;
  bool useKernel = mix.find('k') != std::string::npos;
  if (useKernel) sk = dev.buildKernelFromString(kernelSrc, "addOne");
  const long liveMem0 = verif::live(verif::kMemory), liveBuf0 = verif::live(verif::kBuffer);
  const long alloc0 = (long) dev.memoryAllocated();
  std::atomic<int> go(0), bad(0);
  std::vector<std::thread> th;
  for (int t = 0; t < nthreads; ++t) {
    th.emplace_back([&, t]() {
      std::mt19937 rng(seed * 7919u + (unsigned) t);
      while (!go.load()) std::this_thread::yield();
      for (int i = 0; i < iters; ++i) {
        char op = mix[rng() % mix.size()];
        if (op == 'c') {                 // copy and destroy handles of shared objects
          occa::memory m1 = shared;
          occa::memory m2 = m1;
          occa::stream s1 = sstream;
          if (rng() & 1) m1 = occa::memory();
        } else if (op == 'a') {          // allocate and free
          occa::memory m = dev.malloc<char>(1 + rng() % 256);
          occa::memory s = m.slice(0, 1);
        } else if (op == 'f') {          // explicit free() while another handle is still alive
          occa::memory m = dev.malloc<char>(1 + rng() % 64);
          occa::memory m2 = m;
          occa::memory m3 = m2;
          m.free();
          if (m2.isInitialized() || m3.isInitialized()) bad.fetch_add(1);
        } else if (op == 'k' && useKernel) {   // build (cached) and run
          occa::kernel kk = dev.buildKernelFromString(kernelSrc, "addOne");
          occa::memory m = dev.malloc<int>(16);
          kk(16, m);
        } else if (op == 'y') {
          std::this_thread::yield();
        }
      }
    });
  }
  go = 1;
  for (auto &x : th) x.join();
  const long liveMem1 = verif::live(verif::kMemory), liveBuf1 = verif::live(verif::kBuffer);
  const long alloc1 = (long) dev.memoryAllocated();
  std::printf("threads %d iters %d live_memory %ld->%ld live_buffer %ld->%ld allocated %ld->%ld errors %ld\n",
              nthreads, iters, liveMem0, liveMem1, liveBuf0, liveBuf1, alloc0, alloc1, verif::errors());
  if (liveMem1 != liveMem0) hp::oracle("live modeMemory_t count changed across a quiescent stress run (leak or double free)");
  if (liveBuf1 != liveBuf0) hp::oracle("live modeBuffer_t count changed across a quiescent stress run");
  if (alloc1 != alloc0) hp::oracle("memoryAllocated() does not return to its value at quiescence: " + std::to_string(alloc0) + " -> " + std::to_string(alloc1));
  if (verif::errors() != 0) hp::oracle("double destruction recorded by the registry");
  std::printf("result done\n");
  return 0;
}

// First use of the library from several threads at once: occa::settings() initialises the shared
// settings object under its own mutex; readers must never see it half-built.
static int firstUse(int nthreads) {
  std::atomic<int> ready(0), go(0), bad(0);
  std::vector<std::thread> th;
  for (int t = 0; t < nthreads; ++t) {
    th.emplace_back([&]() {
      ready.fetch_add(1);
      while (!go.load()) std::this_thread::yield();
      occa::json &s = occa::settings();
      if (!s.size() || !s.has("version")) bad.fetch_add(1);
      std::string d = s.dump(0);
      if (d.size() < 2) bad.fetch_add(1);
    });
  }
  while (ready.load() < nthreads) std::this_thread::yield();
  go = 1;
  for (auto &x : th) x.join();
  std::printf("firstuse threads %d incomplete %d\n", nthreads, bad.load());
  if (bad.load()) hp::oracle("a thread saw incomplete settings during the first concurrent use of occa::settings()");
  std::printf("result done\n");
  return 0;
}

int main(int argc, char **argv) {
  if (argc >= 3 && std::string(argv[1]) == "firstuse") return firstUse(atoi(argv[2]));
  if (argc >= 3 && std::string(argv[1]) == "replay-f34") return replayF34(argv[2]);
  if (argc >= 6 && std::string(argv[1]) == "stress")
    return stress((unsigned) atoi(argv[2]), atoi(argv[3]), atoi(argv[4]), argv[5]);
  std::printf("usage\n");
  return 2;
}
