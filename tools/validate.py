#!/usr/bin/env python3
"""Validate MANIFEST.json and every evidence file against the schemas (run with python3-vt)."""
import json, sys, glob, os, jsonschema
V = os.path.dirname(os.path.dirname(os.path.abspath(__file__)))
ok = True
m = json.load(open(V + '/MANIFEST.json')) if len(sys.argv) < 2 or sys.argv[1] != '--evidence-only' else None
if m is not None:
    jsonschema.validate(m, json.load(open('/root/.vp/MANIFEST.schema.json')))
    print("MANIFEST ok:", len(m['checks']), "checks,", len(m.get('not_applicable', [])), "not_applicable")
s = json.load(open('/root/.vp/EVIDENCE.schema.json'))
for f in sorted(glob.glob(V + '/evidence/*.json')):
    try:
        jsonschema.validate(json.load(open(f)), s)
    except Exception as e:
        ok = False
        print("INVALID", f, str(e)[:300])
print("evidence", "ok" if ok else "INVALID")
sys.exit(0 if ok else 1)
