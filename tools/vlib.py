"""Shared machinery of the /verif checks (see DESIGN.md section 2.3).

A property plugin (tools/checks/Cxx.py) builds a `Check`, calls, in this order,
  ck.translate([...])        regenerate lean/OccaGen from /repo's current sources      (tie T)
  ck.prove("C27")            lake-build OccaProofs.Props.C27, audit, #print axioms      (proof)
  ck.correspond(...)         run harness (real code) and driver (model) on the same ops  (tie H)
  ck.finish()                verdict, evidence file, exit status
Nothing here knows about a particular property.
"""
import fcntl, hashlib, json, os, random, re, shutil, signal, subprocess, sys, time

VERIF = os.path.dirname(os.path.dirname(os.path.abspath(__file__)))
REPO = os.environ.get("VERIF_REPO", "/repo")
BUILD = os.environ.get("VERIF_BUILD", os.path.join(VERIF, ".build"))
LEAN = os.path.join(VERIF, "lean")
ALLOWED_AXIOMS = {"propext", "Quot.sound", "Classical.choice"}
FORBIDDEN = re.compile(r"\b(sorry|admit|native_decide|bv_decide|implemented_by|unsafe)\b|^\s*axiom\s|maxHeartbeats\s+0\b")

sys.path.insert(0, os.path.join(VERIF, "translate"))
os.environ.setdefault("VERIF_BUILD", BUILD)


def log(*a):
    print("[verif]", *a, file=sys.stderr, flush=True)


class Lock:
    def __init__(self, name):
        os.makedirs(BUILD, exist_ok=True)
        self.path = os.path.join(BUILD, ".lock." + name)

    def __enter__(self):
        self.f = open(self.path, "w")
        fcntl.flock(self.f, fcntl.LOCK_EX)
        return self

    def __exit__(self, *a):
        fcntl.flock(self.f, fcntl.LOCK_UN)
        self.f.close()


def sh(cmd, timeout=None, cwd=None, env=None, input=None):
    e = dict(os.environ)
    if env:
        e.update(env)
    try:
        p = subprocess.run(cmd, capture_output=True, text=True, timeout=timeout, cwd=cwd, env=e, input=input,
                           errors="replace")
        return p.returncode, p.stdout, p.stderr
    except subprocess.TimeoutExpired as ex:
        so = ex.stdout.decode(errors="replace") if isinstance(ex.stdout, bytes) else (ex.stdout or "")
        se = ex.stderr.decode(errors="replace") if isinstance(ex.stderr, bytes) else (ex.stderr or "")
        return -999, so, se


def strip_lean_comments(src):
    out, i, depth, n = [], 0, 0, len(src)
    while i < n:
        if src.startswith("/-", i):
            depth += 1
            i += 2
        elif depth and src.startswith("-/", i):
            depth -= 1
            i += 2
        elif depth:
            if src[i] == "\n":
                out.append("\n")
            i += 1
        elif src.startswith("--", i):
            while i < n and src[i] != "\n":
                i += 1
        elif src[i] == '"':
            j = i + 1
            while j < n and src[j] != '"':
                j += 2 if src[j] == "\\" else 1
            out.append('""')
            i = j + 1
        else:
            out.append(src[i])
            i += 1
    return "".join(out)


def lean_imports(path):
    mods = []
    for l in open(path):
        m = re.match(r"\s*(?:public\s+)?import\s+([\w.]+)", l)
        if m:
            mods.append(m.group(1))
    return mods


def module_path(mod):
    return os.path.join(LEAN, *mod.split(".")) + ".lean"


def local_closure(mod, seen=None):
    """modules of this project in the import closure of `mod` (Mathlib/core excluded)"""
    if seen is None:
        seen = []
    p = module_path(mod)
    if not os.path.exists(p) or mod in seen:
        return seen
    seen.append(mod)
    for m in lean_imports(p):
        local_closure(m, seen)
    return seen


class Check:
    def __init__(self, pid, argv=None):
        import argparse
        ap = argparse.ArgumentParser()
        ap.add_argument("--tier", default=os.environ.get("VERIF_TIER", "quick"), choices=["quick", "thorough"])
        ap.add_argument("--replay", default=None)
        ap.add_argument("--seed", type=int, default=int(os.environ.get("VERIF_SEED", "0") or 0))
        a = ap.parse_args(argv)
        self.pid, self.tier, self.seed, self.replay = pid, a.tier, a.seed, a.replay
        self.t0 = time.time()
        self.rng = random.Random(self.seed * 1000003 + sum(map(ord, pid)))
        self.problems = []        # (kind, text)  kind in proof|tie|correspondence|oracle|crash
        self.violations = []      # dicts {what, replay, found_input}
        self.known_hits = []
        self.theorems = []
        self.discharged = 0
        self.axioms = set()
        self.gen_hashes = {}
        self.cov = {"evaluations": 0, "distinct_nontrivial": 0, "samples": [], "counters": {}}
        self.assumptions = []
        self.trusted = ["Lean 4.33.0 kernel"]
        self.rule = ""
        self.notes = []
        self.level = "proof"
        self.findings = [json.loads(l) for l in open(os.path.join(VERIF, "known_findings.jsonl")) if l.strip()] \
            if os.path.exists(os.path.join(VERIF, "known_findings.jsonl")) else []
        os.makedirs(os.path.join(VERIF, "evidence", "replays"), exist_ok=True)
        os.makedirs(os.path.join(BUILD, "bin"), exist_ok=True)
        os.makedirs(os.path.join(BUILD, "tmp"), exist_ok=True)

    # ------------------------------------------------------------------ build of /repo
    def build_repo(self, variant="asan"):
        rc, so, se = sh([os.path.join(VERIF, "tools", "build_repo.sh"), variant], timeout=3600)
        if rc != 0:
            log("build of", REPO, "failed:\n", se[-3000:])
            print("INFRASTRUCTURE-ERROR: %s does not build (variant %s); no verdict" % (REPO, variant))
            sys.exit(2)
        return os.path.join(BUILD, variant)

    # ------------------------------------------------------------------ tie T
    def translate(self, gens):
        """gens: module names under translate/ each with gen() -> {file: hash}"""
        import importlib
        ok = True
        with Lock("lake"):
            for g in gens:
                try:
                    mod = importlib.import_module(g)
                    self.gen_hashes.update(mod.gen())
                except Exception as e:  # TranslateError or anything unexpected in the source shape
                    ok = False
                    self.problems.append(("tie", "translator %s no longer matches the source: %s" % (g, e)))
                    log("translator", g, "failed:", e)
        self.trusted.append("translator translate/%s (clang-14 AST / regex extraction)" % ",".join(gens))
        return ok

    # ------------------------------------------------------------------ proofs
    def prove(self, prop_module, extra_modules=()):
        """Build OccaProofs.Props.<prop_module> (+extra), audit sources, #print axioms of every theorem."""
        mod = "OccaProofs.Props." + prop_module
        mods = [mod] + list(extra_modules)
        with Lock("lake"):
            rc, so, se = sh(["lake", "build"] + mods, cwd=LEAN, timeout=3000)
        src = open(module_path(mod)).read()
        code = strip_lean_comments(src)
        self.theorems = re.findall(r"^\s*(?:protected\s+)?theorem\s+([^\s:({\[]+)", code, re.M)
        ns = re.findall(r"^\s*namespace\s+([\w.]+)", code, re.M)
        self.theorem_ns = ns[0] if ns else ""
        if rc != 0:
            errs = [l for l in (so + se).splitlines() if "error" in l][:12]
            self.problems.append(("proof", "lake build %s failed: %s" % (mod, " | ".join(errs)[:1500])))
            self.build_log = so + se
            log("proof build failed:\n" + (so + se)[-3000:])
            return False
        # forbidden constructs anywhere in the import closure that belongs to this project
        bad = []
        for m in local_closure(mod):
            c = strip_lean_comments(open(module_path(m)).read())
            for i, l in enumerate(c.splitlines(), 1):
                if FORBIDDEN.search(l):
                    bad.append("%s:%d: %s" % (m, i, l.strip()[:80]))
        if bad:
            self.problems.append(("proof", "forbidden construct in proof sources: " + "; ".join(bad[:5])))
        # axioms
        tmp = os.path.join(BUILD, "tmp", "axioms_%s_%d.lean" % (self.pid, os.getpid()))
        pref = (self.theorem_ns + ".") if self.theorem_ns else ""
        with open(tmp, "w") as f:
            f.write("import %s\n" % mod)
            for t in self.theorems:
                f.write("#print axioms %s%s\n" % (pref, t))
        rc, so, se = sh(["lake", "env", "lean", tmp], cwd=LEAN, timeout=1200)
        os.unlink(tmp)
        text = so + se
        per = {}
        for m in re.finditer(r"'([^']+)' (does not depend on any axioms|depends on axioms: \[([^\]]*)\])", text, re.S):
            ax = set(x.strip() for x in (m.group(3) or "").replace("\n", " ").split(",") if x.strip())
            per[m.group(1)] = ax
        self.discharged = 0
        for t in self.theorems:
            ax = per.get(pref + t)
            if ax is None:
                self.problems.append(("proof", "theorem %s not found by #print axioms (%s)" % (t, text[-300:])))
                continue
            self.axioms |= ax
            if ax - ALLOWED_AXIOMS:
                self.problems.append(("proof", "theorem %s depends on non-allowed axioms %s" % (t, sorted(ax - ALLOWED_AXIOMS))))
            else:
                self.discharged += 1
        if not self.theorems:
            self.problems.append(("proof", "no theorems in %s" % mod))
        if self.tier == "thorough":
            rc, so, se = sh(["lake", "env", "leanchecker", mod], cwd=LEAN, timeout=3000)
            if rc != 0:
                self.problems.append(("proof", "leanchecker rejected %s: %s" % (mod, (so + se)[-400:])))
            else:
                self.notes.append("leanchecker re-checked " + mod)
                self.trusted.append("leanchecker (independent re-check of the compiled .olean)")
        return not any(k == "proof" for k, _ in self.problems)

    # ------------------------------------------------------------------ harness / driver
    def driver(self, name):
        with Lock("lake"):
            rc, so, se = sh(["lake", "build", name], cwd=LEAN, timeout=3000)
        if rc != 0:
            self.problems.append(("tie", "model driver %s does not build: %s" % (name, (so + se)[-800:])))
            return None
        return os.path.join(LEAN, ".lake", "build", "bin", name)

    def harness(self, name, variant="asan", extra_flags=(), libs=()):
        bdir = self.build_repo(variant)
        src = os.path.join(VERIF, "harness", name + ".cpp")
        out = os.path.join(BUILD, "bin", "%s-%s" % (name, variant))
        dep = out + ".d"
        with Lock("h_" + name):
            need = True
            if os.path.exists(out) and os.path.exists(dep):
                need = False
                t = os.path.getmtime(out)
                deps = open(dep).read().replace("\\\n", " ").split(":", 1)[-1].split()
                for d in deps + [os.path.join(VERIF, "tools", "vlib.py")]:
                    if not os.path.exists(d) or os.path.getmtime(d) > t:
                        need = True
                        break
            if need:
                san = ["-fsanitize=address,undefined"] if variant == "asan" else ["-fsanitize=thread"]
                cmd = ["g++", "-std=c++17", "-g", "-O1", "-fno-omit-frame-pointer", "-DLIBOCCA_OCCA_VERIF", "-fopenmp"] + san + \
                      ["-MMD", "-MF", dep, "-I%s/include" % REPO, "-I%s/src" % REPO, "-I%s/include" % bdir,
                       "-I" + os.path.join(VERIF, "harness")] + list(extra_flags) + [src, "-o", out,
                       "-L%s/lib" % bdir, "-locca", "-Wl,-rpath,%s/lib" % bdir, "-ldl", "-lpthread"] + list(libs)
                rc, so, se = sh(cmd, timeout=1200)
                if rc != 0:
                    self.problems.append(("tie", "harness %s does not compile against the current tree: %s" % (name, se[-1200:])))
                    log("harness compile failed:\n" + se[-3000:])
                    return None
        return out

    def run_env(self, extra=None):
        e = {"OCCA_DIR": REPO, "OCCA_CACHE_DIR": os.path.join(BUILD, "occa_cache"),
             "ASAN_OPTIONS": "detect_leaks=1:abort_on_error=0:exitcode=66:allocator_may_return_null=1",
             "UBSAN_OPTIONS": "print_stacktrace=0:halt_on_error=0",
             "OCCA_VERBOSE": "0"}
        if extra:
            e.update(extra)
        return e

    def run_impl(self, binary, histories, timeout=120, env=None, ubsan_is_violation=None):
        """Run the harness over `histories` (list of lists of op lines).  A crash/hang ends the
        current history with a CRASH/HANG observation; the harness is restarted on the rest.
        Returns (observations per history, oracle messages per history, stderr notes)."""
        obs = [None] * len(histories)
        ora = [[] for _ in histories]
        notes = []
        start = 0
        while start < len(histories):
            text = "".join("# %d\n%s\n" % (i, "\n".join(histories[i])) if histories[i] else "# %d\n" % i
                           for i in range(start, len(histories)))
            rc, so, se = sh([binary], input=text, timeout=timeout, env=self.run_env(env))
            cur = None
            for line in so.splitlines():
                if line.startswith("# "):
                    cur = int(line[2:])
                    obs[cur] = []
                elif line.startswith("!ORACLE "):
                    if cur is not None:
                        ora[cur].append(line[8:])
                elif cur is not None:
                    obs[cur].append(line)
            if ubsan_is_violation:
                ecur = None        # stderr carries the same `# k` markers (hproto.hpp)
                for l in se.splitlines():
                    if l.startswith("# ") and l[2:].strip().isdigit():
                        ecur = int(l[2:])
                    elif "runtime error:" in l and re.search(ubsan_is_violation, l):
                        k = ecur if ecur is not None else (cur if cur is not None else start)
                        ora[k].append("UBSan: " + re.sub(r"0x[0-9a-f]+", "ADDR", l.strip())[:300])
            if rc == 0:
                if any(o is None for o in obs[start:]):
                    notes.append("harness ended early without error")
                    for i in range(start, len(histories)):
                        if obs[i] is None:
                            obs[i] = ["MISSING"]
                break
            # abnormal end inside history `cur`
            k = cur if cur is not None else start
            if obs[k] is None:
                obs[k] = []
            why = "HANG" if rc == -999 else ("CRASH rc=%d" % rc)
            m = re.search(r"(AddressSanitizer|LeakSanitizer|runtime error|ThreadSanitizer)[^\n]*", se)
            sig = (m.group(0)[:200] if m else se.strip().splitlines()[-1][:200] if se.strip() else "")
            obs[k].append(why)
            ora[k].append("%s in harness: %s" % (why, sig))
            notes.append("history %d: %s %s" % (k, why, sig))
            start = k + 1
            abnormal = sum(1 for n_ in notes if ": CRASH" in n_ or ": HANG" in n_)
            hangs = sum(1 for n_ in notes if ": HANG" in n_)
            if (abnormal >= int(os.environ.get("VERIF_MAX_CRASHES", "25")) or hangs >= 3) and start < len(histories):
                # enough evidence: a tree that crashes / hangs this often is reported from the histories seen
                # so far; the rest of the batch is not run (each hang costs a full time-out)
                for i in range(start, len(histories)):
                    if obs[i] is None:
                        obs[i] = ["SKIPPED"]
                notes.append("batch cut short after %d abnormal ends (%d hangs): %d histories not run" % (abnormal, hangs, len(histories) - start))
                break
        return obs, ora, notes

    def run_model(self, binary, histories, timeout=600):
        text = "".join("# %d\n%s\n" % (i, "\n".join(h)) if h else "# %d\n" % i for i, h in enumerate(histories))
        rc, so, se = sh([binary], input=text, timeout=timeout)
        obs = [None] * len(histories)
        cur = None
        for line in so.splitlines():
            if line.startswith("# "):
                cur = int(line[2:])
                obs[cur] = []
            elif cur is not None:
                obs[cur].append(line)
        if rc != 0:
            self.problems.append(("tie", "model driver failed rc=%d: %s" % (rc, se[-300:])))
        return [o if o is not None else ["MISSING"] for o in obs]

    # ------------------------------------------------------------------ correspondence
    def correspond(self, hbin, dbin, histories, label="", nontrivial=None, timeout=300, env=None,
                   ubsan_is_violation=None, canon_impl=None, canon_model=None, crash_ok=False):
        """Run both sides, compare per history, shrink the first few failures, record coverage."""
        if hbin is None or dbin is None:
            return
        impl, ora, notes = self.run_impl(hbin, histories, timeout=timeout, env=env, ubsan_is_violation=ubsan_is_violation)
        model = self.run_model(dbin, histories, timeout=timeout)
        if canon_impl:
            impl = [canon_impl(x) for x in impl]
        if canon_model:
            model = [canon_model(x) for x in model]
        self.notes += notes[:5]
        seen = set()
        nt = 0
        for i, h in enumerate(histories):
            key = hashlib.sha1("\n".join(h).encode()).hexdigest()
            if key in seen:
                continue
            seen.add(key)
            if (nontrivial(h, impl[i]) if nontrivial else any(o not in ("bad-op", "err", "MISSING") for o in impl[i])):
                nt += 1
        self.cov["evaluations"] += len(histories)
        self.cov["distinct_nontrivial"] += nt
        self.cov["counters"]["ops" + ("_" + label if label else "")] = sum(len(h) for h in histories)
        for i in range(min(3, len(histories))):
            k = (i * 7919) % len(histories)
            self.cov["samples"].append({"ops": histories[k][:12], "impl": impl[k][:12], "model": model[k][:12]})
        skipped = [i for i in range(len(histories)) if impl[i] == ["SKIPPED"]]
        if skipped:
            self.cov["counters"]["skipped_after_repeated_crashes" + ("_" + label if label else "")] = len(skipped)
        fails = [i for i in range(len(histories)) if impl[i] != ["SKIPPED"] and (impl[i] != model[i] or ora[i])]
        self.cov["counters"]["failing_histories" + ("_" + label if label else "")] = len(fails)
        examined = 0
        t_shrink0 = time.time()
        shrink_secs = float(os.environ.get("VERIF_SHRINK_SECS", "180"))
        for i in fails:
            what0 = self._what(label, impl[i], model[i], ora[i])
            if examined >= 12 or len(self.violations) >= 8 or (examined >= 1 and time.time() - t_shrink0 > shrink_secs):
                # not shrunk: classify the unshrunk history (known finding or violation)
                if not self._known(what0, "\n".join(histories[i])):
                    if len(self.violations) < 12:
                        self._record(label, histories[i], impl[i], model[i], ora[i], what0)
                continue
            both = lambda hh: self._fails(hbin, dbin, hh, env, ubsan_is_violation, canon_impl, canon_model)
            h = self.shrink(histories[i], both)
            im, om, mo = self._eval(hbin, dbin, h, env, ubsan_is_violation, canon_impl, canon_model)
            if not om and im == mo:
                # the failure seen in the batch does not reproduce when the history runs alone
                # (time-out under load, or state leaking between histories): retried once more, then noted
                im, om, mo = self._eval(hbin, dbin, histories[i], env, ubsan_is_violation, canon_impl, canon_model)
                if not om and im == mo:
                    self.cov["counters"]["nonreproducible_batch_failures"] = self.cov["counters"].get("nonreproducible_batch_failures", 0) + 1
                    self.notes.append("history %d failed in the batch (%s) but not alone; not reported" % (i, what0[:160]))
                    examined += 1
                    continue
                h = histories[i]
            self.report_failure(label, h, im, mo, om)
            examined += 1

    def _eval(self, hbin, dbin, h, env, ubre, ci, cm):
        impl, ora, _ = self.run_impl(hbin, [h], timeout=int(os.environ.get('VERIF_EVAL_TIMEOUT', '300')), env=env, ubsan_is_violation=ubre)
        model = self.run_model(dbin, [h], timeout=int(os.environ.get('VERIF_EVAL_TIMEOUT', '300')))
        im = ci(impl[0]) if ci else impl[0]
        mo = cm(model[0]) if cm else model[0]
        return im, ora[0], mo

    def _fails(self, hbin, dbin, h, env, ubre, ci, cm):
        im, om, mo = self._eval(hbin, dbin, h, env, ubre, ci, cm)
        return bool(om) or im != mo

    def shrink(self, h, fails, budget=120):
        """ddmin over the op lines of one history (bounded by evaluations and by wall time)"""
        h = list(h)
        n = 2
        t0 = time.time()
        limit = float(os.environ.get("VERIF_SHRINK_SECS", "180"))
        while len(h) >= 2 and budget > 0 and time.time() - t0 < limit:
            chunk = max(1, len(h) // n)
            reduced = False
            for s in range(0, len(h), chunk):
                cand = h[:s] + h[s + chunk:]
                budget -= 1
                if cand and fails(cand):
                    h = cand
                    n = max(n - 1, 2)
                    reduced = True
                    break
                if budget <= 0:
                    break
            if not reduced:
                if chunk == 1:
                    break
                n = min(len(h), n * 2)
        return h

    # ------------------------------------------------------------------ verdict
    def _what(self, label, impl, model, oracles):
        if oracles:
            return "; ".join(sorted(set(oracles)))
        a, b = first_diff(impl, model)
        return "model and implementation disagree (%s): impl=%s model=%s" % (label, a, b)

    def _known(self, what, text):
        for kf in self.findings:
            if kf.get("property") == self.pid and kf.get("status") == "known":
                if re.search(kf["match"]["what"], what, re.S) and re.search(kf["match"].get("ops", ""), text, re.S):
                    if kf["id"] not in [k["id"] for k in self.known_hits]:
                        self.known_hits.append(kf)
                    return True
        return False

    def _record(self, label, h, impl, model, oracles, what):
        if sum(1 for v in self.violations if v["what"] == what) >= 3:
            return
        n = len(self.violations)
        rp = os.path.join(VERIF, "evidence", "replays", "%s-%d-%d.ops" % (self.pid, self.seed, n))
        with open(rp, "w") as f:
            f.write("## property %s  seed %d  %s\n## %s\n" % (self.pid, self.seed, label, what.replace("\n", " ")))
            f.write("## impl:  %s\n## model: %s\n" % (" | ".join(impl)[:600], " | ".join(model)[:600]))
            f.write("\n".join(h) + "\n")
        self.violations.append({"what": what, "replay": rp, "found_input": bool(oracles)})

    def report_failure(self, label, h, impl, model, oracles):
        """One shrunk failing history: oracle messages (property observably broken on the real
        code) and/or model/implementation disagreement.  A failure that matches a listed known
        finding (both its `what` and its `ops` regex) is printed as KNOWN-FINDING instead."""
        what = self._what(label, impl, model, oracles)
        if self._known(what, "\n".join(h)):
            return
        self._record(label, h, impl, model, oracles, what)

    def oracle_violation(self, what, replay_text, name="oracle"):
        """A model-independent oracle failed outside the line-protocol machinery."""
        if self._known(what, replay_text):
            return
        if sum(1 for v in self.violations if v["what"] == what) >= 3:
            return
        n = len(self.violations)
        rp = os.path.join(VERIF, "evidence", "replays", "%s-%d-%d.%s" % (self.pid, self.seed, n, name))
        with open(rp, "w") as f:
            f.write("## property %s seed %d\n## %s\n%s\n" % (self.pid, self.seed, what.replace("\n", " "), replay_text))
        self.violations.append({"what": what, "replay": rp, "found_input": True})

    def finish(self, level_text=""):
        # a broken proof / tie with no concrete failing input found by the oracles
        broken = [p for p in self.problems]
        if broken and not any(v["found_input"] for v in self.violations):
            rp = os.path.join(VERIF, "evidence", "replays", "%s-%d-obligation.txt" % (self.pid, self.seed))
            with open(rp, "w") as f:
                f.write("## property %s: the following proof obligations / ties no longer check\n" % self.pid)
                for k, t in broken:
                    f.write("%s: %s\n" % (k, t))
            self.violations.append({"what": "; ".join(t for _, t in broken)[:400], "replay": rp, "found_input": False,
                                    "obligation": True})
        cov = dict(self.cov)
        cov["rule"] = self.rule
        cov["obligations"] = max(len(self.theorems), 1) + len(self.gen_hashes)
        cov["discharged"] = self.discharged + (len(self.gen_hashes) if not any(k == "tie" and "translator" in t for k, t in self.problems) else 0)
        cov["theorems"] = self.theorems
        cov["axioms_used"] = sorted(self.axioms)
        cov["generated_tables"] = self.gen_hashes
        cov["checker_cmd"] = "cd lean && lake build OccaProofs.Props.%s && lake env lean <#print axioms of every theorem>" % self.pid
        cov["trusted_base"] = self.trusted + ["axioms: " + ", ".join(sorted(self.axioms)) if self.axioms else "no axioms"]
        cov["explanation"] = level_text
        cov["notes"] = self.notes[:20]
        cov["known_findings_seen"] = [k["id"] for k in self.known_hits]
        if not cov["samples"]:
            cov["samples"] = [{"theorem": t} for t in self.theorems[:5]] or [{"note": "no samples"}]
        cov["samples"] = cov["samples"][:8]
        ev = {"property_id": self.pid, "tier": self.tier, "seed": self.seed, "level": self.level,
              "coverage": cov, "assumptions": self.assumptions, "wall_s": round(time.time() - self.t0, 2),
              "violations": len(self.violations)}
        with open(os.path.join(VERIF, "evidence", self.pid + ".json"), "w") as f:
            json.dump(ev, f, indent=1, default=str)
        for k in self.known_hits:
            print("KNOWN-FINDING: property=%s %s [%s]" % (self.pid, k["summary"], k["id"]))
        if self.violations:
            for v in self.violations:
                tail = "" if v["found_input"] else " no-failing-input-found"
                print("# %s" % v["what"][:500])
                print("VIOLATION property=%s replay=%s%s" % (self.pid, v["replay"], tail))
            sys.exit(1)
        print("OK property=%s tier=%s seed=%d theorems=%d/%d evaluations=%d wall=%.1fs" % (
            self.pid, self.tier, self.seed, self.discharged, len(self.theorems), self.cov["evaluations"],
            time.time() - self.t0))
        sys.exit(0)


def first_diff(a, b):
    for i in range(max(len(a), len(b))):
        x = a[i] if i < len(a) else "<none>"
        y = b[i] if i < len(b) else "<none>"
        if x != y:
            return ("line %d: %s" % (i, x[:200]), "line %d: %s" % (i, y[:200]))
    return ("", "")


def read_replay(path):
    return [l.rstrip("\n") for l in open(path) if not l.startswith("##") and l.strip()]
