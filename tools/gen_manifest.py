#!/usr/bin/env python3
"""Regenerate MANIFEST.json from the META dict of every tools/checks/Cxx.py plugin."""
import importlib, json, os, sys, glob
HERE = os.path.dirname(os.path.abspath(__file__))
VERIF = os.path.dirname(HERE)
sys.path.insert(0, HERE)
sys.path.insert(0, os.path.join(HERE, "checks"))
props = [json.loads(l) for l in open(os.path.join(VERIF, "properties.jsonl"))]
checks, na = [], []
pending = json.load(open(os.path.join(HERE, "not_applicable.json"))) if os.path.exists(os.path.join(HERE, "not_applicable.json")) else {}
for p in props:
    pid = p["id"]
    f = os.path.join(HERE, "checks", pid + ".py")
    if os.path.exists(f):
        M = importlib.import_module(pid).META
        checks.append({
            "property_id": pid,
            "quick_cmd": "python3 tools/check.py %s --tier quick" % pid,
            "thorough_cmd": "python3 tools/check.py %s --tier thorough" % pid,
            "evidence_file": "evidence/%s.json" % pid,
            "replay_cmd_template": "python3 tools/check.py %s --replay {path}" % pid,
            "engine": "lean4-proof+correspondence",
            "level_claimed": {"category": M.get("category", "proof"), "text": M["level_text"], "design_ref": M.get("design_ref", "DESIGN.md section 4")},
            "level_note": M["level_note"],
            "technique": M["technique"],
        })
    else:
        na.append({"property_id": pid, "reason": pending.get(pid, "no check built yet in this round; planned as machine-checked proof + correspondence (DESIGN.md section 4) — listed here so that nothing is claimed without a working check")})
man = {
    "version": 1,
    "setup_cmd": "bash tools/setup.sh",
    "hooks": {
        "guard": "LIBOCCA_OCCA_VERIF",
        "enable": "tools/build_repo.sh configures /repo's working tree into .build/<variant> with -DCMAKE_CXX_FLAGS=-DLIBOCCA_OCCA_VERIF (plus sanitizers); harnesses are compiled with the same define",
        "baseline_off_cmd": "cmake -G Ninja -S /repo -B /repo/_build -DCMAKE_BUILD_TYPE=RelWithDebInfo -DCMAKE_CXX_FLAGS=-Wno-error -DOCCA_ENABLE_TESTS=ON && cmake --build /repo/_build -j16 && ctest --test-dir /repo/_build -j8 --timeout 900",
        "source_commits": json.load(open(os.path.join(HERE, "hook_commits.json"))) if os.path.exists(os.path.join(HERE, "hook_commits.json")) else [],
        "add_only": True,
    },
    "engines": [{
        "name": "lean4-proof+correspondence",
        "path": "tools/check.py",
        "serves_properties": [c["property_id"] for c in checks],
        "kind_free_text": "Lean 4 theorems over executable models (lean/OccaModel, lean/OccaProofs/Props); models tied to /repo by tables regenerated from the source on every run (translate/) and by differential runs of C++ harnesses (harness/) against compiled model drivers (lean/Driver)",
    }],
    "checks": checks,
    "not_applicable": na,
    "notes": "Every check rebuilds /repo's working tree (ASan/UBSan, -DLIBOCCA_OCCA_VERIF) incrementally into .build/, regenerates lean/OccaGen, rebuilds and audits the Lean proofs (#print axioms, forbidden-word grep), runs the correspondence and the model-independent oracles, and writes evidence/<id>.json.  known_findings.jsonl lists defects repaired by fix: commits (status fixed, suppress nothing) and recorded findings (status known).",
}
json.dump(man, open(os.path.join(VERIF, "MANIFEST.json"), "w"), indent=1)
print("MANIFEST.json:", len(checks), "checks;", len(na), "not_applicable")
