#!/bin/bash
# Run registered checks against a seeded change in a scratch worktree (never in /repo):
#   tools/seed_check.sh <patch.diff> C03 [C04 ...]
# Exit status: 0 if at least one of the named checks reported a VIOLATION for the change.
set -u
PATCH=$(readlink -f "$1"); shift
HERE=$(cd "$(dirname "$0")/.." && pwd)
WT=${SEED_WT:-/tmp/mutv}
HEAD=$(git -C /repo rev-parse HEAD)
[ -d $WT ] || git -C /repo worktree add -q --detach $WT $HEAD
git -C $WT checkout -q -- . ; git -C $WT checkout -q --detach $HEAD
git -C $WT apply "$PATCH" || { echo "patch does not apply"; exit 2; }
caught=1
for id in "$@"; do
  out=$(cd $HERE && VERIF_REPO=$WT VERIF_BUILD=${SEED_WT:-/tmp/mutv}-vb timeout 3000 python3 tools/check.py $id 2>${SEED_WT:-/tmp/mutv}-check.err)
  rc=$?
  echo "--- $id rc=$rc"; echo "$out" | grep -E "^VIOLATION|^KNOWN|^OK|^# " | head -8
  [ $rc -eq 1 ] && echo "$out" | grep -q "^VIOLATION" && caught=0
done
git -C $WT checkout -q -- .
# put the generated Lean tables back in step with /repo
[ -n "${SEED_WT:-}" ] || (cd $HERE && for g in translate/gen_*.py; do python3 $g >/dev/null 2>&1; done)
exit $caught
