#!/bin/bash
# One-time setup after a fresh restore (offline): build /repo's working tree with sanitizers and
# hooks (ASan/UBSan build for all checks, TSan + ENABLE_SHARABLE_DEVICE build for C30), regenerate
# the Lean tables, build all Lean libraries and drivers, then run every registered quick check
# once (results ignored) so that harness binaries and JIT kernel caches are warm.  Idempotent.
cd "$(dirname "$0")/.."
export VERIF_JOBS=${VERIF_JOBS:-16}
tools/build_repo.sh asan >/dev/null || echo "setup: asan build failed"
tools/build_repo.sh tsan >/dev/null || echo "setup: tsan build failed"
for g in translate/gen_*.py; do python3 "$g" >/dev/null 2>&1 || echo "setup: $g failed (reported by the checks that depend on it)"; done
( cd lean
  lake build 2>&1 | tail -3
  for d in $(grep -oP 'name = "\Kdrv_\w+' lakefile.toml); do
    r=$(grep -A1 "name = \"$d\"" lakefile.toml | grep -oP 'root = "\K[\w.]+' | tr . /)
    [ -f "$r.lean" ] && (lake build "$d" 2>&1 | tail -1)
  done )
if [ "${VERIF_SETUP_WARM:-1}" = "1" ]; then
  ids=$(python3 -c "import json;print(' '.join(c['property_id'] for c in json.load(open('MANIFEST.json'))['checks']))")
  mkdir -p .build/tmp
  printf '%s\n' $ids | xargs -P 4 -I{} sh -c 'timeout 1500 python3 tools/check.py {} --tier quick > .build/tmp/warm_{}.log 2>&1; echo "warm {} rc=$?"'
  rm -rf evidence/replays/*
fi
echo "setup done"
