#!/bin/bash
# One-time setup after a fresh restore (offline): build /repo's working tree with sanitizers and
# hooks, regenerate the Lean tables, build all Lean libraries and drivers.  Idempotent.
set -e
cd "$(dirname "$0")/.."
tools/build_repo.sh asan >/dev/null
for g in translate/gen_*.py; do python3 "$g" >/dev/null || echo "setup: $g failed (reported by the checks that depend on it)"; done
cd lean
lake build 2>&1 | tail -3 || true
for d in $(grep -oP 'name = "\Kdrv_\w+' lakefile.toml); do
  r=$(grep -A1 "name = \"$d\"" lakefile.toml | grep -oP 'root = "\K[\w.]+' | tr . /)
  [ -f "$r.lean" ] && (lake build "$d" 2>&1 | tail -1 || true)
done
echo "setup done"
