#!/bin/bash
# Confirm a seeded change: it applies, the tree compiles, the 61 existing tests pass with it,
# and its demonstration passes WITHOUT the change and fails WITH it.
#   tools/seed_verify.sh <patch.diff> <demo.cpp|demo.sh> [orig-worktree-path-mentioned-in-demo]
# Uses one scratch worktree of /repo (/tmp/mutv) with an incremental release build; leaves it clean.
set -u
PATCH=$(readlink -f "$1"); DEMO=$(readlink -f "$2"); ORIG=${3:-}
WT=${SEED_WT:-/tmp/mutv}
HEAD=$(git -C /repo rev-parse HEAD)
if [ ! -d $WT ]; then git -C /repo worktree add -q --detach $WT $HEAD || exit 2; fi
git -C $WT checkout -q -- . ; git -C $WT checkout -q --detach $HEAD || exit 2
build() {
  [ -f $WT/_build/build.ninja ] || cmake -G Ninja -S $WT -B $WT/_build -DCMAKE_BUILD_TYPE= "-DCMAKE_CXX_FLAGS=-Wno-error -O0 -g0" -DOCCA_ENABLE_TESTS=ON >/dev/null 2>&1
  cmake --build $WT/_build -j${VERIF_JOBS:-16} > $WT/_build.log 2>&1
}
rundemo() {  # $1 = tag
  local d=${SEED_WT:-/tmp/mutv}-demo; rm -rf $d; mkdir -p $d/cache
  if [[ "$DEMO" == *.sh ]]; then
    sed "s#${ORIG:-/nonexistent}#$WT#g" "$DEMO" > $d/demo.sh
    ( cd $d && OCCA_DIR=$WT OCCA_CACHE_DIR=$d/cache WT=$WT timeout 600 bash demo.sh > $d/out.$1 2>&1 ); return $?
  fi
  sed "s#${ORIG:-/nonexistent}#$WT#g" "$DEMO" > $d/demo.cpp
  g++ -std=c++17 -fopenmp -I$WT/include -I$WT/src -I$WT/_build/include $d/demo.cpp -o $d/demo -L$WT/_build/lib -locca -Wl,-rpath,$WT/_build/lib -lpthread -ldl > $d/compile.$1 2>&1 || { echo "demo does not compile ($1)"; tail -5 $d/compile.$1; return 99; }
  ( cd $d && OCCA_DIR=$WT OCCA_CACHE_DIR=$d/cache timeout 600 ./demo > $d/out.$1 2>&1 ); return $?
}
build || { echo "RESULT clean-build-failed"; exit 2; }
rundemo clean; RC0=$?
echo "demo on clean tree: rc=$RC0 ($(tail -1 ${SEED_WT:-/tmp/mutv}-demo/out.clean 2>/dev/null))"
git -C $WT apply "$PATCH" || { echo "RESULT patch-does-not-apply"; exit 1; }
if ! build; then echo "RESULT mutated-build-failed"; tail -5 $WT/_build.log; git -C $WT checkout -q -- .; exit 1; fi
rm -rf ${SEED_WT:-/tmp/mutv}-occa_ctest_cache; T=$(OCCA_CACHE_DIR=${SEED_WT:-/tmp/mutv}-occa_ctest_cache ctest --test-dir $WT/_build -j8 --timeout 1800 2>&1 | grep -E "tests passed|tests failed" | tail -1)
echo "tests with change: $T"
rundemo mut; RC1=$?
echo "demo on changed tree: rc=$RC1 ($(tail -1 ${SEED_WT:-/tmp/mutv}-demo/out.mut 2>/dev/null))"
git -C $WT checkout -q -- .
if [ $RC0 -eq 0 ] && [ $RC1 -ne 0 ] && [ $RC1 -ne 99 ] && echo "$T" | grep -q "100% tests passed"; then echo "RESULT confirmed"; exit 0; fi
echo "RESULT not-confirmed"; exit 1
