"""C26 — Mode-specific properties override generic ones only for their mode."""
from vlib import *
from jsongen import *

META = {
    "technique": "Lean 4 model of getModeSpecificProps, getObjectSpecificProps, initialObjectProps, device::setup and the per-call kernel/memory/streamProperties(extra) as compositions of the JSON merge/read/remove model; layering, non-interference of other modes and absence of 'modes' members proved from the merge laws; differential run against real Serial/OpenMP devices with occa::settings() set and restored, with a std::map re-computation of the layering and a scramble-the-other-modes metamorphic oracle",
    "category": "proof",
    "level_text": "Proof for all property trees, settings, mode and object names (plain names): per member, the properties an object uses are the right-biased recursive merge of settings[obj], settings[obj/modes/M], settings[modes/M/obj], user[obj], user[obj/modes/M], user[modes/M/obj] (C26_object_layering, C26_mode_layering, C26_percall_layering), no 'modes' member survives (C26_no_modes_key), and anything written under modes/M' or obj/modes/M' for M' != M leaves the result unchanged, up to device.properties() itself (C26_other_modes_inert_mode/_top/_object/_device); tied to the code by a seeded differential run on real devices.",
    "level_note": "Trusted: Lean kernel; the hand-written model lean/OccaModel/Props.lean over JsonPath.lean (validated by the correspondence run); harness/h_props.cpp; only Serial and OpenMP are enabled in the build under test, unknown mode names fall back to Serial. Mode names are matched by exact spelling at setup (the spelling given in 'mode') and by the registered spelling per call; the theorems are about one spelling M.",
    "design_ref": "DESIGN.md section 4, C26",
}

MODES = [b"Serial", b"OpenMP", b"CUDA", b"Foo"]
OBJS = [b"kernel", b"memory", b"stream", b"device"]
LEAFKEYS = [b"x", b"y", b"z", b"verbose", b"compiler_flags"]


class Counter:
    def __init__(self):
        self.n = 0

    def leaf(self, r):
        self.n += 1
        k = r.random()
        if k < 0.6:
            return "i32:%d" % self.n
        if k < 0.8:
            return "S:" + hx(b"v%d" % self.n)
        if k < 0.9:
            return r.choice(["T", "F", "Z"])
        return "A2 i32:%d S:%s" % (self.n, hx(b"e"))


def obj(members):
    """members: list of (key bytes, token string)"""
    return "O%d" % len(members) + "".join(" %s %s" % (hx(k), v) for k, v in members)


def leaves(r, c, p=0.5, nested=True):
    ms = []
    for k in LEAFKEYS:
        if r.random() < p:
            if nested and r.random() < 0.2:
                ms.append((k, obj([(kk, c.leaf(r)) for kk in LEAFKEYS[:3] if r.random() < 0.6])))
            else:
                ms.append((k, c.leaf(r)))
    return ms


def modes_block(r, c, inner):
    """a "modes" member: {M: inner(), ...}"""
    ms = []
    for m in MODES:
        if r.random() < 0.6:
            ms.append((m, inner()))
    if r.random() < 0.05:
        return (b"modes", r.choice(["i32:1", "S:78", "A1 i32:1", "N"]))     # not a dictionary
    return (b"modes", obj(ms))


def object_block(r, c):
    ms = leaves(r, c)
    if r.random() < 0.6:
        ms.append(modes_block(r, c, lambda: obj(leaves(r, c, 0.5))))
    if r.random() < 0.04:
        return r.choice(["i32:7", "S:6b", "A0", "Z"])
    return obj(ms)


def props_tree(r, c, mode=None, top_leaves=True):
    ms = []
    if mode is not None:
        ms.append((b"mode", "S:" + hx(mode)))
    if top_leaves:
        ms += leaves(r, c, 0.4)
    for o in OBJS:
        if r.random() < 0.65:
            ms.append((o, object_block(r, c)))
    if r.random() < 0.75:
        def inner():
            mm = leaves(r, c, 0.4)
            for o in OBJS:
                if r.random() < 0.55:
                    mm.append((o, obj(leaves(r, c, 0.5))))
            if r.random() < 0.05:
                mm.append((b"mode", "S:" + hx(r.choice(MODES))))
            return obj(mm)
        ms.append(modes_block(r, c, inner))
    r.shuffle(ms)
    return obj(ms)


BASE = None


def gen_history(r, thorough=False):
    c = Counter()
    h = ["base " + BASE] if BASE else []
    k = r.random()
    if k < 0.8:
        h.append("settings " + props_tree(r, c))
    elif k < 0.9:
        h.append("settings O0")                       # empty: occa::settings() falls back to the base settings
    mode = r.choice([b"Serial", b"Serial", b"OpenMP", b"OpenMP", b"serial", b"OPENMP", b"Foo", b"CUDA"]) if r.random() < 0.9 else None
    if r.random() < 0.85:
        h.append("dev " + props_tree(r, c, mode))
        for _ in range(r.randint(1, 5)):
            h.append("%s %s" % (r.choice(["kp", "mp", "sp"]), props_tree(r, c, None) if r.random() < 0.85 else r.choice(["N", "O0", "i32:1", obj(leaves(r, c))])))
    for _ in range(r.randint(0, 3)):
        m, o = r.choice(MODES), r.choice(OBJS)
        k = r.random()
        if k < 0.35:
            h.append("msp %s %s" % (hx(m), props_tree(r, c)))
        elif k < 0.7:
            h.append("osp %s %s %s" % (hx(m), hx(o), props_tree(r, c)))
        else:
            h.append("iop %s %s %s" % (hx(m), hx(o), props_tree(r, c)))
    return h


def T(s):
    return hx(s.encode())


def corpus():
    b = ["base " + BASE] if BASE else []
    K = lambda *ms: obj(list(ms))
    x = lambda n: (b"x", "i32:%d" % n)
    every_layer = K((b"kernel", K(x(1), (b"modes", K((b"Serial", K(x(2))), (b"OpenMP", K(x(3))))))),
                    (b"modes", K((b"Serial", K((b"kernel", K(x(4))))), (b"OpenMP", K((b"kernel", K(x(5))))))))
    user = K((b"mode", "S:" + hx(b"Serial")), (b"kernel", K(x(6), (b"modes", K((b"Serial", K(x(7))), (b"OpenMP", K(x(8))))))),
             (b"modes", K((b"Serial", K((b"kernel", K(x(9))))), (b"OpenMP", K((b"kernel", K(x(10))))))))
    return [
        b + ["settings " + every_layer, "dev " + user, "kp " + K(x(11), (b"modes", K((b"Serial", K(x(12))), (b"OpenMP", K(x(13))))))],
        b + ["settings " + every_layer, "dev " + user.replace(hx(b"Serial"), "@").replace(hx(b"OpenMP"), hx(b"Serial")).replace("@", hx(b"OpenMP")), "kp O0"],
        b + ["settings O0", "dev " + K((b"mode", "S:" + hx(b"OpenMP"))), "mp N", "sp O1 78 i32:1"],
        b + ["dev " + K((b"mode", "S:" + hx(b"serial")), (b"modes", K((b"serial", K(x(1))), (b"Serial", K(x(2)))))), "kp " + K((b"modes", K((b"serial", K(x(3))), (b"Serial", K(x(4))))))],
        b + ["dev " + K((b"mode", "S:" + hx(b"Nope")), x(1)), "dev O0", "dev " + K((b"mode", "S:" + hx(b"Serial")), (b"kernel", "i32:5"))],
        ["msp %s %s" % (hx(b"Serial"), K(x(1), (b"modes", K((b"Serial", K(x(2), (b"y", "i32:3"))))))),
         "osp %s %s %s" % (hx(b"Serial"), hx(b"kernel"), every_layer), "msp %s %s" % (hx(b"Serial"), K((b"modes", "i32:1"))),
         "msp %s %s" % (hx(b"Serial"), K((b"modes", K((b"Serial", "i32:1")))))],
    ]


def prepare(hs, hbin):
    return hs


def main(argv):
    global BASE
    ck = Check("C26", argv)
    ck.rule = ("histories: base settings announced, occa::settings() replaced by a random property tree (restored afterwards), one "
               "device created from a random tree (mode Serial/OpenMP, also lower/upper-case spellings and unknown names), then "
               "1..5 per-call kernel/memory/stream property requests and direct calls of getModeSpecificProps / "
               "getObjectSpecificProps / initialObjectProps.  Trees carry the same keys {x,y,z,verbose,compiler_flags} with "
               "pairwise distinct values at every layer: top level, <object>, <object>/modes/<M>, modes/<M>, modes/<M>/<object> "
               "for M in {Serial, OpenMP, CUDA, Foo}; a few layers are deliberately not dictionaries.  Non-trivial: a device was "
               "created or a layering function returned a value; distinct by SHA-1.")
    ck.assumptions = ["only the Serial and OpenMP modes are enabled in the build under test", "mode and object names contain no '/' or '\\'"]
    ck.translate(["gen_hash", "gen_json"])
    ck.prove("C26")
    hb = ck.harness("h_props")
    db = ck.driver("drv_json")
    if hb:
        obs, _, _ = ck.run_impl(hb, [["getbase"]])
        BASE = obs[0][0] if obs and obs[0] and obs[0][0].startswith("O") else None
        if BASE is None:
            ck.problems.append(("tie", "harness did not report env::baseSettings()"))
    if ck.replay:
        hs = [read_replay(ck.replay)]
    else:
        n = 700 if ck.tier == "quick" else 5000
        hs = corpus() + [gen_history(ck.rng, ck.tier == "thorough") for _ in range(n)]
    ck.correspond(hb, db, hs, label="props", ubsan_is_violation=r"types/json\.|core/device\.cpp",
                  nontrivial=lambda h, obs: any(o.startswith("{") for o in obs))
    c = ck.cov["counters"]
    for name in ("dev", "kp", "mp", "sp", "msp", "osp", "iop"):
        c["op_" + name] = sum(1 for h in hs for l in h if l.split(" ", 1)[0] == name)
    ck.finish(META["level_text"])


CORPUS = []
