"""C18 — @tile covers the original loop's iterations exactly once."""
from vlib import *
from loops_common import *

META = {
    "technique": "Lean 4 theorems over a model of tile.cpp's block / in-block / bounds-check loops; tied to the code by (a) text "
                 "correspondence: the model prints the same tiled loop headers, launch dimensions and iterator reconstructions "
                 "as the seven real translators (incl. the nested-tile float-up), (b) execution of every backend's complete "
                 "translation (Serial natively, launcher backends under the launch emulation) against the native untiled loop",
    "category": "proof",
    "level_text": "Proof for every tile size > 0, step > 0, direction, comparison and operand order and all integer bounds: with the "
                  "bounds check the tiled loops visit exactly the original iterations in the original order (C18_tile_exact, "
                  "C18_tile_each_once), without it whenever T divides the iteration count (C18_tile_nocheck), also as two launch "
                  "dimensions (C18_tile_launch), with tile-size/step operands of every operator class kept as complete expressions "
                  "(C18_inner_bound_faithful, C18_tile_spec_value); correspondence with the real translators on generated tiled "
                  "kernels (tile sizes 1-17 and expressions, steps 1-6 and expressions, all @tile attribute forms) and execution of "
                  "all seven translations over grids of run-time bounds.",
    "level_note": "Trusted: Lean kernel; the launch emulation harness/emu_launch.hpp; g++ as reference semantics. The float-up of "
                  "nested @tile(@outer,@inner) loops is modelled at text level and checked by execution, not proved. "
                  "C arithmetic overflow is outside the property.",
    "design_ref": "DESIGN.md section 4, C18",
}


def tile_loop(r, var, battr, iattr, check, plan):
    inc, strict, side, step_kind, t_kind = plan
    cmpl = ("lt" if strict else "le") if inc else ("gt" if strict else "ge")
    cmp = cmpl if side == "R" else {"lt": "gt", "le": "ge", "gt": "lt", "ge": "le"}[cmpl]
    init = gen_expr(r, r.choice(["atom", "atom", "add", "unary", "mul"]), 1)
    bound = gen_expr(r, r.choice(["atom", "atom", "add", "shift", "mul", "paren"]), 1)
    if level(bound) <= BIN_LEVEL["<"]:
        bound = ("P", bound)
    if step_kind == "one":
        upd, step = (r.choice(["preinc", "postinc"]) if inc else r.choice(["predec", "postdec"])), None
    else:
        upd = "addeq" if inc else "subeq"
        step = ("c", r.randint(1, 6)) if step_kind == "lit" else gen_expr(r, r.choice(CLASSES), 1, positive=True)
    if t_kind == "lit":
        T = ("c", r.choice([1, 2, 3, 4, 5, 7, 8, 16, 17]))
    else:
        T = gen_expr(r, r.choice(CLASSES), 1, positive=True)
    return Loop(var, "none", "int", init, cmp, side, bound, upd, step, (T, battr, iattr, check))


def small(r, var, attr):
    return gen_loop(r, var, attr, classes=["atom", "add"], small=True, ityp="int")


def gen_case(r, kid, plan, shape):
    chk = r.choice(["d", "1", "d", "1", "0"])
    if shape == 0:      # the documented form: one loop split into work-groups and work-items
        return [tile_loop(r, "x", "outer", "inner", chk, plan)]
    if shape == 1:      # tile the @inner dimension: block loop is @inner, in-block loop is kept
        return [small(r, "o", "outer"), tile_loop(r, "x", "inner", "none", chk, plan)]
    if shape == 2:      # plain @tile(T) inside the kernel body
        return [small(r, "o", "outer"), small(r, "i", "inner"), tile_loop(r, "x", "none", "none", chk, plan)]
    if shape == 3:      # 2-D tiling: the inner @outer block loop floats up
        plan2 = (plan[0], not plan[1], plan[2], "one", "lit")
        return [tile_loop(r, "y", "outer", "inner", r.choice(["d", "1"]), plan2), tile_loop(r, "x", "outer", "inner", chk, plan)]
    # tile under an ordinary @outer loop
    return [small(r, "o", "outer"), tile_loop(r, "x", "outer", "inner", chk, plan)]


def check_ok_values(loops):
    """check=false is only specified when T divides the iteration count: keep those value tuples"""
    def ok(env):
        for l in loops:
            if l.tile is not None and l.tile[3] == "0":
                T = ev(l.tile[0], env)
                c = l.count(env)
                if T <= 0 or c is None or c % T != 0:
                    return False
        return True
    return ok


def V(N=0, M=0, a=0, b=0, c=0, s=1, t=1):
    return dict(N=N, M=M, a=a, b=b, c=c, s=s, t=t)


CORPUS = [
    # F25: step 3, tile 8 — the in-block loop used to stop at xT + 8
    ("K 9101 x;none;int;c0;lt;R;vN;addeq;c3;c8:outer:inner:d", [V(N=48), V(N=50), V(N=7), V(N=0), V(N=-4)]),
    ("K 9102 o;outer;int;c0;lt;R;c2;preinc;-;- i;inner;int;c0;lt;R;c2;preinc;-;- x;none;int;vN;ge;R;c0;subeq;vs;c4:none:none:1",
     [V(N=20, s=3), V(N=9, s=2), V(N=-1, s=2)]),
    # F25: tile size with an operator looser than `+`
    ("K 9103 o;outer;int;c0;lt;R;c2;preinc;-;- x;none;int;c0;lt;R;vN;preinc;-;|,vs,c2:inner:none:d", [V(N=13, s=1), V(N=9, s=4)]),
    # check=false with T | count, decrementing, operand on the left
    ("K 9104 x;none;int;vN;lt;L;c0;predec;-;c4:outer:inner:0", [V(N=8), V(N=12), V(N=0)]),
    # 2-D tiling (float-up)
    ("K 9105 y;none;int;c0;lt;R;vM;preinc;-;c4:outer:inner:d x;none;int;c0;lt;R;vN;addeq;c2;c3:outer:inner:d",
     [V(N=13, M=6), V(N=5, M=9), V(N=0, M=3)]),
    # F73: the work-group size declared for a tiled kernel is read off the printed count at its first digit 1-9
    ("K 9107 x1;none;int;c0;lt;R;vN;preinc;-;c8:outer:inner:d", [V(N=20)]),
    ("K 9108 x;none;int;c0;lt;R;vN;preinc;-;*,c2,vs:outer:inner:d", [V(N=20, s=4)]),
    # inclusive comparison, non-multiple of the step, T = 1
    ("K 9106 x;none;int;c1;le;R;vN;addeq;c5;c1:outer:inner:d", [V(N=21), V(N=22), V(N=1), V(N=0)]),
]


def main(argv):
    ck = Check("C18", argv)
    ck.rule = ("kernels with one @tile loop (forms: @tile(T,@outer,@inner) alone / under an @outer loop / nested 2-D, "
               "@tile(T,@inner) under @outer, plain @tile(T) in the body; check default/true/false) whose header cycles through "
               "direction x strictness x operand order x {++/--, literal step 1-6, step expression} x {literal T in 1..17, T "
               "expression of each precedence class}; ~10 run-time value tuples per kernel chosen to cover non-empty, empty, "
               "boundary and non-multiple ranges (for check=false only tuples where T divides the count); evaluation = one "
               "(kernel, value tuple, backend) run; non-trivial = the untiled loop nest is non-empty")
    ck.assumptions = ["tile size and step are positive at run time", "check=false is only specified when T divides the iteration count",
                      "operand values stay far from int overflow"]
    ck.trusted += ["harness/emu_launch.hpp (device scheduler emulation: for each work-group, for each work-item; index types of the real backends)",
                   "g++ 12 as the reference semantics of the emitted C++ text and of the native sequential loop",
                   "the C expression grammar of OccaProofs/Lemmas/ExprGrammar.lean is unambiguous (not proved)"]
    ck.translate(["gen_loops"])
    ck.prove("C18")
    hb = ck.harness("h_loops")
    db = ck.driver("drv_loop")
    if ck.replay:
        cases = []
        for op, vals in parse_replay(ck.replay):
            kid, loops = loops_from_op(op)
            cases.append(Case(kid, loops, vals or pick_values(ck.rng, loops, 12)))
    else:
        n = 48 if ck.tier == "quick" else 360
        nv = 9 if ck.tier == "quick" else 14
        cases = []
        for op, vals in CORPUS:
            kid, loops = loops_from_op(op)
            cases.append(Case(kid, loops, vals))
        combos = [(inc, strict, side, sk, tk) for inc in (True, False) for strict in (True, False) for side in ("R", "L")
                  for sk in ("one", "lit", "expr") for tk in ("lit", "expr")]
        ck.rng.shuffle(combos)
        for k in range(n):
            plan = combos[k % len(combos)]
            shape = [0, 0, 1, 2, 3, 4, 0, 1][k % 8]
            loops = gen_case(ck.rng, k + 1, plan, shape)
            ok = check_ok_values(loops)
            vals = [v for v in pick_values(ck.rng, loops, 3 * nv) if ok(v)][:nv]
            cases.append(Case(k + 1, loops, vals))
    run_cases(ck, hb, db, cases, "tile", batch=28 if ck.tier == "quick" else 80)
    ck.finish(META["level_text"])
