"""C02 — device memory behaves like an aliased byte array; misuse raises errors."""
from vlib import *

META = {
    "technique": "Lean 4 model of occa::memory / modeMemory_t / serial buffer written after the C++ guard by guard; invariant, "
                 "frame, no-trap, aliasing, clone-freshness and exact-rejection theorems over all histories; differential run of "
                 "the model against the real library (Serial and OpenMP devices, ASan/UBSan) with an independent byte-array shadow "
                 "and pointer-containment oracles in the harness",
    "category": "proof",
    "level_text": "Proof for all finite histories of malloc / wrapMemory / slice / + / cast / setDtype / clone / copyFrom / copyTo / "
                  "assign / free (C02_views_in_bounds, C02_err_frame, C02_no_trap, C02_slice_within_parent, C02_slice_alias, "
                  "C02_cast_alias, C02_write_read, C02_clone_fresh, C02_rejects_exactly_partial; the full rejection statement "
                  "fails only for the recorded finding F05) plus a seeded differential run of the real occa code against the "
                  "model on both host devices, with the harness's own reference byte array as oracle.",
    "level_note": "Trusted: Lean kernel; the hand-written model lean/OccaModel/Mem.lean (validated by the correspondence run, not "
                  "proved equal to the C++); harness/h_mem.cpp and its shadow; ASan/UBSan as the detector of undefined behaviour; "
                  "dim_t overflow (values >= 2^31) is outside the quantifier; only the host backends (serial::memory, inherited "
                  "by OpenMP) are covered.",
    "design_ref": "DESIGN.md section 4, C02",
}

ESZ = [1, 2, 4, 8, 12]
NVARS = 6
HOSTSZ = 256


def rhex(r, n):
    if n <= 0:
        return "-"
    k = r.random()
    if k < 0.15:
        b = r.randrange(256)
        return ("%02x" % b) * n
    if k < 0.3:
        s = r.randrange(256)
        return "".join("%02x" % ((s + i) & 255) for i in range(n))
    return "".join("%02x" % r.randrange(256) for _ in range(n))


class G:
    """Generator with a light size-only picture of the handles (never used as an oracle):
    it only serves to aim counts and offsets at the boundaries of the valid range."""

    def __init__(self, r, allow_f05=False, p_invalid=0.3, zero_dtype=False):
        self.zero_dtype = zero_dtype
        self.r = r
        self.h = [None] * NVARS          # None or dict(size, esz, mid, buf, off)
        self.nmid = 0
        self.nbuf = 2
        self.allow_f05 = allow_f05
        self.p_invalid = p_invalid
        self.ops = []

    # ---------------------------------------------------------------- helpers
    def var(self):
        return self.r.randrange(NVARS)

    def live(self):
        return [i for i in range(NVARS) if self.h[i]]

    def dead(self):
        return [i for i in range(NVARS) if not self.h[i]]

    def pick_init(self, allow_uninit):
        """a handle variable: initialised if possible; uninitialised with small probability when allowed"""
        lv, dd = self.live(), self.dead()
        if allow_uninit and dd and (not lv or self.r.random() < 0.12):
            return self.r.choice(dd)
        if lv:
            return self.r.choice(lv)
        return None

    def length(self, i):
        h = self.h[i]
        return h["size"] // h["esz"] if (h and h["esz"]) else 0

    def new(self, v, size, esz, buf=None, off=0):
        if buf is None:
            buf = self.nbuf
            self.nbuf += 1
        self.h[v] = dict(size=size, esz=esz, mid=self.nmid, buf=buf, off=off)
        self.nmid += 1

    def invalid(self):
        return self.r.random() < self.p_invalid

    def small(self, hi):
        """0..hi with boundary bias"""
        if hi <= 0:
            return 0
        k = self.r.random()
        if k < 0.2:
            return 0
        if k < 0.4:
            return hi
        if k < 0.5:
            return hi - 1
        if k < 0.6:
            return 1
        return self.r.randint(0, hi)

    # ---------------------------------------------------------------- operations
    def op_malloc(self):
        r = self.r
        v, e = self.var(), r.choice(ESZ)
        n = self.small(256 // e) if r.random() < 0.7 else r.randint(0, 256 // e)
        if self.invalid() and r.random() < 0.4:
            n = r.choice([-1, -2, -n - 1])
        with_data = r.random() < 0.65
        if with_data:
            self.ops.append("mallocd %d %d %d %s" % (v, n, e, rhex(r, n * e)))
        else:
            self.ops.append("malloc %d %d %d" % (v, n, e))
        if n > 0:
            self.new(v, n * e, e)
        elif n == 0:
            self.h[v] = None

    def op_mallocm(self):
        r = self.r
        s = self.pick_init(self.allow_f05)
        if s is None:
            return self.op_malloc()
        v, e = self.var(), r.choice(ESZ)
        ssize = self.h[s]["size"] if self.h[s] else 0
        hi = ssize // e
        n = self.small(hi)
        ok = True
        if self.invalid():
            n = r.choice([-1, hi + 1, hi + 2])
            ok = False
        self.ops.append("mallocm %d %d %d %d" % (v, n, e, s))
        if not self.h[s] or ssize == 0:                      # no source data: any non-negative size is fine
            ok = n >= 0
        if ok and n > 0:
            self.new(v, n * e, e)
        elif ok and n == 0:
            self.h[v] = None

    def op_wrap(self):
        r = self.r
        v, e, hb = self.var(), r.choice(ESZ), r.randrange(2)
        n = self.small(HOSTSZ // e)
        if self.invalid() and r.random() < 0.3:
            n = r.choice([-1, -3])
        self.ops.append("wrap %d %d %d %d" % (v, hb, n, e))
        if n >= 0:
            self.new(v, n * e, e, buf=hb)

    def op_slice(self):
        r = self.r
        s = self.pick_init(self.allow_f05)
        if s is None:
            return self.op_malloc()
        d = self.var()
        ln = self.length(s)
        h = self.h[s]
        off = self.small(ln)
        plus = r.random() < 0.3
        cnt = -1 if (plus or r.random() < 0.25) else self.small(ln - off)
        ok = True
        if self.invalid():
            ok = False
            k = r.random()
            own = (h["off"] // max(1, h["esz"])) if h else 0          # how far this view is from the start of its buffer
            if k < 0.35:                                      # negative offset, incl. one that stays inside the buffer (F04)
                off = -r.choice([1, max(1, own), max(1, own // 2), max(1, own + 1)])
                if cnt != -1 and r.random() < 0.5:
                    cnt = self.small(ln)
            elif k < 0.55:
                off = ln + r.choice([1, 2])                   # one past the end
            elif k < 0.8 and not plus:
                cnt = ln - off + r.choice([1, 2]) if cnt != -1 else -2
            elif not plus:
                cnt = r.choice([-2, -3, -ln - 2])                  # (never -1: that means "the rest")
            else:
                off = ln + 1
        if plus:
            self.ops.append("plus %d %d %d" % (d, s, off))
        else:
            self.ops.append("slice %d %d %d %d" % (d, s, off, cnt))
        if not h:
            self.h[d] = None
            return
        n = (ln - off) if cnt == -1 else cnt
        if ok and off >= 0 and n >= 0 and off + n <= ln:
            self.new(d, n * h["esz"], h["esz"], buf=h["buf"], off=h["off"] + off * h["esz"])

    def op_cast(self):
        s = self.pick_init(True)
        if s is None:
            return self.op_malloc()
        d, e = self.var(), self.r.choice(ESZ)
        if self.zero_dtype and self.r.random() < 0.15:
            e = 0                                             # occa::dtype::void_ (F38)
        self.ops.append("cast %d %d %d" % (d, s, e))
        h = self.h[s]
        if h:
            self.new(d, self.length(s) * h["esz"], e, buf=h["buf"], off=h["off"])

    def op_setdt(self):
        v = self.pick_init(True)
        if v is None:
            return self.op_malloc()
        e = self.r.choice(ESZ)
        self.ops.append("setdt %d %d" % (v, e))
        if self.h[v]:
            mid = self.h[v]["mid"]
            for x in self.h:
                if x and x["mid"] == mid:
                    x["esz"] = e

    def op_clone(self):
        s = self.pick_init(self.allow_f05)
        if s is None:
            return self.op_malloc()
        d = self.var()
        self.ops.append("clone %d %d" % (d, s))
        h = self.h[s]
        if h and h["size"] > 0:
            self.new(d, h["size"], h["esz"])
        else:
            self.h[d] = None

    def count_off(self, ln):
        """(count, offset, valid) in elements for a copy against a range of `ln` elements"""
        r = self.r
        off = self.small(ln) if r.random() < 0.6 else 0
        if r.random() < 0.2 and off == 0:
            cnt = -1
        else:
            cnt = self.small(ln - off)
        return cnt, off

    def op_cfh(self):
        r = self.r
        v = self.pick_init(self.allow_f05)
        if v is None:
            return self.op_malloc()
        h = self.h[v]
        ln = self.length(v)
        e = h["esz"] if h else 1
        cnt, off = self.count_off(ln)
        if self.invalid():
            k = r.random()
            if k < 0.3:
                off = r.choice([-1, -2, -ln])
            elif k < 0.5:
                cnt = r.choice([-2, -3])
            elif k < 0.8:
                cnt = ln - off + r.choice([1, 2]) if cnt != -1 else ln
                if cnt == ln:
                    off = r.choice([1, 2])
            else:
                off = ln + 1
        n = ln if cnt == -1 else cnt
        self.ops.append("cfh %d %d %d %s" % (v, cnt, off, rhex(r, min(max(0, n * e), 600))))

    def op_cth(self):
        r = self.r
        v = self.pick_init(self.allow_f05)
        if v is None:
            return self.op_malloc()
        h = self.h[v]
        ln = self.length(v)
        e = h["esz"] if h else 1
        if r.random() < 0.35:
            cnt, off = -1, 0                                  # read everything back
        else:
            cnt, off = self.count_off(ln)
        if self.invalid() and r.random() < 0.7:
            k = r.random()
            if k < 0.3:
                off = r.choice([-1, -2, -ln])
            elif k < 0.5:
                cnt = r.choice([-2, -3])
            elif k < 0.8:
                cnt = ln - off + r.choice([1, 2]) if cnt != -1 else ln
                if cnt == ln:
                    off = r.choice([1, 2])
            else:
                off = ln + 1
        n = ln if cnt == -1 else cnt
        self.ops.append("cth %d %d %d %d" % (v, min(max(0, n * e), 600), cnt, off))

    def op_cmm(self):
        r = self.r
        lv, dd = self.live(), self.dead()
        if not lv:
            return self.op_malloc()
        a = r.choice(lv)
        # prefer a partner on the same buffer (overlap) now and then
        same = [i for i in lv if self.h[i]["buf"] == self.h[a]["buf"]]
        b = r.choice(same) if (same and r.random() < 0.45) else r.choice(lv)
        d, s = (a, b) if r.random() < 0.5 else (b, a)
        if dd and r.random() < 0.1:                            # one operand uninitialised (F03)
            if r.random() < 0.5:
                d = r.choice(dd)
            else:
                s = r.choice(dd)
            if self.allow_f05 and r.random() < 0.3:
                d, s = r.choice(dd), r.choice(dd)
        frm = r.random() < 0.5
        self_ = d if frm else s
        hd, hs = self.h[d], self.h[s]
        ed = max(1, hd["esz"]) if hd else 1                   # (max: the zero-byte dtype void)
        es = max(1, hs["esz"]) if hs else 1
        eself = max(1, (self.h[self_] or {"esz": 1})["esz"])
        dsize = hd["size"] if hd else 0
        ssize = hs["size"] if hs else 0
        # byte-exact valid ranges: offsets are in elements of each side's own dtype, the count in the receiver's
        doff = self.small(dsize // ed) if r.random() < 0.6 else 0
        soff = self.small(ssize // es) if r.random() < 0.6 else 0
        room = min(dsize - doff * ed, ssize - soff * es)
        hi = max(0, room // eself)
        cnt = self.small(hi)
        if r.random() < 0.12:
            cnt = -1
        if self.invalid():
            k = r.random()
            if k < 0.2:
                doff = r.choice([-1, -2])
            elif k < 0.4:
                soff = r.choice([-1, -2])
            elif k < 0.55:
                cnt = r.choice([-2, -3])
            elif k < 0.85:
                cnt = hi + r.choice([1, 2])
            else:
                if r.random() < 0.5:
                    doff = dsize // ed + 1
                else:
                    soff = ssize // es + 1
        if frm:
            self.ops.append("cmm %d %d %d %d %d" % (d, s, cnt, doff, soff))
        else:
            self.ops.append("ctm %d %d %d %d %d" % (s, d, cnt, doff, soff))

    def op_asg(self):
        d, s = self.var(), self.var()
        self.ops.append("asg %d %d" % (d, s))
        self.h[d] = dict(self.h[s]) if self.h[s] else None

    def op_free(self):
        v = self.pick_init(True)
        if v is None:
            return self.op_malloc()
        self.ops.append("free %d" % v)
        if self.h[v]:
            mid = self.h[v]["mid"]
            for i in range(NVARS):
                if self.h[i] and self.h[i]["mid"] == mid:
                    self.h[i] = None

    def op_host(self):
        r = self.r
        hb = r.randrange(2)
        off = self.small(HOSTSZ - 1)
        n = self.small(min(32, HOSTSZ - off))
        if r.random() < 0.6:
            self.ops.append("hw %d %d %s" % (hb, off, rhex(r, n)))
        else:
            self.ops.append("hr %d %d %d" % (hb, off, n))

    def op_info(self):
        self.ops.append("info %d" % self.var())

    def history(self, nops):
        r = self.r
        self.ops.append("dev " + r.choice("SO"))
        table = [(self.op_malloc, 13), (self.op_mallocm, 3), (self.op_wrap, 4), (self.op_slice, 20), (self.op_cast, 7),
                 (self.op_setdt, 2), (self.op_clone, 6), (self.op_cfh, 12), (self.op_cth, 14), (self.op_cmm, 13),
                 (self.op_asg, 2), (self.op_free, 2), (self.op_host, 2)]
        fs = [f for f, _ in table]
        ws = [w for _, w in table]
        # start with something to work on
        self.op_malloc()
        while len(self.ops) < nops:
            r.choices(fs, ws)[0]()
        # read everything back at the end
        for i in self.live():
            self.ops.append("cth %d %d -1 0" % (i, self.length(i) * self.h[i]["esz"]))
        return self.ops


def gen_history(r, allow_f05=False, zero_dtype=False):
    return G(r, allow_f05=allow_f05, p_invalid=r.choice([0.15, 0.3, 0.3, 0.45]), zero_dtype=zero_dtype).history(r.randint(6, 40))


D16 = "000102030405060708090a0b0c0d0e0f"
CORPUS = [
    # F05 (known finding): operations on an uninitialised handle return silently
    ["slice 0 1 0 1"],
    ["cfh 0 1 0 aa", "cth 0 1 1 0", "clone 1 0", "plus 1 0 0", "cmm 0 1 -1 0 0"],
    # F03: one-sided uninitialised device-to-device copies
    ["mallocd 0 4 4 " + D16, "cmm 0 1 1 0 0", "ctm 0 1 1 0 0", "cmm 1 0 1 0 0", "ctm 1 0 1 0 0", "cth 0 16 -1 0"],
    # F04: negative offset on an inner slice
    ["mallocd 0 16 1 " + D16, "slice 1 0 10 6", "slice 2 1 -5 3", "plus 3 1 -5", "slice 4 1 -10 -1", "slice 4 1 -11 2"],
    ["dev O", "mallocd 0 4 4 " + D16, "plus 1 0 2", "plus 2 1 -1", "plus 2 1 -2", "plus 2 1 -3"],
    # F35: overlapping device-to-device copy inside one buffer
    ["mallocd 0 16 1 " + D16, "cmm 0 0 8 2 0", "cth 0 16 -1 0", "slice 1 0 4 8", "ctm 1 0 8 0 0", "cth 0 16 -1 0",
     "cmm 0 0 4 0 0"],
    # F36 / F37: clone of a view shorter than one element / of an empty view
    ["mallocd 0 8 1 0001020304050607", "cast 1 0 12", "clone 2 1", "cast 3 2 1", "cth 3 8 8 0", "mallocm 4 2 4 1", "cth 4 8 2 0"],
    ["mallocd 0 8 1 0001020304050607", "slice 1 0 8 0", "clone 2 1", "slice 3 0 3 0", "clone 4 3", "wrap 5 0 0 4", "clone 5 5"],
    # F38: a dtype of zero bytes (void): length() divided by zero
    ["mallocd 0 8 1 0001020304050607", "cast 1 0 0", "info 1", "cth 1 0 -1 0", "slice 2 1 0 -1", "plus 2 1 0", "cast 3 1 4", "cfh 1 -1 0 -",
     "cmm 1 0 -1 0 0", "clone 4 1", "malloc 5 3 0", "cth 5 0 -1 0", "mallocm 5 2 0 0", "setdt 0 0", "cth 0 0 -1 0", "cth 0 0 2 1", "setdt 0 2",
     "cth 0 8 -1 0"],
    # slices of slices with casts: element sizes that do not divide
    ["mallocd 0 16 1 " + D16, "cast 1 0 12", "cth 1 12 1 0", "cth 1 12 -1 0", "cth 1 24 2 0", "slice 2 1 1 0", "cast 3 1 4",
     "cth 3 12 -1 0", "setdt 0 4", "slice 4 0 1 2", "cfh 4 2 0 a0a1a2a3a4a5a6a7", "cth 0 16 -1 0"],
    # boundaries of every guard
    ["mallocd 0 4 4 " + D16, "slice 1 0 4 -1", "slice 1 0 5 -1", "slice 1 0 4 0", "slice 1 0 4 1", "slice 1 0 0 4", "slice 1 0 0 5",
     "slice 1 0 0 -2", "cth 0 16 4 0", "cth 0 20 5 0", "cth 0 16 4 1", "cth 0 0 0 4", "cth 0 0 0 5", "cth 0 0 -1 1", "cth 0 0 -2 0",
     "cfh 0 -1 1 " + D16, "cfh 0 0 -1 -", "malloc 1 -1 4", "malloc 1 0 4", "wrap 2 0 -1 4", "wrap 2 1 64 4", "wrap 2 0 0 1"],
    # wrapped host array: shared with the caller, clone is not
    ["wrap 0 0 8 4", "hw 0 4 a1a2a3a4", "cth 0 32 -1 0", "clone 1 0", "cfh 0 1 0 b1b2b3b4", "hr 0 0 8", "cth 1 32 -1 0",
     "wrap 2 0 16 2", "plus 3 2 2", "cfh 3 1 0 c1c2", "hr 0 0 8", "cth 0 8 2 0"],
    # free NULLs every copy of the handle, slices stay alive; setDtype is shared by copies
    ["mallocd 0 4 4 " + D16, "asg 1 0", "slice 2 0 1 2", "free 0", "info 1", "cth 2 8 -1 0", "cmm 2 1 1 0 0", "cast 3 1 1", "setdt 1 2",
     "asg 3 2", "setdt 3 2", "info 2", "cth 2 8 4 0", "free 4"],
]


def main(argv):
    ck = Check("C02", argv)
    if os.environ.get("C02_SHRINK_BUDGET"):      # development only: cheaper minimisation when trying broken variants
        _b, _orig = int(os.environ["C02_SHRINK_BUDGET"]), ck.shrink
        ck.shrink = lambda h, fails, budget=120: _orig(h, fails, budget=_b)
    ck.rule = ("histories of 6-40 operations on 6 handle variables (malloc with/without data, malloc from memory, wrapMemory, "
               "slice, +, cast, setDtype, clone, copyFrom/copyTo host and device, assignment, free, direct host access to the "
               "wrapped arrays) on a Serial or OpenMP device; dtype sizes 1,2,4,8,12; sizes 0-256 bytes; counts and offsets "
               "drawn from the valid range of the handle with boundary bias, 15-45 % of the requests perturbed to just outside "
               "it (negative, one past the end, count one too many, uninitialised operand); a history is non-trivial if the "
               "implementation produced at least one successful observation; distinct by SHA-1 of the op text")
    ck.assumptions = ["counts, offsets, sizes below 2^31 (no dim_t overflow)",
                      "host pointers passed to malloc/copyFrom/copyTo/wrapMemory address arrays at least as long as the request",
                      "host backends only (serial::memory, inherited by the OpenMP device)"]
    ck.translate(["gen_mem"])
    ck.prove("C02")
    hb = ck.harness("h_mem")
    db = ck.driver("drv_mem")
    ub = r"core/memory\.cpp|core/device\.cpp|serial/(memory|buffer|device)\.cpp|internal/core/(memory|buffer)\.cpp"
    if ck.replay:
        ck.correspond(hb, db, [read_replay(ck.replay)], label="replay", ubsan_is_violation=ub)
    else:
        n = 1000 if ck.tier == "quick" else 15000
        hs = CORPUS + [gen_history(ck.rng) for _ in range(n)]
        ck.correspond(hb, db, hs, label="mem", ubsan_is_violation=ub, timeout=3000)
        # the region of the known finding F05 (uninitialised receiver), plus casts to the zero-byte dtype void:
        # same correspondence and oracles, with only the F05 message itself silenced
        hs2 = [gen_history(ck.rng, allow_f05=True, zero_dtype=True) for _ in range(n // 5)]
        ck.correspond(hb, db, hs2, label="uninit", ubsan_is_violation=ub, env={"H_MEM_F05": "quiet"}, timeout=3000)
        allops = [o.split()[0] for h in hs + hs2 for o in h]
        for k in sorted(set(allops)):
            ck.cov["counters"]["op_" + k] = allops.count(k)
    ck.finish(META["level_text"])
