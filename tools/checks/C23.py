"""C23 — functional arrays, ranges and forLoop match sequential semantics."""
from vlib import *

META = {
    "technique": "Lean 4 theorems over a model of occa::range / occa::array / occa::forLoop whose integer formulas (range::length, the safe tile sizes, the CPU reduction's block arithmetic, the three loops the OKL translator makes of the tiled map loop) are regenerated from the C++ (clang AST, kernel text, the tree's own `occa translate`); differential run of the model against the real library, which JIT-compiles every kernel on a Serial and an OpenMP device under ASan/UBSan, with std:: oracles in the harness",
    "category": "proof",
    "level_text": "Proof, for all inputs: range::length equals the number of iterations of the sequential loop for both signs of the step and the kernels' values are that loop's values (C23_range_len, C23_range_values); the tiled map loop visits exactly the indices 0..len-1 in order, each once, for every len, tile size and tile iteration count, through the safe-size computation of getMapArrayScope and the loop nest printed by the tree's own OKL translator (C23_map_cover, C23_map_cover_perm, C23_safe_tile, C23_map_gen_eq, C23_map_visit; the pre-repair @tile is refuted by a witness and proved for one tile iteration), so array::map is std::transform in the state model with aliasing views (C23_map_is_transform); every/some are the conjunction/disjunction (C23_every_some); the block-wise CPU reduction equals the sequential fold for every associative operation with identity and every semilattice operation from any start value, with the 128 blocks proved to partition the index range (C23_cpu_blocks_cover, C23_reduce_blocks_*, C23_cpu_reduce_*, instances sum, product, min, max, dot; C23_index_of for indexOf); forLoop tuples are exactly the cartesian product, each once, and a tiled range loop visits the plain loop's values for both signs (C23_forloop_tuples_*, C23_tiled_range_up/down).  Known findings kept as full/fails/partial triples: findIndex returns the last match (F60), an initial value is folded into every block (F62).  Tied to the code by the regenerated definitions and by a seeded differential run of every public array/range/forLoop operation on Serial and OpenMP against the model with std:: oracles.",
    "level_note": "Trusted: Lean kernel; translate/gen_range.py (clang-14 AST -> Lean for range::length and the safe tile sizes; regex + a small expression parser for the reduce kernel text; the loop headers printed by the tree's own OKL translator for the tiled map loop); the hand-written operation layer of OccaModel/Functional.lean and Driver/Func.lean (validated by the correspondence run, not proved equal to the C++); float results are tested against an order-independent error bound, never proved; int overflow is outside the quantifier; the JIT-generated kernel source is exercised, not modelled; GPU code paths (typelessGpuReduce, buildGpuMapTiledForLoops) are not reachable on Serial/OpenMP and are not covered.",
    "design_ref": "DESIGN.md section 4, C23",
}

LENS = [0, 1, 2, 3, 4, 5, 7, 8, 9, 11, 13, 15, 16, 17, 23, 24, 25, 31, 32, 33, 37, 47, 48, 49, 63, 64, 65, 67, 70]
TILE_SIZES = [1, 2, 3, 8, 1024]
TILE_ITERS = [1, 2, 3]


def L(xs):
    return " ".join(str(x) for x in xs)


class Gen:
    """Generates one history while mirroring what it needs to know about the slots: length, alias group and
    (for untouched `new` arrays) the contents, so that requests stay valid and the known triggers can be avoided."""

    def __init__(self, r, flags, big1024):
        self.r, self.flags, self.big1024 = r, flags, big1024
        self.h = []
        self.len = {}      # slot -> length
        self.grp = {}      # slot -> alias group
        self.vals = {}     # slot -> contents, only while certainly unchanged
        self.tiled = {}    # slot -> (ts, ti)
        self.flen = {}
        self.ngrp = 0
        self.omp = False

    def emit(self, s):
        self.h.append(s)

    def fresh(self, j, n, vals=None):
        self.ngrp += 1
        self.len[j], self.grp[j] = n, self.ngrp
        self.tiled[j] = (-1, -1)
        if vals is None:
            self.vals.pop(j, None)
        else:
            self.vals[j] = list(vals)

    def dirty(self, j):
        g = self.grp.get(j)
        for k in list(self.vals):
            if self.grp.get(k) == g:
                del self.vals[k]

    def rlen(self):
        r = self.r
        return r.choice(LENS) if r.random() < 0.7 else r.randint(0, 70)

    def contents(self, n):
        r = self.r
        m = r.random()
        if m < 0.3:
            v = r.sample(range(-40, 60), n) if n <= 100 else [r.randint(-40, 60) for _ in range(n)]   # distinct
        elif m < 0.5:
            v = [r.choice([0, 1, -1, 2]) for _ in range(n)]
        elif m < 0.6:
            v = [r.choice([0, 5]) for _ in range(n)]
        else:
            v = [r.randint(-9, 20) for _ in range(n)]
        return v

    def new(self, k, n=None):
        n = self.rlen() if n is None else n
        v = self.contents(n)
        self.emit("new %d %d %s" % (k, n, L(v)) if n else "new %d 0" % k)
        self.fresh(k, n, v)

    def tile(self, k):
        r = self.r
        ts = r.choice(TILE_SIZES + [0, -1])
        ti = r.choice(TILE_ITERS) if self.flags["tileInnerScaled"] else 1
        if ts == 1024 and self.len[k] not in self.big1024 and self.len[k] > 8:
            ts = 8          # bound the number of distinct OCCA_ARRAY_TILE_SIZE values (= kernels) per run
        if r.random() < 0.25 and ti == 1:
            self.emit("tile1 %d %d" % (k, ts))
        else:
            self.emit("tile %d %d %d" % (k, ts, ti))

    def anyslot(self):
        return self.r.choice(sorted(self.len))

    def other(self, k):
        c = [j for j in self.len if self.grp[j] != self.grp[k]]
        return self.r.choice(sorted(c)) if c else None

    def target(self):
        return self.r.randint(0, 7)

    def small(self):
        return self.r.randint(-3, 4)

    def array_op(self):
        r = self.r
        k = self.anyslot()
        n = self.len[k]
        op = r.choice(["map", "map", "mapto", "every", "some", "find", "foreach", "reduce", "reduce", "reduce", "min", "max",
                       "incl", "idx", "lidx", "fill", "rev", "shl", "shr", "dot", "clamp", "cmin", "cmax", "cast", "slice",
                       "slice", "concat", "clone", "asg", "resize", "at", "cpf", "get", "tile"])
        if op == "tile":
            return self.tile(k)
        if op == "get":
            return self.emit("get %d" % k)
        if op == "map":
            j = self.target()
            self.emit("map %d %d %d %d %d" % (k, j, r.randint(0, 2), self.small(), self.small()))
            return self.fresh(j, n)
        if op == "mapto":
            j = self.anyslot()
            F = r.randint(0, 2)
            if j != k and self.grp[j] == self.grp[k]:
                return          # different views of one buffer: order-dependent, outside the property
            if j == k and (F == 2):
                F = r.randint(0, 1)
            self.emit("mapto %d %d %d %d %d" % (k, j, F, self.small(), self.small()))
            if self.len[j] != n:
                ts = self.tiled[j]
                self.fresh(j, n)
                self.tiled[j] = ts
            else:
                self.dirty(j)
            return
        if op in ("every", "some"):
            return self.emit("%s %d %d %d" % (op, k, r.randint(0, 4), r.randint(-10, 25)))
        if op == "find":
            # F60: with several matches findIndex does not return the first; keep at most one match
            v = self.vals.get(k)
            if v is not None and len(set(v)) == len(v) and r.random() < 0.5:
                return self.emit("find %d 4 %d" % (k, r.choice(v) if v and r.random() < 0.8 else 99))
            return self.emit("find %d 3 %d" % (k, r.randint(-1, n + 1)))
        if op == "foreach":
            j = self.other(k)
            if j is None:
                return
            E = r.randint(0, 2)
            if E != 0 and self.len[j] < n:
                E = 0
            p = self.small()
            if self.len[j] == 0:
                return          # an empty array inside a scope is an untyped pointer (memory, not this property)
            self.emit("foreach %d %d %d %d" % (k, j, E, p))
            return self.dirty(j)
        if op == "reduce":
            R = r.randint(0, 8)
            G = 0
            if R == 0 and r.random() < 0.5:
                G = r.randint(1, 3)
            if R == 8 and r.random() < 0.3:
                G = 4
            v = self.vals.get(k)
            if R == 1 and (v is None or sum(1 for x in v if abs(x) > 1) > 12 or any(abs(x) > 3 for x in v)):
                R = 0           # keep products inside int
            if n == 0 and R in (3, 6, 7, 8):
                R = 0
            s = "reduce %d %d %d %d" % (k, R, G, r.randint(-5, 10))
            if r.random() < 0.3:
                # F62: an initial value is folded into every one of the 128 blocks; only idempotent uses are exercised
                init = {0: 0, 1: 1, 4: 0}.get(R, r.randint(-20, 30))
                s += " %d" % init
            return self.emit(s)
        if op in ("min", "max"):
            return self.emit("%s %d" % (op, k))
        if op in ("incl", "idx", "lidx"):
            v = self.vals.get(k)
            t = r.choice(v) if v and r.random() < 0.7 else r.randint(-5, 25)
            return self.emit("%s %d %d" % (op, k, t))
        if op == "fill":
            self.emit("fill %d %d" % (k, r.randint(-9, 9)))
            return self.dirty(k)
        if op == "rev":
            j = self.target()
            self.emit("rev %d %d" % (k, j))
            return self.fresh(j, n)
        if op in ("shl", "shr"):
            j = self.target()
            self.emit("%s %d %d %d %d" % (op, k, j, r.choice([0, 1, 2, 3, n, n + 1, max(0, n - 1)]), r.randint(-9, 9)))
            return self.fresh(j, n)
        if op == "dot":
            c = [j for j in self.len if self.len[j] >= n]
            j = r.choice(sorted(c))
            return self.emit("dot %d %d" % (k, j))
        if op == "clamp":
            j = self.target()
            lo = r.randint(-10, 10)
            self.emit("clamp %d %d %d %d" % (k, j, lo, lo + r.randint(0, 12)))
            return self.fresh(j, n)
        if op in ("cmin", "cmax"):
            j = self.target()
            self.emit("%s %d %d %d" % (op, k, j, r.randint(-10, 20)))
            return self.fresh(j, n)
        if op == "cast":
            j = self.target()
            self.emit("cast %d %d %d" % (k, j, r.randint(0, 3)))
            return self.fresh(j, n)
        if op == "slice":
            j = self.target()
            off = r.choice([0, n, r.randint(0, n)])
            cnt = r.choice([-1, 0, n - off, r.randint(0, n - off)])
            self.emit("slice %d %d %d %d" % (k, j, off, cnt))
            m = n - off if cnt < 0 else cnt
            g = self.grp[k]
            self.fresh(j, m)
            self.grp[j] = g
            return
        if op == "concat":
            l, j = self.anyslot(), self.target()
            m = n + self.len[l]
            self.emit("concat %d %d %d" % (k, l, j))
            return self.fresh(j, m)
        if op == "clone":
            j = self.target()
            self.emit("clone %d %d" % (k, j))
            return self.fresh(j, n, self.vals.get(k))
        if op == "asg":
            j = self.target()
            self.emit("asg %d %d" % (k, j))
            if j != k:
                self.len[j], self.grp[j], self.tiled[j] = n, self.grp[k], self.tiled[k]
                if k in self.vals:
                    self.vals[j] = list(self.vals[k])
                else:
                    self.vals.pop(j, None)
            return
        if op == "resize":
            m = r.choice([n, 0, 1, n + 1, max(0, n - 1), self.rlen()])
            self.emit("resize %d %d" % (k, m))
            if m != n:
                ts = self.tiled[k]
                self.fresh(k, m)
                self.tiled[k] = ts
            return
        if op == "at":
            if n:
                self.emit("at %d %d" % (k, r.randint(0, n - 1)))
            return
        if op == "cpf":
            if n:
                m = r.randint(1, n)
                self.emit("cpf %d %d %s" % (k, m, L(r.randint(-9, 20) for _ in range(m))))
                self.dirty(k)
            return

    def rng(self):
        """range arguments s e st: both signs, empty ranges, steps that do not divide the span"""
        r = self.r
        m = r.random()
        if m < 0.35:
            s = 0
            e = r.choice([0, 1, 2, 5, 7, 8, 9, 16, 17, 33, 64, 70])
            st = r.choice([1, 1, 2, 3, 7])
        elif m < 0.6:
            s = r.randint(-20, 30)
            e = s - r.choice([0, 1, 2, 5, 8, 9, 31, 40])
            st = -r.choice([1, 1, 2, 3, 5])
        elif m < 0.85:
            s = r.randint(-30, 30)
            e = s + r.randint(0, 70)
            st = r.choice([1, 2, 3, 4, 5, 8, 70, 71])
        else:
            s, e, st = r.randint(-10, 10), r.randint(-10, 10), r.choice([-3, -1, 0, 1, 2])      # often empty, zero step
        return s, e, st

    def rtile(self):
        r = self.r
        if r.random() < 0.6:
            return 0, 0
        return r.choice([1, 2, 3, 8]), (r.choice(TILE_ITERS) if self.flags["tileInnerScaled"] else r.choice([0, 1]))

    def range_op(self):
        r = self.r
        s, e, st = self.rng()
        ts, ti = self.rtile()
        n = len(range(s, e, st if st else 1))
        head = "%d %d %d %d %d" % (s, e, st, ts, ti)
        op = r.choice(["every", "some", "find", "map", "mapto", "toarr", "foreach", "reduce", "reduce", "rlen"])
        if op == "rlen":
            A = r.randint(1, 3)
            return self.emit("rlen %d %s" % (A, L([e] if A == 1 else [s, e] if A == 2 else [s, e, st])))
        if op in ("every", "some"):
            return self.emit("r.%s %s %d %d" % (op, head, r.randint(0, 1), r.randint(-35, 70)))
        if op == "find":
            return self.emit("r.find %s 1 %d" % (head, r.randint(-35, 70)))       # `x == p`: at most one match (F60)
        if op == "map":
            j = self.target()
            self.emit("r.map %s %d %d %d" % (head, j, self.small(), self.small()))
            return self.fresh(j, n)
        if op == "mapto":
            if not self.len:
                return
            j = self.anyslot()
            self.emit("r.mapto %s %d %d %d" % (head, j, self.small(), self.small()))
            if self.len[j] != n:
                t = self.tiled[j]
                self.fresh(j, n)
                self.tiled[j] = t
            else:
                self.dirty(j)
            return
        if op == "toarr":
            j = self.target()
            self.emit("r.toarr %s %d" % (head, j))
            return self.fresh(j, n, list(range(s, e, st if st else 1)))
        if op == "foreach":
            j = self.target()
            self.emit("r.foreach %s %d" % (head, j))
            vs = list(range(s, e, st if st else 1))
            m = (max(vs[0], vs[-1]) - min(vs[0], vs[-1]) + 1) if vs else 1
            return self.fresh(j, m + 1)
        if op == "reduce":
            R = r.choice([0, 0, 1, 7, 8])
            if n == 0 and R in (7, 8) and r.random() < 0.8:
                R = 0
            if R == 1 and n > 18:
                R = 0       # (x % 3 + 1) <= 3: 3^18 < 2^31
            sfx = ""
            if r.random() < 0.3:
                sfx = " %d" % {0: 0, 1: 1}.get(R, r.randint(-40, 80))        # F62
            return self.emit("r.reduce %s %d%s" % (head, R, sfx))

    def loop_spec(self, small):
        r = self.r
        m = r.random()
        if m < 0.35:
            n = r.choice([0, 1, 2, 3] if small else [0, 1, 2, 3, 5, 8, 9])
            return "n:%d" % n, n, 1
        if m < 0.8:
            hi = 3 if small else 9
            st = r.choice([1, 2, 3, -1, -2, -3])
            cnt = r.randint(0, hi)
            s = r.randint(-6, 12)
            e = s + st * cnt - (r.choice([0, 1]) if st > 0 else -r.choice([0, 1])) * (1 if cnt else 0)
            if r.random() < 0.1:
                e = s - st * r.randint(1, 3)        # wrong direction: empty
            vs = list(range(s, e, st))
            if st < 0 and not self.flags["forLoopStepIsAbs"] and vs:
                st, e = -st, s + (s - e)             # F61: descending loops run away; keep the ascending mirror
                vs = list(range(s, e, st))
            return "r:%d:%d:%d" % (s, e, st), len(vs), st
        c = [k for k in self.len if self.len[k] <= (3 if small else 9)]
        if not c:
            return "n:2", 2, 1
        k = r.choice(sorted(c))
        return "a:%d" % k, self.len[k], 1

    def loop_op(self):
        r = self.r
        tiled = r.random() < 0.3
        no = r.choice([1, 1, 2, 3])
        ni = 0 if tiled else r.choice([0, 1, 1, 2, 3])
        small = (no + ni) >= 4
        specs, total = [], 1
        for d in range(no + ni):
            sp, cnt, st = self.loop_spec(small)
            if tiled:
                if abs(st) != 1 and not self.flags["tileInnerScaled"]:
                    sp, cnt, st = "n:%d" % cnt, cnt, 1      # F25: @tile on a stepped loop skips iterations
                sp += ":t%d" % r.choice([1, 2, 3, 8])
            specs.append(sp)
            total *= max(cnt, 1)
        if total > 600:
            return
        self.emit("loop " + " ".join(specs[:no]) + (" | " + " ".join(specs[no:]) if ni else ""))

    def float_op(self):
        r = self.r
        p = r.choice(["f", "f", "d"])
        fl = self.flen.setdefault(p, {})
        if not fl or r.random() < 0.25:
            k = r.randint(0, 3)
            n = self.rlen()
            self.emit("%s.new %d %d %d" % (p, k, n, r.randint(0, 10 ** 6)))
            fl[k] = n
            return
        k = r.choice(sorted(fl))
        n = fl[k]
        op = r.choice(["map", "sum", "prod", "min", "max", "dot", "clamp", "fill", "toint", "slice", "concat", "tile", "fromint"])
        if op == "tile":
            ts = r.choice([1, 2, 3, 8])
            return self.emit("%s.tile %d %d %d" % (p, k, ts, r.choice(TILE_ITERS) if self.flags["tileInnerScaled"] else 1))
        if op in ("sum", "prod", "toint"):
            return self.emit("%s.%s %d" % (p, op, k))
        if op in ("min", "max"):
            return self.emit("%s.%s %d" % (p, op, k)) if n else None
        if op == "map":
            j = r.randint(0, 3)
            self.emit("%s.map %d %d" % (p, k, j))
            fl[j] = n
            return
        if op == "dot":
            c = [j for j in fl if fl[j] >= n]
            return self.emit("%s.dot %d %d" % (p, k, r.choice(sorted(c))))
        if op == "clamp":
            j = r.randint(0, 3)
            lo = r.randint(-30, 20)
            self.emit("%s.clamp %d %d %d %d" % (p, k, j, lo, lo + r.randint(0, 30)))
            fl[j] = n
            return
        if op == "fill":
            return self.emit("%s.fill %d %d" % (p, k, r.randint(-32, 32)))
        if op == "slice":
            j = r.randint(0, 3)
            off = r.randint(0, n)
            cnt = r.choice([-1, 0, n - off, r.randint(0, n - off)])
            self.emit("%s.slice %d %d %d %d" % (p, k, j, off, cnt))
            fl[j] = n - off if cnt < 0 else cnt
            return
        if op == "concat":
            l, j = r.choice(sorted(fl)), r.randint(0, 3)
            self.emit("%s.concat %d %d %d" % (p, k, l, j))
            fl[j] = n + fl[l]
            return
        if op == "fromint" and self.len:
            ki = self.anyslot()
            j = r.randint(0, 3)
            self.emit("%s.fromint %d %d" % (p, ki, j))
            fl[j] = self.len[ki]

    def history(self, kind):
        r = self.r
        self.omp = r.random() < 0.5
        self.emit("dev " + ("O" if self.omp else "S"))
        if kind == "array":
            for k in r.sample(range(8), r.randint(2, 3)):
                self.new(k)
                if r.random() < 0.6:
                    self.tile(k)
            for _ in range(r.randint(6, 14)):
                self.array_op()
                if r.random() < 0.08:
                    self.new(self.target())
                if r.random() < 0.02:
                    # the other device, re-using the slot objects (F65)
                    self.emit("swapdev")
                    self.omp = not self.omp
                    ks = sorted(self.len)
                    self.len, self.grp, self.vals, self.tiled = {}, {}, {}, {}
                    for k in ks[:2]:
                        self.new(k)
        elif kind == "range":
            if r.random() < 0.5:
                self.new(r.randint(0, 7))
            for _ in range(r.randint(5, 10)):
                self.range_op()
            if self.len and r.random() < 0.5:
                self.emit("get %d" % self.anyslot())
        elif kind == "loop":
            for k in r.sample(range(8), r.randint(0, 2)):
                n = r.choice([0, 1, 2, 3, 5])
                v = [r.randint(-4, 12) for _ in range(n)]
                self.emit("new %d %d %s" % (k, n, L(v)) if n else "new %d 0" % k)
                self.fresh(k, n, v)
            for _ in range(r.randint(2, 5)):
                self.loop_op()
        else:
            if r.random() < 0.5:
                self.new(r.randint(0, 7))
            for _ in range(r.randint(5, 12)):
                self.float_op()
        return self.h


def gen_history(r, flags, big1024, kind):
    return Gen(r, flags, big1024).history(kind)


SEQ20 = L(range(20))
CORPUS = [
    # F25 (@tile inner bound ignores the step): with tile iterations 2 the map kernel skips [4,8), [12,16)
    ["dev S", "new 0 20 " + SEQ20, "new 1 20 " + L([-1] * 20), "tile 0 2 2", "mapto 0 1 1 1 0"],
    ["dev O", "new 0 20 " + SEQ20, "tile 0 2 3", "every 0 0 5"],
    ["dev S", "loop r:0:20:2:t4"],
    # F27 (empty arrays and ranges)
    ["dev S", "new 0 0", "map 0 1 0 1 1", "every 0 0 1", "find 0 3 0", "reduce 0 0 0 0", "fill 0 3", "rev 0 2", "idx 0 1"],
    ["dev S", "r.every 0 0 1 0 0 0 1"],
    ["dev O", "r.map 3 3 1 0 0 1 2 2", "r.reduce 5 5 1 0 0 0", "r.foreach 2 2 1 0 0 1"],
    ["dev S", "new 3 3 1 2 3", "slice 3 6 1 0", "map 6 7 1 1 1", "new 0 0", "concat 0 3 4", "concat 3 0 5", "resize 3 0", "get 3"],
    # concat with an empty operand must give a FRESH array (seeded change C23-m2 returned a shallow copy of the
    # non-empty operand: filling the result then changed that operand)
    ["dev S", "new 3 3 1 2 3", "new 0 0", "concat 3 0 5", "fill 5 9", "get 3", "get 5", "concat 0 3 4", "fill 4 7", "get 3", "get 4"],
    ["dev O", "new 1 4 5 6 7 8", "new 2 0", "concat 1 2 6", "rev 6 6", "get 1", "concat 2 1 7", "fill 7 0", "get 1"],
    # tiled descending ranges with |step| > 1 (seeded change C23-m3: the block stride of `-=` loops lost the step)
    ["dev S", "loop r:10:0:-3:t2", "loop r:12:-1:-2:t3", "loop r:9:-9:-4:t8 n:2:t1"],
    ["dev O", "loop r:10:0:-3:t2", "loop r:7:-6:-5:t1 r:3:0:-2:t2"],
    # F60 (findIndex with several matches)
    ["dev S", "new 0 6 5 1 2 1 9 1", "find 0 4 1"],
    ["dev S", "r.find 0 10 1 0 0 0 6"],
    # F61 (forLoop over a descending range)
    ["dev S", "loop r:5:0:-1"],
    ["dev O", "loop n:3 | r:10:0:-3"],
    # F62 (an initial value is folded into each of the 128 blocks)
    ["dev S", "new 0 10 1 0 1 0 1 0 1 0 1 0", "reduce 0 0 0 0 5"],
    ["dev S", "r.reduce 0 10 1 0 0 0 7"],
    # F63 (stale bytes of an earlier, wider reduction)
    ["dev S", "new 0 10 1 1 1 1 1 1 1 1 1 1", "reduce 0 0 0 0", "reduce 0 6 0 0"],
    # F64 (mapTo with a 3-argument function into a shorter array)
    ["dev S", "new 1 2 9 9", "new 2 6 1 2 3 4 5 6", "mapto 2 1 2 1 0", "get 1"],
    # F65 (an array of another device assigned over a used array keeps the old return buffer)
    ["dev O", "new 0 3 1 2 3", "every 0 0 0", "reduce 0 0 0 0", "swapdev", "new 0 3 1 2 3", "every 0 0 0", "reduce 0 0 0 0", "find 0 3 1"],
    # F66 (forLoop over an index array: tiled before another loop; empty)
    ["dev S", "new 3 3 1 4 11", "loop a:3:t8 n:1:t1", "loop a:3:t2 r:0:3:1:t2 a:3:t1"],
    ["dev O", "new 2 0", "loop n:0 n:9 | a:2", "loop a:2", "loop n:2 | a:2"],
    # F67 (clone of a zero-length slice)
    ["dev S", "new 3 1 5", "slice 3 2 0 0", "clone 2 2", "shl 2 4 0 7", "shr 2 5 0 7"],
    # resize keeps the common prefix in both directions (and views of the old memory stay intact)
    ["dev S", "new 0 3 1 2 3", "asg 0 1", "resize 0 5", "get 0", "cpf 0 5 9 8 7 6 5", "resize 0 2", "get 0", "get 1"],
    # plain regressions
    ["dev O", "new 0 5 3 1 4 1 5", "tile 0 1024 1", "map 0 1 2 2 1", "rev 1 2", "concat 1 2 3", "slice 3 4 2 5", "fill 4 7", "get 3"],
    ["dev S", "loop n:3 r:2:11:3 | n:2", "loop n:10:t4", "loop n:5:t2 r:0:3:1:t8"],
]


def kernel_cache_dir(probe_key):
    """occa's kernel cache is keyed by the OKL source and the build properties, not by the translator that turns
    it into C++: a change of the OKL front end (e.g. @tile) would be hidden by binaries cached earlier.  The cache
    directory of this check is therefore keyed by what the tree's translator makes of two probe kernels (tiled,
    outer and inner loops in Serial and OpenMP mode; computed by translate/gen_range.py)."""
    return os.path.join(BUILD, "occa_cache_func", probe_key or "nokey")


def main(argv):
    ck = Check("C23", argv)
    ck.rule = ("histories of occa::array<int> / occa::range / occa::forLoop / float-array operations on a Serial or OpenMP "
               "device: lengths 0..70 (0, 1, primes, tile multiples +-1), tile sizes {1,2,3,8,1024} and invalid ones, tile "
               "iterations {1,2,3}, every public operation incl. aliasing slices, in-place mapTo, empty operands; range "
               "start/end/step of both signs incl. empty ranges and zero step; forLoop over 1-3 outer x 0-3 inner "
               "range/array/count iterations, tiled or not; a history is non-trivial if an operation returned a value; "
               "distinct by SHA-1 of the op text")
    ck.assumptions = ["LP64, two's complement", "int arithmetic of the exercised functions does not overflow",
                      "fresh device memory shows the ASan malloc fill pattern (only observable through defect F25)",
                      "the JIT compiler is the system g++"]
    ck.translate(["gen_range"])
    import gen_range
    flags = getattr(gen_range.gen, "flags", {"tileInnerScaled": False, "forLoopStepIsAbs": False, "emptyGuard": False})
    ck.cov["counters"].update({"flag_" + k: int(v) for k, v in flags.items()})
    ck.prove("C23")
    hb = ck.harness("h_functional")
    db = ck.driver("drv_func")
    env = {"OCCA_CACHE_DIR": kernel_cache_dir(getattr(gen_range.gen, "probe_key", None)), "OMP_NUM_THREADS": "4",
           # the JIT kernels are ASan-instrumented too: an out-of-bounds access inside a kernel is a report, not luck
           "OCCA_CXXFLAGS": "-O1 -g -fsanitize=address -fno-omit-frame-pointer",
           # an occa::exception thrown while a kernel is being built leaks parser objects: not this property
           "ASAN_OPTIONS": "detect_leaks=0:abort_on_error=0:exitcode=66:allocator_may_return_null=1"}
    if ck.replay:
        hs = [read_replay(ck.replay)]
    else:
        big1024 = set(ck.rng.sample(LENS[9:], 2))
        n = 14 if ck.tier == "quick" else 60
        hs = list(CORPUS)
        for i in range(n):
            # forLoop kernels include <occa.hpp> and nearly every structure is a new kernel: fewer of them
            for kind in ("array", "array", "range", "float") + (("loop",) if i % 2 == 0 else ()):
                hs.append(gen_history(ck.rng, flags, big1024, kind))
    ck.correspond(hb, db, hs, label="functional", timeout=7200, env=env,
                  ubsan_is_violation=r"functional/|loops/|typelessArray|array\.hpp|range\.")
    ops = [l.split()[0] for h in hs for l in h]
    for o in sorted(set(ops)):
        ck.cov["counters"]["op_" + o] = ops.count(o)
    ck.finish(META["level_text"])
