"""C10 — Kernel argument validation accepts exactly the compatible argument lists."""
import shutil, stat
from vlib import *
from _dtype_common import *

META = {
    "technique": "Lean 4 theorems over a model of modeKernel_t::setupRun, dtype_t::canBeCastedTo/isCyclic (loops and trapping operations explicit), the parser's metadata extraction and the build.json codec; differential runs: (1) the real setupRun on arbitrary metadata x argument lists against the model, (2) real OKL kernels over the signature lattice compiled and run fresh and again from the cache in a second process, against the model and against a compatibility oracle computed from the generated signature",
    "category": "proof",
    "level_text": "Proof for all metadata and argument lists that validation accepts exactly the declaratively compatible lists (C10_validate_spec, C10_compatible_pointwise, C10_cast_spec: count, pointer-ness, repetition rule of the flattened element types), never traps (C10_no_trap, C10_cast_no_trap) and decides identically on metadata read back from build.json, for every kernel signature incl. the zero-parameter kernel (C10_fresh_eq_cached, C10_fresh_eq_cached_signature, C10_zero_parameter_kernel); tied to the code by regenerated tables / code-shape obligations, by a seeded differential run of the real setupRun against the model, and by real kernels over the OKL signature lattice run fresh and from the cache in two processes with an independent compatibility oracle.",
    "level_note": "Trusted: Lean kernel; translate/gen_dtype.py (regex extraction); the hand-written model OccaModel/Dtype.lean of the repaired code (validated by correspondence, not proved equal to the C++); the plugin's own type table for the oracle (C/OKL spelling -> element type, `void` and the dtype-less char16_t/char32_t/wchar_t are their own element types); g++ and the serial backend for the end-to-end part; LP64. Only the serial mode is compiled and run end to end; the validation code is mode independent (modeKernel_t).",
    "design_ref": "DESIGN.md section 4, C10/C11",
}

# ---------------------------------------------------------------- (1) setupRun on arbitrary metadata

def gen_validate_history(r, keys):
    g = TreeGen(r, keys, max_depth=3)
    g.grow(r.randint(2, 9))
    ops = list(g.ops)
    if g.n() == 0:
        ops.append("B int")
        g.push("B int", "B", 1, 1)
        ops = list(g.ops)
    near = near_rep_ops(r, g) if r.random() < 0.6 else []
    ops = list(g.ops)
    for x in near:                     # the cast relation on the boundary cases, both directions
        for y in near:
            if x != y and r.random() < 0.5:
                ops.append("X %d %d" % (x, y))
    for _ in range(r.randint(1, 2)):
        nops = len(g.ops)
        mo, sig = meta_ops(r, g)
        ops += mo
        if near and r.random() < 0.7:  # a pointer parameter of a boundary type, memories of the others
            pslot = r.choice(near)
            ops.append("KA 0 1 %d %s" % (pslot, hx("q")))
            sig.append((True, pslot))
        ops.append("KR")
        for _ in range(r.randint(3, 9)):
            al = arg_list(r, g, sig)
            if near and al and r.random() < 0.6:
                al[-1] = "m%d" % r.choice(near)
            ops.append(("V %d %s" % (r.random() < 0.93, " ".join(al))).rstrip())
        # start the next metadata from scratch
        if r.random() < 0.5:
            break
    return ops


CORPUS = [
    # F12: a kernel without parameters: fresh metadata (initialized by the parser) vs read back
    ["KN 6b", "KI 1", "KR", "V 1", "V 1 s", "V 1 z", "V 0 s"],
    ["KN 6b", "KR", "V 1", "V 1 s"],                                  # metadata never initialized (non-OKL kernel)
    # F13: parameter with an empty flattening (T x[n], n not constant -> tuple of size -1; empty struct)
    ["B float", "T 0 -1", "F {74797065:s737472756374,6669656c6473:[]}", "KN 6b", "KA 0 1 1 78", "KA 0 1 2 79", "KR",
     "V 1 m0 m0", "V 1 z z", "V 1 m1 m2", "V 1 m2 m1"],
    # F15: struct parameter with a registered custom leaf; memory of the same type / a copy / another size
    ["C 6d7963 12 1", "S 73 2 61 0 1 62 0 1", "C 6d7963 12 0", "C 6d7963 8 0", "KN 6b", "KA 1 1 1 70", "KR",
     "V 1 m1", "V 1 m0", "V 1 m2", "V 1 m3", "V 1 z", "V 1 s"],
    # every error class, first mismatch wins
    ["B float", "B int", "B float4", "B byte", "KN 6b", "KA 1 1 0 61", "KA 0 0 1 6e", "KA 0 1 2 76", "KR",
     "V 1 m0 s m2", "V 1 m2 d m0", "V 1 m3 s m3", "V 1 m1 s m2", "V 1 m0 s m1", "V 1 s s m2", "V 1 m0 m0 m2", "V 1 m0 z m2",
     "V 1 m0 h u", "V 1 h s m2", "V 1 m0 s", "V 1 m0 s m2 s", "V 1", "V 0 s"],
]

# ---------------------------------------------------------------- (2) real kernels over the signature lattice

VEC_H = "#include <stddef.h>\n" + "".join(
    "struct %s%d { %s v[%d]; };\n" % (b, n, c, n)
    for b, c in [("uchar", "unsigned char"), ("char", "char"), ("ushort", "unsigned short"), ("short", "short"),
                 ("uint", "unsigned int"), ("int", "int"), ("ulong", "unsigned long"), ("long", "long"),
                 ("float", "float"), ("double", "double")] for n in (2, 3, 4))

CCWRAP = """#!/bin/sh
# memoising compiler wrapper: identical (flags, source) pairs are compiled by g++ once
store="$(dirname "$0")/ccstore"
mkdir -p "$store"
out=""; src=""; prev=""
for a in "$@"; do
  if [ "$prev" = "-o" ]; then out="$a"; fi
  case "$a" in *.cpp|*.c) src="$a";; esac
  prev="$a"
done
if [ -n "$src" ] && [ -n "$out" ] && [ -f "$src" ]; then
  flags=$(echo "$@" | sed "s#$out##; s#$src##")
  key=$( (echo "$flags"; cat "$src") | sha1sum | cut -d' ' -f1)
  if [ -f "$store/$key" ]; then cp "$store/$key" "$out"; exit 0; fi
  g++ "$@" || exit $?
  cp "$out" "$store/$key.tmp.$$" && mv "$store/$key.tmp.$$" "$store/$key"
  exit 0
fi
exec g++ "$@"
"""

# OKL spelling -> (primitive name for the model, long qualifier 0/1/2, element type, entries)
def base_types():
    t = {}
    for sp, leaf in [("bool", "bool"), ("char", "char"), ("unsigned char", "char"), ("signed char", "char"),
                     ("short", "short"), ("unsigned short", "short"), ("int", "int"), ("unsigned int", "int"),
                     ("float", "float"), ("double", "double")]:
        t[sp] = (sp.split()[-1], 0, leaf, 1)
    for sp, lq in [("long", 1), ("unsigned long", 1), ("long int", 1), ("long long", 2), ("unsigned long long", 2)]:
        t[sp] = ("int", lq, "long", 1)
    for sp in ("size_t", "ptrdiff_t"):
        t[sp] = (sp, 0, "long", 1)
    for sp in ("char16_t", "char32_t", "wchar_t"):
        t[sp] = (sp, 0, "none", 1)       # no dtype of its own: only untyped memory fits
    t["void"] = ("void", 0, "void", 1)
    for b, leaf in [("uchar", "char"), ("char", "char"), ("ushort", "short"), ("short", "short"), ("uint", "int"),
                    ("int", "int"), ("ulong", "long"), ("long", "long"), ("float", "float"), ("double", "double")]:
        for n in (2, 3, 4):
            t["%s%d" % (b, n)] = ("%s%d" % (b, n), 0, leaf, n)
    return t


BASES = base_types()

# memory dtype key (dtype_t::getBuiltin) -> (element type, entries); `byte` is the wildcard
MEMKEYS = {"bool": ("bool", 1), "char": ("char", 1), "short": ("short", 1), "int": ("int", 1), "long": ("long", 1),
           "float": ("float", 1), "double": ("double", 1), "void": ("void", 1),
           "int8": ("char", 1), "uint8": ("char", 1), "int16": ("short", 1), "uint16": ("short", 1),
           "int32": ("int", 1), "uint32": ("int", 1), "int64": ("long", 1), "uint64": ("long", 1),
           "byte": ("byte", 1)}
for _b, _leaf in [("uchar", "char"), ("char", "char"), ("ushort", "short"), ("short", "short"), ("uint", "int"),
                  ("int", "int"), ("ulong", "long"), ("long", "long"), ("float", "float"), ("double", "double")]:
    for _n in (2, 3, 4):
        MEMKEYS["%s%d" % (_b, _n)] = (_leaf, _n)


class VT:
    """a vartype: base spelling or typedef, pointers, array extents"""

    def __init__(self, base=None, tdef=None, ptrs=0, arrays=()):
        self.base, self.tdef, self.ptrs, self.arrays = base, tdef, ptrs, list(arrays)

    def is_ptr(self):
        return self.ptrs > 0 or len(self.arrays) > 0 or (self.tdef is not None and self.tdef[1].is_ptr())

    def flat(self):
        """(element type, number of entries) of the dtype"""
        if self.tdef is not None:
            leaf, n = self.tdef[1].flat()
        else:
            _, _, leaf, n = BASES[self.base]
        for a in self.arrays:
            n *= 1 if a is None else max(a, 0)      # unknown extent: any number of entries
        return leaf, n

    def model(self):
        """tokens of the model's VType"""
        arr = " ".join("?" if a is None else str(a) for a in self.arrays)
        if self.tdef is not None:
            return ("0 %d %d %s D %s" % (self.ptrs, len(self.arrays), arr, self.tdef[1].model())).replace("  ", " ")
        pname, lq, _, _ = BASES[self.base]
        return ("%d %d %d %s P %s" % (lq, self.ptrs, len(self.arrays), arr, pname)).replace("  ", " ")

    def decl(self, name):
        t = self.tdef[0] if self.tdef is not None else self.base
        return "%s %s%s%s" % (t, "*" * self.ptrs, name, "".join("[G3]" if a is None else "[%d]" % a for a in self.arrays))


def gen_vt(r, tdefs, allow_tdef=True):
    if allow_tdef and tdefs and r.random() < 0.2:
        base, td = None, r.choice(tdefs)
    else:
        td = None
        k = r.random()
        pool = [b for b in BASES if BASES[b][3] == 1] if k < 0.6 else [b for b in BASES if BASES[b][3] > 1]
        base = r.choice(pool)
    q = r.random()
    ptrs = 0 if q < 0.4 else (1 if q < 0.93 else 2)
    arrays = []
    if r.random() < 0.15:
        arrays = [r.choice([1, 2, 3, 4, 8, None])] + ([r.choice([2, 3])] if r.random() < 0.2 else [])
    if base == "void" and ptrs == 0 and td is None:
        ptrs = 1
        arrays = []
    return VT(base, td, ptrs, arrays)


def gen_source(r, nk):
    """one OKL file: typedefs and nk kernels; returns (text, [(kname, [(const, VT, pname)])])"""
    tdefs, lines = [], ["const int G3 = 3;"]       # an array extent that is not a compile-time constant for the parser
    for i in range(r.choice([0, 1, 2, 3])):
        vt = gen_vt(r, tdefs)
        if vt.tdef is None and vt.base == "void" and vt.ptrs == 0:
            continue
        name = "td%d_t" % i
        lines.append("typedef %s;" % vt.decl(name))
        tdefs.append((name, vt))
    kernels = []
    for k in range(nk):
        np_ = r.choice([0, 1, 1, 2, 2, 3, 4])
        ps = []
        for j in range(np_):
            ps.append((r.random() < 0.4, gen_vt(r, tdefs), "p%d" % j))
        kname = "k%d" % k
        args = ", ".join(("const " if c else "") + vt.decl(n) for c, vt, n in ps)
        lines.append("@kernel void %s(%s) {\n  for (int o = 0; o < 1; ++o; @outer) {\n    for (int i = 0; i < 1; ++i; @inner) {\n    }\n  }\n}"
                     % (kname, args))
        kernels.append((kname, ps))
    return "\n".join(lines) + "\n", kernels


def flat_of_mem(key):
    return MEMKEYS[key]


def cast_ok(mem, par):
    (ml, mn), (pl, pn) = mem, par
    if ml == "byte" or (pl == "byte"):
        return True
    a, b = [ml] * mn, [pl] * pn
    if len(a) > len(b):
        a, b = b, a
    if not a:
        return not b
    if len(b) % len(a):
        return False
    return all(b[i] == a[i % len(a)] for i in range(len(b)))


def expected(ps, args):
    """the decision the property demands, from the signature alone"""
    if len(args) != len(ps):
        return "count"
    for i, ((c, vt, n), a) in enumerate(zip(ps, args), 1):
        ptrlike = a[0] in "mzu"
        if ptrlike != vt.is_ptr():
            return ("mem%d" if vt.is_ptr() else "nonmem%d") % i
        if a.startswith("m:") and not cast_ok(flat_of_mem(a[2:]), vt.flat()):
            return "type%d" % i
    return "ok"


def gen_args(r, ps, memkeys):
    mode = r.random()
    args = []
    for c, vt, n in ps:
        q = r.random()
        leaf, cnt = vt.flat()
        if mode < 0.4 or q < 0.65:
            if vt.is_ptr():
                if q < 0.12:
                    args.append(r.choice(["z", "u"]))
                elif q < 0.5:
                    good = [k for k in memkeys if cast_ok(MEMKEYS[k], (leaf, cnt))]
                    args.append("m:" + r.choice(good or memkeys))
                else:
                    args.append("m:" + r.choice(memkeys))
            else:
                args.append(r.choice(["s", "d", "h"]))
        else:
            args.append(r.choice(["s", "d", "h", "z", "u", "m:" + r.choice(memkeys)]))
    k = r.random()
    if k < 0.1 and args:
        args.pop(r.randrange(len(args)))
    elif k < 0.2:
        args.insert(r.randint(0, len(args)), r.choice(["s", "z", "m:" + r.choice(memkeys)]))
    return args


def run_kernels(ck, hb, db, nfiles, nk, nargs):
    work = os.path.join(BUILD, "tmp", "kargs-%d-%d" % (ck.seed, os.getpid()))
    shutil.rmtree(work, ignore_errors=True)
    os.makedirs(work)
    try:
        _run_kernels(ck, hb, db, nfiles, nk, nargs, work)
    finally:
        shutil.rmtree(work, ignore_errors=True)


def _run_kernels(ck, hb, db, nfiles, nk, nargs, work):
    r = ck.rng
    keys = builtin_keys()
    memkeys = [k for k in MEMKEYS if k in keys]
    if "size_t" not in keys:                       # without fix F12b the parser has no dtype for them
        for sp in ("size_t", "ptrdiff_t"):
            BASES[sp] = (sp, 0, "none", 1)
    open(os.path.join(work, "vec.h"), "w").write(VEC_H)
    cc = os.path.join(work, "ccwrap.sh")
    open(cc, "w").write(CCWRAP)
    os.chmod(cc, os.stat(cc).st_mode | stat.S_IEXEC)
    flags = "-O0 -w -include " + os.path.join(work, "vec.h")
    hist_fresh, hist_cached, plans = [], [], []
    for f in range(nfiles):
        text, kernels = gen_source(r, nk)
        path = os.path.join(work, "f%d.okl" % f)
        open(path, "w").write(text)
        mode = "OpenMP" if f % 3 == 1 else "Serial"      # setupRun is mode independent; the OpenMP device shares the serial cache path
        hf = ["MODE " + mode, "FILE " + hx(path), "FLAGS " + hx(flags), "COMPILER " + hx(cc)]
        hc = list(hf)
        plan = []
        for kname, ps in kernels:
            lists = [gen_args(r, ps, memkeys) for _ in range(nargs)]
            lists.append(["m:" + r.choice(memkeys) if vt.is_ptr() else "s" for c, vt, n in ps])     # a plausible one
            hf.append("BUILD %s fresh" % kname)
            hc.append("BUILD %s cached" % kname)
            for a in lists:
                line = ("RUN " + " ".join(a)).rstrip()
                hf.append(line)
                hc.append(line)
            # the freshly built kernel's source is now in the cache: load it again in the same process
            hf.append("BUILD %s cached" % kname)
            hf.append(("RUN " + " ".join(lists[-1])).rstrip())
            plan.append((kname, ps, lists))
        hist_fresh.append(hf)
        hist_cached.append(hc)
        plans.append((path, text, plan))
    env = {"OCCA_CACHE_DIR": os.path.join(work, "occa_cache"), "ASAN_OPTIONS": "detect_leaks=0:abort_on_error=0:exitcode=66",
           "OCCA_VERBOSE": "0"}
    ub = r"dtype/|dtype\.(cpp|hpp)|kernelMetadata|core/kernel\.cpp|vartype\.cpp"
    t0 = time.time()
    fresh, ora1, notes1 = ck.run_impl(hb, hist_fresh, timeout=1500, env=env, ubsan_is_violation=ub)
    cached, ora2, notes2 = ck.run_impl(hb, hist_cached, timeout=1500, env=env, ubsan_is_violation=ub)   # second process, same cache
    ck.cov["counters"]["kernel_phase_s"] = round(time.time() - t0, 1)
    ck.notes += (notes1 + notes2)[:4]
    # the model: SIG (metadata of the signature), then V per argument list
    slot = {k: i for i, k in enumerate(memkeys)}
    hm = []
    for path, text, plan in plans:
        h = ["B " + k for k in memkeys]
        for kname, ps, lists in plan:
            h.append(("SIG %s %s" % (hx(kname), " ".join("%d %s %s" % (c, hx(n), vt.model()) for c, vt, n in ps))).rstrip())
            h.append("KR")
            for a in lists:
                h.append(("V 1 " + " ".join(("m%d" % slot[x[2:]]) if x.startswith("m:") else x for x in a)).rstrip())
        hm.append(h)
    model = ck.run_model(db, hm) if db else None
    cnt = ck.cov["counters"]
    nb = nr = ncompat = 0
    classes = {}
    for fi, (path, text, plan) in enumerate(plans):
        fo, co = fresh[fi], cached[fi]
        where = "%s\nOKLFILE %s\n%s" % ("\n".join("## " + l for l in text.splitlines()), hx(text),
                                          "\n".join("BUILD %s fresh" % k for k, _, _ in plan))
        for o in ora1[fi] + ora2[fi]:
            ck.oracle_violation(o, where, name="okl")
        fpos, cpos, mpos = 4, 4, len(memkeys)
        for kname, ps, lists in plan:
            sig = "%s(%s)" % (kname, ", ".join(("const " if c else "") + vt.decl(n) for c, vt, n in ps))

            def get(obs, i):
                return obs[i] if i < len(obs) else "MISSING"
            bf, bc = get(fo, fpos), get(co, cpos)
            fpos += 1
            cpos += 1
            nb += 1
            rep = "## kernel %s\n%s\nOKLFILE %s" % (sig, "\n".join("## " + l for l in text.splitlines()), hx(text))
            if not bf.startswith("built fresh ") or not bc.startswith("built cached "):
                if "Error compiling" in bf + bc:
                    # the translated source is not valid C++: a defect of the OKL printer, with a concrete input
                    ck.oracle_violation("translated OKL source does not compile (file with %s)" % ", ".join(
                        sorted(set(re.findall(r"typedef \w+ \*?td\d_t", text))) or ["kernel " + sig])[:200], where, name="okl")
                else:
                    ck.problems.append(("tie", "kernel %s does not build: fresh=%s cached=%s" % (sig, bf[:300], bc[:300])))
                # skip this kernel's lines
                fpos += len(lists) + 2
                cpos += len(lists)
                mpos += len(lists) + 2
                continue
            mf, mc = bf.split(" meta=", 1)[1], bc.split(" meta=", 1)[1]
            if "init=1" not in bf or "init=1" not in bc:
                ck.oracle_violation("kernel metadata not initialized: fresh [%s] cached [%s]" % (bf.split(" meta=")[0], bc.split(" meta=")[0]),
                                    rep + "\nBUILD %s fresh" % kname, name="okl")
            if mf != mc:
                ck.oracle_violation("metadata of the cached kernel differs from the fresh one: %s vs %s" % (mf[:200], mc[:200]),
                                    rep + "\nBUILD %s fresh" % kname, name="okl")
            if model is not None:
                ms = get(model[fi], mpos)
                if ms != mf:
                    ck.problems.append(("correspondence", "parser metadata of %s: impl %s model %s" % (sig, mf[:300], ms[:300])))
            mpos += 2
            for a in lists:
                rf, rc = get(fo, fpos), get(co, cpos)
                fpos += 1
                cpos += 1
                nr += 1
                want = expected(ps, a)
                ncompat += want == "ok"
                classes[want.rstrip("0123456789")] = classes.get(want.rstrip("0123456789"), 0) + 1
                line = ("RUN " + " ".join(a)).rstrip()
                rtext = "%s\nEXPECT %s\nBUILD %s fresh\n%s" % (rep, want, kname, line)
                if rf != rc:
                    ck.oracle_violation("fresh and cached kernels decide differently: %s [%s]: fresh %s, cached %s" % (sig, " ".join(a), rf, rc),
                                        rtext, name="okl")
                if rf != want:
                    ck.oracle_violation("decision differs from the compatibility rule: %s [%s]: %s, expected %s" % (sig, " ".join(a), rf, want),
                                        rtext, name="okl")
                if model is not None:
                    mv = get(model[fi], mpos).split(" ")
                    if mv[0] != rf or (len(mv) > 1 and mv[1] != rc):
                        ck.problems.append(("correspondence", "model and implementation disagree on %s [%s]: impl fresh %s cached %s, model %s"
                                            % (sig, " ".join(a), rf, rc, " ".join(mv))))
                mpos += 1
            # same-process reload
            b2, r2 = get(fo, fpos), get(fo, fpos + 1)
            fpos += 2
            if b2.split(" meta=")[-1] != mf or r2 != expected(ps, lists[-1]):
                ck.oracle_violation("kernel reloaded from the cache in the same process differs: %s: %s / %s" % (sig, b2[:200], r2),
                                    rep + "\nBUILD %s fresh\nBUILD %s cached" % (kname, kname), name="okl")
    cnt["kernels_built_fresh_and_cached"] = nb
    cnt["kernel_runs_each_mode"] = nr
    cnt["kernel_runs_compatible"] = ncompat
    for k, v in classes.items():
        cnt["expected_" + k] = v
    ck.cov["evaluations"] += nr
    ck.cov["distinct_nontrivial"] += nb
    if plans:
        path, text, plan = plans[0]
        ck.cov["samples"].append({"okl": text[:600], "fresh": fresh[0][4:10], "cached": cached[0][4:10]})


def replay_okl(ck, lines):
    """re-run one recorded end-to-end finding: OKLFILE <hex text> / EXPECT <decision> / BUILD k fresh / RUN args"""
    hk = ck.harness("h_kernelargs")
    if not hk:
        return
    work = os.path.join(BUILD, "tmp", "kargs-replay-%d" % os.getpid())
    shutil.rmtree(work, ignore_errors=True)
    os.makedirs(work)
    try:
        text = bytes.fromhex([l for l in lines if l.startswith("OKLFILE ")][0].split()[1]).decode()
        want = ([l.split()[1] for l in lines if l.startswith("EXPECT ")] or [None])[0]
        ops = [l for l in lines if l.startswith(("BUILD ", "RUN"))]
        path = os.path.join(work, "f.okl")
        open(path, "w").write(text)
        open(os.path.join(work, "vec.h"), "w").write(VEC_H)
        cc = os.path.join(work, "ccwrap.sh")
        open(cc, "w").write(CCWRAP)
        os.chmod(cc, os.stat(cc).st_mode | stat.S_IEXEC)
        head = ["MODE Serial", "FILE " + hx(path), "FLAGS " + hx("-O0 -w -include " + os.path.join(work, "vec.h")), "COMPILER " + hx(cc)]
        env = {"OCCA_CACHE_DIR": os.path.join(work, "occa_cache"), "ASAN_OPTIONS": "detect_leaks=0:abort_on_error=0:exitcode=66"}
        ub = r"dtype/|dtype\.(cpp|hpp)|kernelMetadata|core/kernel\.cpp|vartype\.cpp"
        f, o1, _ = ck.run_impl(hk, [head + ops], timeout=600, env=env, ubsan_is_violation=ub)
        c, o2, _ = ck.run_impl(hk, [head + [l.replace(" fresh", " cached") for l in ops]], timeout=600, env=env, ubsan_is_violation=ub)
        print("fresh :", f[0][4:])
        print("cached:", c[0][4:])
        for o in o1[0] + o2[0]:
            ck.oracle_violation(o, "\n".join(lines), name="okl")
        runs_f = [x for x, l in zip(f[0][4:], ops) if l.startswith("RUN")]
        runs_c = [x for x, l in zip(c[0][4:], ops) if l.startswith("RUN")]
        if runs_f != runs_c:
            ck.oracle_violation("fresh and cached kernels decide differently: fresh %s, cached %s" % (runs_f, runs_c), "\n".join(lines), name="okl")
        if want and any(x != want for x in runs_f + runs_c):
            ck.oracle_violation("decision differs from the compatibility rule: %s / %s, expected %s" % (runs_f, runs_c, want), "\n".join(lines), name="okl")
        for x, y in zip(f[0][4:], c[0][4:]):
            if x.startswith("built ") and (x.split(" meta=")[-1] != y.split(" meta=")[-1] or "init=0" in x + y):
                ck.oracle_violation("metadata of the cached kernel differs from the fresh one (or is not initialized): %s / %s"
                                    % (x[:160], y[:160]), "\n".join(lines), name="okl")
        bad = [x for x in f[0][4:] + c[0][4:] if x.startswith(("exception:", "CRASH", "HANG"))]
        if bad:
            ck.oracle_violation(("translated OKL source does not compile" if "Error compiling" in bad[0] else "kernel build fails")
                                + ": " + bad[0][:200], "\n".join(lines), name="okl")
    finally:
        shutil.rmtree(work, ignore_errors=True)


def main(argv):
    ck = Check("C10", argv)
    ck.rule = ("(1) histories that build random dtype trees, kernel metadata over them (0-4 arguments, const/pointer flags, metadata "
               "initialized or not), the metadata read back from its JSON text, and 3-9 argument lists each (memories of any slot dtype, "
               "occa::null, uninitialized memory, scalars, host pointers; wrong counts; type_validation off) validated by the real "
               "setupRun on both metadata; (2) OKL files with typedef chains and kernels over the signature lattice (every OKL primitive "
               "and vector type, const, 0-2 pointers, fixed arrays of 1-2 dimensions, typedefs of all of these, 0-4 parameters), each "
               "kernel built fresh (cache directory removed) and run with argument lists over memories of every builtin dtype, untyped "
               "memory, null, scalars, host pointers and wrong counts, then again from the cache in a second process and in the same "
               "process; distinct = distinct kernels / distinct op texts")
    ck.assumptions = ["LP64", "serial mode for the end-to-end part", "sizes far below 2^31",
                      "`void` and the dtype-less OKL primitives (char16_t, char32_t, wchar_t) are their own element types"]
    ck.translate(["gen_dtype"])
    ck.prove("C10")
    hb = ck.harness("h_dtype")
    db = ck.driver("drv_dtype")
    keys = builtin_keys()
    if ck.replay:
        hs = [read_replay(ck.replay)]
        if any(l.startswith("OKLFILE ") for l in hs[0]):
            replay_okl(ck, hs[0])
            ck.finish(META["level_text"])
    else:
        n = 250 if ck.tier == "quick" else 3000
        hs = CORPUS + [gen_validate_history(ck.rng, keys) for _ in range(n)]
    parts = os.environ.get("VERIF_C10_PARTS", "validate,kernels").split(",")     # debugging aid; default: everything
    if "validate" not in parts:
        hs = hs[:1]
    ck.correspond(hb, db, hs, label="validate", nontrivial=lambda h, impl: any(o.split(" ")[0] not in ("bad-op", "err", "MISSING") for o in impl),
                  ubsan_is_violation=r"dtype/|dtype\.(cpp|hpp)|kernelMetadata|core/kernel\.cpp")
    ck.cov["counters"]["op_V"] = sum(1 for h in hs for l in h if l.startswith("V "))
    if not ck.replay and "kernels" in parts:
        hk = ck.harness("h_kernelargs")
        if hk:
            if ck.tier == "quick":
                run_kernels(ck, hk, db, nfiles=3, nk=8, nargs=5)
            else:
                run_kernels(ck, hk, db, nfiles=12, nk=20, nargs=12)
    ck.finish(META["level_text"])
