"""C06 — Kernel cache keys separate every build configuration."""
import concurrent.futures, itertools
from vlib import *
from cachekey_lib import *

META = {
    "technique": "Lean 4 theorems over a model of the kernel-key construction whose field lists, combinators and hash renderings are regenerated from the four C++ sources; differential run of real device::setupKernelInfo (Serial, OpenMP) against the model instantiated with the exact hash_t and json-dump models on families of configurations whose values coincide across properties; real two-process builds whose kernels return configuration-dependent values",
    "category": "proof",
    "level_text": "Proof, for every hash function H, JSON encoder and hash rendering: with injective H/encoder/rendering equal kernel keys imply equal effective inputs (C06_injective, C06_key_determines_inputs); with the encoder instantiated by the model of json::dumpToString its injectivity is proved rather than assumed, on well-formed JSON values (C06_injective_dump via dump_injective); without any idealisation a key shared by configurations with different effective inputs yields a collision of H, of the encoder or of a rendering (C06_collision_reduces); every input named by the property is in the regenerated field tables, which have the labelled full-width shape (C06_fields_cover, C06_table_shape); the key depends on nothing but the hashed fields and the source (C06_deterministic); the constant the OpenMP device xors into the key is an injective step (C06_constant_mix_injective); the historical xor composition collides for every hash function (C06_value_fold_collides); and the closed form for the exact model — the very instance the driver runs and the correspondence compares bit for bit with the real code, all side conditions proved (getFullString injective on well-formed hashes, xor with a constant an involution): equal keys of well-formed configurations with different effective inputs exhibit two different strings with the same occa::hash (C06_exact_collision_is_hash_collision, C06_collision_is_hash_collision). Tied to the code by the regenerated tables (a dropped field, an XOR combinator, a short rendering, a dropped guard make the theorems fail) and by a seeded differential run of the real setupKernelInfo / kernelHash / kernelHeaderHash against the model (exact 256-bit keys, Serial and OpenMP), a pairwise collision oracle inside the harness, two-process determinism and real three-process builds whose kernels return configuration-dependent values.",
    "level_note": "Trusted: Lean kernel; translate/gen_cachekey.py (regex extraction of the field tables and shapes); the hand-written model of the labelled key assembly and of json::dumpToString (validated by the exact-key correspondence, not proved equal to the C++); injectivity of H is an idealisation (a 256-bit hash cannot be injective: the reduction theorem C06_collision_reduces is the statement that needs no such hypothesis); injectivity of the JSON dump is property C24's round trip; cache directories use only the first 64 bits of the key (getString), recorded as an explicit hypothesis `dir` injective in C07 and not decidable here; the process environment (OCCA_CXX, CXXFLAGS, …) is held fixed as the property says; only Serial and OpenMP keys are covered.",
    "design_ref": "DESIGN.md section 4, C06",
}

NAMED = ["defines", "includes", "headers", "functions", "compiler", "compiler_flags", "compiler_linker_flags",
         "compiler_shared_flags", "compiler_env_script", "compiler_language", "okl"]
OTHER_HASHED = ["compiler_vendor", "include_occa", "link_occa"]
IRRELEVANT = ["verbose", "serial/include_std_x", "foo"]
# one small pool of strings shared by ALL properties and the source text: coincidences are the rule
UNSET = object()
POOL = ["-O1", "-g", "-DV=1", "g++", "cpp", "", "-fPIC -shared", "//x/incA.h", "#define HV 1", "true", "1", "V"]
# values only (never object keys: json::dumpToString does not escape keys, ledger item F24): characters the dump escapes
ESC_POOL = ['#define S "a\\b"', "two\nlines\t-g", '"', "\\"]


def rvalue(r, depth=0):
    k = r.random()
    if k < 0.50:
        return r.choice(POOL)
    if k < 0.55:
        return r.choice(ESC_POOL)
    if k < 0.70:
        return [r.choice(POOL + ESC_POOL) for _ in range(r.randint(0, 2))]
    if k < 0.85 and depth < 2:
        return {r.choice(POOL[2:] + ["enabled", "include_paths", "restrict"]): rvalue(r, depth + 1) for _ in range(r.randint(0, 2))}
    if k < 0.93:
        return r.choice([True, False, 1, 2, 0])
    return None


def rconfig(r):
    props = {}
    for n in NAMED + OTHER_HASHED:
        if r.random() < 0.35:
            props[n] = rvalue(r)
    return r.choice(["srcA", "srcB"] + POOL[:4]), props


def variants(r, src, props):
    """configurations related to (src, props) by exactly the coincidences XOR-style keys confuse"""
    out = []
    names = NAMED + OTHER_HASHED
    for _ in range(r.randint(4, 9)):
        p = dict(props)
        s = src
        k = r.random()
        a, b = r.sample(names, 2)
        if k < 0.25:            # exchange the values of two properties
            for n, v in ((a, props.get(b, UNSET)), (b, props.get(a, UNSET))):
                if v is UNSET:
                    p.pop(n, None)
                else:
                    p[n] = v
        elif k < 0.40:          # move a value to another property
            if a in p:
                p[b] = p.pop(a)
            else:
                p[a] = r.choice(POOL)
        elif k < 0.55:          # two properties with the same value (cancel under xor) / both unset
            if r.random() < 0.6:
                v = rvalue(r)
                p[a] = v
                p[b] = v
            else:
                p.pop(a, None)
                p.pop(b, None)
        elif k < 0.65:          # degenerate values
            p[a] = r.choice(["", [], {}, None, [""], {"": ""}])
        elif k < 0.78:          # okl settings
            okl = dict(p["okl"]) if isinstance(p.get("okl"), dict) else {}
            key = r.choice(["enabled", "include_paths", "restrict", "strict_headers"])
            okl[key] = r.choice([True, False, [r.choice(POOL)], r.choice(POOL)])
            if r.random() < 0.2:
                okl = {}
            p["okl"] = okl
        elif k < 0.86:          # exchange the source text with a property value
            if isinstance(p.get(a), str):
                s, p[a] = p[a], s
            else:
                s = r.choice(POOL)
        elif k < 0.93:          # a property that is not part of the key
            p[r.choice(IRRELEVANT)] = rvalue(r)
        # else: identical repeat
        out.append((s, p))
    return out


def gen_history(r, lanes):
    mode = r.choice(["serial", "openmp"])
    h = ["env %s %s" % (mode, lanes[mode])]
    src, props = rconfig(r)
    for s, p in [(src, props)] + variants(r, src, props):
        h.append("key " + cfg_tokens(s, p))
    return h


def corpus(lanes):
    sw1 = cfg_tokens("srcA", {"compiler_flags": "-O1", "compiler_linker_flags": "-g"})
    sw2 = cfg_tokens("srcA", {"compiler_flags": "-g", "compiler_linker_flags": "-O1"})
    ih1 = cfg_tokens("srcA", {"includes": ["//x/incA.h"], "headers": ["//x/incB.h"]})
    ih2 = cfg_tokens("srcA", {"includes": ["//x/incB.h"], "headers": ["//x/incA.h"]})
    eq1 = cfg_tokens("srcA", {"compiler_flags": "-g", "compiler_linker_flags": "-g"})
    eq2 = cfg_tokens("srcA", {})
    ok1 = cfg_tokens("srcA", {"okl": {"enabled": False}})
    ok2 = cfg_tokens("srcA", {"okl": {"enabled": True}})
    ok3 = cfg_tokens("srcA", {"okl": {"include_paths": ["/a"]}})
    ok4 = cfg_tokens("srcA", {"okl": {"include_paths": ["/b"]}})
    s1 = cfg_tokens("-O1", {"compiler_flags": "srcA"})
    s2 = cfg_tokens("srcA", {"compiler_flags": "-O1"})
    hs = []
    for mode in ("serial", "openmp"):
        e = "env %s %s" % (mode, lanes[mode])
        hs += [[e, "key " + sw1, "key " + sw2],       # F09 exchanged values
               [e, "key " + ih1, "key " + ih2],       # F09 includes <-> headers
               [e, "key " + eq1, "key " + eq2],       # F09 equal values cancel
               [e, "key " + ok1, "key " + ok2, "key " + ok3, "key " + ok4, "key " + eq2],   # F10
               [e, "key " + s1, "key " + s2]]
    # the source text is a key input also for file-built kernels within ONE process: a file rewritten with
    # different text of the same length within the same second must hash differently (seeded change C06-m2
    # memoised hashFile by path, mtime second and size)
    hx = lambda t: t.encode().hex()
    pth = os.path.join(BUILD, "tmp", "c06_hashfile_probe.okl")
    hs.append(["write %s %s" % (hx(pth), hx("@kernel void k(int *a) { a[0] = 1; }\n")), "hashfile " + hx(pth),
               "write %s %s" % (hx(pth), hx("@kernel void k(int *a) { a[0] = 2; }\n")), "hashfile " + hx(pth),
               "write %s %s" % (hx(pth), hx("@kernel void k(int *a) { a[0] = 3; }\n")), "hashfile " + hx(pth),
               "rm " + hx(pth), "hashfile " + hx(pth)])
    return hs


# ----------------------------------------------------------------------------- real builds
OKL_SRC = """%s#ifndef DA
#define DA 0
#endif
#ifndef IV
#define IV 0
#endif
#ifndef HV
#define HV 0
#endif
#ifndef PV
#define PV 0
#endif
@kernel void f(int *out) {
  for (int i = 0; i < 1; ++i; @outer) {
    for (int j = 0; j < 1; ++j; @inner) {
      out[0] = DA; out[1] = IV; out[2] = HV; out[3] = PV; out[4] = 0; out[5] = 0; out[6] = 0; out[7] = 7;
    }
  }
}
"""
CPP_SRC = """#ifndef DA
#define DA 0
#endif
#ifndef IV
#define IV 0
#endif
#ifndef HV
#define HV 0
#endif
#ifndef CV
#define CV 0
#endif
extern "C" void f(int *out) {
  out[0] = DA; out[1] = IV; out[2] = HV; out[3] = 0; out[4] = CV; out[5] = 0; out[6] = 0; out[7] = 7;
}
"""


def build_pairs(r, work):
    """pairs of buildable configurations (family, src, props, expected out) designed so that
    an XOR-style or okl-blind key makes the second build load the first binary"""
    for d, v in (("dirA", 1), ("dirB", 2)):
        os.makedirs(os.path.join(work, d), exist_ok=True)
        open(os.path.join(work, d, "pv.h"), "w").write("#define PV %d\n" % v)
    incs = {}
    for nm, v in (("incA.h", 1), ("incB.h", 2)):
        p = "/" + os.path.join(work, nm)          # "//…": a valid path AND a C++ comment line
        open(p, "w").write("#define IV %d\n" % v)
        incs[p] = v

    def okl_cfg(defines, inc, hdr, path):
        props = {"compiler_flags": "-O0"}
        exp = [0, 0, 0, 0, 0, 0, 0, 7]
        if defines:
            props["defines"] = {"DA": defines}
            exp[0] = defines
        if inc:
            props["includes"] = [inc]
            exp[1] = incs[inc]
        if hdr is not None:
            props["headers"] = [hdr]
            m = re.match(r"#define HV (\d+)", hdr)
            if m:
                exp[2] = int(m.group(1))
        src = OKL_SRC % ('#include "pv.h"\n' if path else "")
        if path:
            props["okl"] = {"include_paths": [os.path.join(work, path)]}
            exp[3] = 1 if path == "dirA" else 2
        return ("okl", src, props, exp)

    def cpp_cfg(cf, lf, defines=0):
        props = {"okl": {"enabled": False}, "compiler_flags": "-O0" + (" -DCV=%d" % cf if cf else "")}
        exp = [0, 0, 0, 0, cf, 0, 0, 7]
        if lf:
            props["compiler_linker_flags"] = "-O0 -DCV=%d" % lf
            exp[4] = lf
        if defines:
            props["defines"] = {"DA": defines}
            exp[0] = defines
        return ("cpp", CPP_SRC, props, exp)

    A, B = list(incs)
    fam = [
        lambda: (okl_cfg(0, A, B, None), okl_cfg(0, B, A, None)),                      # includes <-> headers exchanged
        lambda: (okl_cfg(1, None, None, "dirA"), okl_cfg(1, None, None, "dirB")),      # okl/include_paths
        lambda: (cpp_cfg(1, 2), cpp_cfg(2, 1)),                                        # flags exchanged
        lambda: (okl_cfg(r.choice([0, 1, 2]), r.choice([None, A, B]), r.choice([None, "#define HV 1", "#define HV 2"]), r.choice([None, "dirA", "dirB"])),
                 okl_cfg(r.choice([0, 1, 2]), r.choice([None, A, B]), r.choice([None, "#define HV 1", "#define HV 2"]), r.choice([None, "dirA", "dirB"]))),
        lambda: (cpp_cfg(r.choice([0, 1, 2]), r.choice([0, 1, 2]), r.choice([0, 1])), cpp_cfg(r.choice([0, 1, 2]), r.choice([0, 1, 2]), r.choice([0, 1]))),
        lambda: (cpp_cfg(1, 0, 2), okl_cfg(2, None, None, None)),
    ]
    return fam


def pair_procs(lanes, mode, pair):
    """the processes of one pair: build both configurations, then the first again (must be a
    cache hit with the same key and value); each is (op lines, expected out)"""
    return [(["env %s %s" % (mode, lanes[mode]), "cfg " + cfg_tokens(src, props), "build"], exp)
            for (fam, src, props, exp) in list(pair) + [pair[0]]]


def run_procs(ck, hb, procs, tag):
    """every element of procs in its own process, sharing one cache directory"""
    work = fresh_dir("c06-build-%s" % tag)
    cache = os.path.join(work, "cache")
    res = [run_harness(ck, hb, ops, cache, work, timeout=600) for ops, exp in procs]
    if all(r[0] == 0 for r in res):
        shutil.rmtree(cache, ignore_errors=True)
    return res


def judge(ck, procs, res):
    text = "cfg-build\n" + "\n".join("proc\n" + "\n".join(ops) + "\nexpect " + ",".join(map(str, exp)) for ops, exp in procs)
    keys, wrong = [], 0
    for i, ((ops, exp), (rc, obs, ora, se)) in enumerate(zip(procs, res)):
        line = obs[-1] if obs else ""
        mm = re.match(r"(hit|miss) key=(\w+) out=([-\d,]+)$", line)
        for o in ora:
            ck.oracle_violation(o, text, name="build")
        if rc != 0 or not mm:
            ck.oracle_violation("build process %d of a configuration pair failed: rc=%s obs=%s %s" % (i, rc, obs[-1:], se[-200:]), text, name="build")
            keys.append(None)
            continue
        keys.append(mm.group(2))
        got = [int(x) for x in mm.group(3).split(",")]
        if got != exp:
            wrong += 1
            ck.oracle_violation("a built kernel does not run the code of its own configuration: returned %s, its configuration implies %s (%s)"
                                % (got, exp, mm.group(1)), text, name="build")
    cfgs = [ops[1] for ops, exp in procs]
    for i in range(len(procs)):
        for j in range(i):
            if keys[i] is None or keys[j] is None:
                continue
            if cfgs[i] == cfgs[j] and keys[i] != keys[j]:
                ck.oracle_violation("an identical build in another process did not resolve to the same cache entry (key %s vs %s)"
                                    % (keys[i][:16], keys[j][:16]), text, name="build")
            if cfgs[i] == cfgs[j] and not res[i][1][-1].startswith("hit"):
                ck.oracle_violation("an identical build in another process was not served from the cache", text, name="build")
            if cfgs[i] != cfgs[j] and keys[i][:16] == keys[j][:16]:
                ck.oracle_violation("two different configurations were built into the same cache directory", text, name="build")
    return wrong


def parse_build_replay(lines):
    procs, cur = [], None
    for l in lines[1:]:
        if l == "proc":
            cur = [[], None]
            procs.append(cur)
        elif l.startswith("expect "):
            cur[1] = [int(x) for x in l[7:].split(",")]
        elif cur is not None:
            cur[0].append(l)
    return [(ops, exp) for ops, exp in procs]


def main(argv):
    ck = Check("C06", argv)
    ck.rule = ("histories = one base configuration (each of the 11 named properties, 3 further hashed ones and the source "
               "drawn from ONE pool of 12 strings, also inside arrays/objects) followed by 4-9 related configurations "
               "(two values exchanged, a value moved, two properties made equal or both unset, degenerate values, okl/* "
               "changes, source exchanged with a property, an irrelevant property added, identical repeat), on Serial and "
               "OpenMP; evaluations = key computations; a pair is non-trivial when its two effective inputs differ; "
               "plus real two-process builds of pairs whose kernels return configuration-dependent values")
    ck.assumptions = ["process environment fixed (no OCCA_CXX/OCCA_CXXFLAGS/OCCA_LDFLAGS/… changes between the builds)",
                      "hash collisions of occa::hash itself are outside the property (stated as hypothesis / reduction)",
                      "json dump injective on the values in play (property C24)"]
    T = {"start": time.time()}
    ck.translate(["gen_hash", "gen_cachekey"])
    ck.prove("C06")
    T["proved"] = time.time()
    hb = ck.harness("h_cachekey")
    db = ck.driver("drv_cache")
    T["built"] = time.time()
    if not hb or not db:
        ck.finish(META["level_text"])
    lanes = device_lanes(ck, hb, fresh_dir("c06-dev-%d" % ck.seed))
    if lanes is None:
        ck.finish(META["level_text"])
    keydir = fresh_dir("c06-keys-%d" % ck.seed)
    env = {"OCCA_CACHE_DIR": os.path.join(keydir, "cache"), "H_WORK": keydir}
    rp = read_replay(ck.replay) if ck.replay else None
    build_replay = bool(rp) and rp[0].startswith("cfg-build")
    if rp and not build_replay:
        hs = [[("env %s %s" % (l.split()[1], lanes[l.split()[1]]) if l.startswith("env ") else l) for l in rp]]
    elif rp:
        hs = []
    else:
        n = 180 if ck.tier == "quick" else 4000
        hs = corpus(lanes) + [gen_history(ck.rng, lanes) for _ in range(n)]

    def nontrivial(h, impl):
        return len(set(l for l in h if l.startswith("key "))) >= 2

    if hs:
        ck.correspond(hb, db, hs, label="keys", env=env, nontrivial=nontrivial, timeout=900)
        pairs = sum(len(set(h[1:])) * (len(set(h[1:])) - 1) // 2 for h in hs)
        ck.cov["counters"]["key_computations"] = sum(len(h) - 1 for h in hs)
        ck.cov["counters"]["configuration_pairs_compared_by_the_collision_oracle"] = pairs
        ck.cov["evaluations"] = sum(len(h) - 1 for h in hs)

    T["keys"] = time.time()
    # identical configurations in separate processes resolve to the same key
    if not rp:
        probe = [l for h in hs[10:40] for l in h][:120]
        a = run_harness(ck, hb, probe, env["OCCA_CACHE_DIR"], keydir)
        b = run_harness(ck, hb, probe, env["OCCA_CACHE_DIR"], keydir)
        ck.cov["counters"]["cross_process_keys"] = len(probe)
        if a[1] != b[1] or a[0] != 0:
            ck.oracle_violation("identical configurations resolve to different keys in two processes", "\n".join(probe))

    # real builds, every build in its own process
    if not rp or build_replay:
        with Lock("c06-files"):
            work0 = os.path.join(BUILD, "tmp", "c06-files")
            os.makedirs(work0, exist_ok=True)
            fam = build_pairs(ck.rng, work0)
        if build_replay:
            jobs = [(parse_build_replay(rp), "replay")]
        else:
            npairs = 3 if ck.tier == "quick" else 60
            jobs = []
            for i in range(npairs):
                f = fam[i] if i < len(fam) and ck.tier != "quick" else ck.rng.choice(fam[:3] if i < 2 else fam)
                jobs.append((pair_procs(lanes, ck.rng.choice(["serial", "openmp"]), f()), "%d-%d" % (ck.seed, i)))
        builds = wrong = 0
        with concurrent.futures.ThreadPoolExecutor(max_workers=4) as ex:
            futs = [ex.submit(run_procs, ck, hb, procs, tag) for procs, tag in jobs]
            for fu, (procs, tag) in zip(futs, jobs):
                res = fu.result()
                builds += len(res)
                wrong += judge(ck, procs, res)
        T["builds"] = time.time()
        ck.cov["counters"]["phase_seconds"] = {"translate+prove": round(T["proved"] - T["start"]), "harness+driver build": round(T["built"] - T["proved"]),
                                               "key correspondence": round(T["keys"] - T["built"]), "two-process keys + real builds": round(T["builds"] - T["keys"])}
        ck.cov["counters"]["real_builds_in_separate_processes"] = builds
        ck.cov["counters"]["real_builds_wrong_value"] = wrong
        ck.cov["evaluations"] += builds
    ck.finish(META["level_text"])
