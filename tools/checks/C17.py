"""C17 — every backend visits exactly the iterations of each OKL loop."""
from vlib import *
from loops_common import *

META = {
    "technique": "Lean 4 theorems over a model of oklForStatement's count / index formulas and the launch (udim_t storage, isNoop); "
                 "tied to the code by (a) text correspondence: the model prints the same launch-dimension / iterator-reconstruction / "
                 "kept-loop lines as the seven real translators, (b) execution: the complete translated sources of every backend "
                 "are compiled with the real occa::kernel launch path plus an emulation of the device scheduler and must visit "
                 "the iterator values of the native sequential loop",
    "category": "proof",
    "level_text": "Proof for all integer operands (C17_launch_eq_seq: launched iterator values = values of the sequential loop, all "
                  "four comparisons, both operand orders, ++/--/+=/-= with any positive step, empty and negative ranges; C17_kept_loop; "
                  "C17_nest for perfect nests; C17_seq_fuel) plus the expression-level statement that the printed count / index "
                  "trees re-read with the intended grouping (C17_count_expr_faithful); correspondence of model and real "
                  "translators on generated headers with operands of every precedence class, and execution of all seven "
                  "translations over grids of run-time values.",
    "level_note": "Trusted: Lean kernel; the emulation of the device scheduler in harness/emu_launch.hpp (for each work-group, for each "
                  "work-item; index types as on the real backends) — the host side (occa::dim, setRunDims, run, isNoop) is the real "
                  "library; g++ as the reference semantics of C expressions; C arithmetic overflow is outside the property. "
                  "`long` iterators reaching negative values on CUDA/HIP/Metal are a recorded finding (F72).",
    "design_ref": "DESIGN.md section 4, C17",
}

INT_CLASSES = CLASSES


def gen_case(r, kid, plan):
    """plan: (cmp-kind, side, upd, init class, bound class, step class) for the loop under test; the other
    loop(s) of the kernel are simple so that the nest stays small"""
    inc, strict, side, upd, icl, bcl, scl, ityp = plan
    shape = r.random()
    test_attr = r.choice(["outer", "inner"])

    def main_loop(var, attr):
        cmpl = ("lt" if strict else "le") if inc else ("gt" if strict else "ge")
        cmp = cmpl if side == "R" else {"lt": "gt", "le": "ge", "gt": "lt", "ge": "le"}[cmpl]
        init = gen_expr(r, icl, 1)
        bound = gen_expr(r, bcl, 1)
        if level(bound) <= BIN_LEVEL["<"]:
            bound = ("P", bound)
        step = gen_expr(r, scl, 1, positive=True) if upd in ("addeq", "subeq") else None
        return Loop(var, attr, ityp, init, cmp, side, bound, upd, step)

    def small_loop(var, attr):
        return gen_loop(r, var, attr, classes=["atom", "add", "paren"], small=True, ityp="int")

    if shape < 0.62:
        loops = [main_loop("o", "outer"), small_loop("i", "inner")] if test_attr == "outer" else \
                [small_loop("o", "outer"), main_loop("i", "inner")]
    elif shape < 0.72:
        loops = [main_loop("o", "outer"), main_loop("i", "inner")]
    elif shape < 0.80:
        loops = [small_loop("p", "outer"), main_loop("o", "outer"), small_loop("i", "inner")]
    elif shape < 0.86:
        loops = [small_loop("o", "outer"), main_loop("i", "inner"), small_loop("j", "inner")]
    elif shape < 0.90:
        loops = [small_loop("p", "outer"), small_loop("q", "outer"), main_loop("o", "outer"),
                 small_loop("i", "inner"), small_loop("j", "inner"), small_loop("k", "inner")]
    elif shape < 0.96:
        # explicit @outer(k)/@inner(k) indices in an order that differs from the nesting order (F71)
        if r.random() < 0.5:
            loops = [main_loop("p", "outer@0"), small_loop("o", "outer@1"), small_loop("i", "inner")]
        else:
            loops = [small_loop("o", "outer"), main_loop("i", "inner@0"), small_loop("j", "inner@1")]
    else:
        # a plain loop inside the @inner loop is kept by every backend
        loops = [small_loop("o", "outer"), main_loop("i", "inner"), small_loop("x", "none")]
    return loops


def plans(r, n):
    """cycle through comparison x side x update so that every combination occurs, classes at random
    but each class at least once per position when n allows"""
    combos = [(inc, strict, side, upd) for inc in (True, False) for strict in (True, False) for side in ("R", "L")
              for upd in ((["preinc", "postinc", "addeq"]) if inc else (["predec", "postdec", "subeq"]))]
    r.shuffle(combos)
    bound_classes = list(CLASSES)
    out = []
    for k in range(n):
        inc, strict, side, upd = combos[k % len(combos)]
        icl = CLASSES[(k * 7 + 3) % len(CLASSES)] if k % 2 else "atom"
        bcl = bound_classes[k % len(bound_classes)]
        scl = CLASSES[(k * 5 + 1) % len(CLASSES)] if k % 3 else "atom"
        ityp = "long" if k % 9 == 4 else "int"
        out.append((inc, strict, side, upd, icl, bcl, scl, ityp))
    r.shuffle(out)
    return out


def nonneg_for_long(loops):
    """F72 steering: value tuples for which a launched `long` iterator takes a negative value are left to the corpus"""
    def ok(env):
        for l in loops:
            if l.ityp == "long" and l.attr != "none":
                c = l.count(env)
                if c:
                    i = ev(l.init, env)
                    s = ev(l.step, env) if l.step is not None else 1
                    last = i + s * (c - 1) if l.increasing else i - s * (c - 1)
                    if min(i, last) < 0:
                        return False
        return True
    return ok


def V(N=0, M=0, a=0, b=0, c=0, s=1, t=1):
    return dict(N=N, M=M, a=a, b=b, c=c, s=s, t=t)


I_SIMPLE = "i;inner;int;c0;lt;R;c2;preinc;-;-"
CORPUS = [
    # F23: decrementing loop, bound `a + b` is the right operand of the count's subtraction
    ("K 9001 o;outer;int;vN;gt;R;+,va,vb;predec;-;- " + I_SIMPLE, [V(N=9, a=2, b=3), V(N=5, a=1, b=1), V(N=2, a=2, b=3)]),
    # F23: incrementing loop, `N | 1` is the left operand
    ("K 9002 o;outer;int;c1;lt;R;P,|,vN,c1;preinc;-;- " + I_SIMPLE, [V(N=8), V(N=5)]),
    ("K 9003 o;outer;int;c0;ge;L;<<,va,c1;postinc;-;- " + I_SIMPLE, [V(a=3), V(a=0)]),
    # F24: empty run-time range with a step: negative count
    ("K 9004 o;outer;int;c0;lt;R;vN;addeq;c3;- " + I_SIMPLE, [V(N=-5), V(N=-9), V(N=-1), V(N=0), V(N=7)]),
    ("K 9005 o;outer;int;c0;lt;R;c4;preinc;-;- i;inner;int;vN;gt;R;c3;subeq;vs;-", [V(N=-4, s=2), V(N=3, s=2), V(N=8, s=2)]),
    # F24 without a step
    ("K 9006 o;outer;int;c0;lt;R;vN;preinc;-;- " + I_SIMPLE, [V(N=-5), V(N=0), V(N=1)]),
    # F71: explicit indices against the nesting order
    ("K 9007 p;outer@0;int;c0;lt;R;vN;preinc;-;- o;outer@1;int;c0;lt;R;vM;preinc;-;- " + I_SIMPLE, [V(N=3, M=5), V(N=4, M=1)]),
    # F72: `long` iterator going negative on 32-bit-unsigned thread indices
    ("K 9008 o;outer;long;va;lt;R;c3;preinc;-;- " + I_SIMPLE, [V(a=-4), V(a=1)]),
    # F70 (fixed): comparison and update disagree; the header is rejected by every translator since the fix
    ("K 9009 o;outer;int;c0;gt;R;vN;preinc;-;- " + I_SIMPLE, [V(N=5)]),
    # non-multiples of the step, inclusive comparisons, operand on the left
    ("K 9010 o;outer;int;vN;ge;R;neg,va;subeq;+,vs,c1;- i;inner;int;va;ge;L;vb;addeq;vt;-",
     [V(N=7, a=3, b=11, s=2, t=4), V(N=7, a=3, b=3, s=1, t=4), V(N=-3, a=3, b=2, s=1, t=1)]),
]


def corpus_cases():
    out = []
    for op, vals in CORPUS:
        kid, loops = loops_from_op(op)
        out.append(Case(kid, loops, vals))
    return out


def main(argv):
    ck = Check("C17", argv)
    ck.rule = ("kernels = perfect nests of @outer/@inner loops (1-3 of each, optional explicit indices, optional kept plain loop); "
               "the header under test cycles through all 2x2x2x3 combinations of direction, strictness, operand order and update "
               "form, with init / bound / step expressions whose top-level operator is drawn from each of 15 C precedence classes; "
               "each kernel is translated by all seven translators and executed for ~10 run-time value tuples chosen (by "
               "evaluating the operands in python) to cover non-empty, empty, negative, boundary and non-multiple-of-step ranges; "
               "an evaluation = one (kernel, value tuple, backend) run; non-trivial = the sequential loop nest is non-empty; "
               "distinct by SHA-1 of header text + values")
    ck.assumptions = ["operand values stay far from int overflow", "steps are positive at run time (else the sequential loop does not terminate)",
                      "comparison and update direction agree (other headers are rejected by the translators since fix F70)"]
    ck.trusted += ["harness/emu_launch.hpp (device scheduler emulation: for each work-group, for each work-item; index types of the real backends)",
                   "g++ 12 as the reference semantics of the emitted C++ text and of the native sequential loop",
                   "the C expression grammar of OccaProofs/Lemmas/ExprGrammar.lean is unambiguous (not proved)"]
    ck.translate(["gen_loops"])
    ck.prove("C17")
    hb = ck.harness("h_loops")
    db = ck.driver("drv_loop")
    if ck.replay:
        cases = []
        for op, vals in parse_replay(ck.replay):
            kid, loops = loops_from_op(op)
            cases.append(Case(kid, loops, vals or pick_values(ck.rng, loops, 12)))
    else:
        n = 56 if ck.tier == "quick" else 420
        nv = 9 if ck.tier == "quick" else 14
        cases = corpus_cases()
        for k, plan in enumerate(plans(ck.rng, n)):
            loops = gen_case(ck.rng, k + 1, plan)
            vals = [v for v in pick_values(ck.rng, loops, nv + 6) if nonneg_for_long(loops)(v)][:nv]
            cases.append(Case(k + 1, loops, vals))
    run_cases(ck, hb, db, cases, "loops", batch=28 if ck.tier == "quick" else 80)
    ck.finish(META["level_text"])
