"""C11 — Dtype and kernel-metadata JSON serialisation round-trips."""
from vlib import *
from _dtype_common import *

META = {
    "technique": "Lean 4 theorems over a model of dtype_t, its JSON codec and the kernel argument metadata (structural induction over all dtype trees); builtin tables and the shape of the repaired code regenerated from the C++; differential run of the model against the real dtype_t/kernelMetadata_t through JSON text under ASan/UBSan with model-independent round-trip oracles",
    "category": "proof",
    "level_text": "Proof for all dtype trees (builtin, custom, enum, tuple, struct, union and nestings; any names, sizes, widths and depths) that fromJson(toJson d) succeeds and returns an equivalent dtype (kind, field names and order, element types, leaf names, byte size; C11_roundtrip, C11_roundtrip_equiv, C11_roundtrip_bytes), that the cast relation between any two dtypes is unchanged by the round trip on either or both sides (C11_cast_invariant, C11_cast_invariant_mixed) and that argument metadata lists round-trip (C11_meta_roundtrip); tied to the code by the regenerated builtin tables / code-shape obligations and by a seeded differential run of the real toJson -> text -> fromJson against the model with direct oracles on bytes(), name(), field lists and the full canBeCastedTo matrix.",
    "level_note": "Trusted: Lean kernel; translate/gen_dtype.py (regex extraction of builtins.cpp, getBuiltin, JSON keys, presence of the repairs F12-F15b); the hand-written model OccaModel/Dtype.lean of the repaired code (validated by the correspondence run, not proved equal to the C++); occa::json dump/parse of the generated texts (names from [a-z0-9_], property C24); LP64. Outside the model: dtypes given an explicit non-zero size and fields (bytes_ is then not the sum of the fields), int overflow of sizes, names of enum/struct/tuple/union nodes (toJson takes the name as an argument and drops name_ by design, pinned by tests/src/dtype.cpp).",
    "design_ref": "DESIGN.md section 4, C10/C11",
}


def gen_history(r, keys, big=False):
    g = TreeGen(r, keys)
    g.grow(r.randint(3, 14 if not big else 30))
    if g.n() and r.random() < 0.5:
        near_rep_ops(r, g)
    ops = list(g.ops)
    n = g.n()
    if n == 0:
        return ops + ["M"]
    # serialise / round-trip: most slots, some with a name argument
    order = list(range(n))
    r.shuffle(order)
    for s in order[: max(1, int(n * r.choice([0.5, 1.0])))]:
        nm = "" if r.random() < 0.7 else r.choice(NAMES)
        if r.random() < 0.3:
            ops.append("J %d %s" % (s, hx(nm)))
        ops.append("R %d %s" % (s, hx(nm)))
    # JSON that fromJson may accept or must reject
    for _ in range(r.choice([0, 1, 2, 4])):
        j = rjson(r, keys, r.randint(1, 4))
        for _ in range(r.choice([0, 1, 1, 2])):
            j = mutate(r, j)
        ops.append("F " + jtok(j))
    ops.append("M")
    # kernel metadata built over the same slots
    if r.random() < 0.7:
        mo, sig = meta_ops(r, g)
        ops += mo
        ops.append("KJ" if r.random() < 0.5 else "KD")
        ops.append("KR")
        for _ in range(r.randint(1, 4)):
            ops.append(("V %d %s" % (r.random() < 0.9, " ".join(arg_list(r, g, sig)))).rstrip())
    return ops


CORPUS = [
    # F14: bytes of tuple / struct / enum / union after the round trip (16 -> 0 on the unrepaired tree)
    ["B float4", "R 0 -", "B int", "T 2 4", "R 3 -", "S 666f6f 2 61 2 1 62 2 1", "R 5 666f6f",
     "E 63 4 2 72 67", "R 7 -", "U - 2 61 2 1 62 0 1", "R 9 -", "M"],
    # F14b: tuple / addField of a *reference* to a registered dtype (getBuiltin copy) counted 0 bytes
    ["B float", "T 0 3", "S 67 1 78 0 1", "S 67 1 78 0 2", "R 1 -", "R 2 -"],
    # F15: custom / enum leaves are new objects after the round trip; copies of unregistered customs
    ["C 6d7963 12 0", "C 6d7963 12 1", "Y 0", "Y 1", "R 0 -", "R 1 -", "S 73 2 61 0 1 62 0 1", "T 0 2", "R 6 -", "R 7 -",
     "E - 0 2 72 67", "R 10 -", "C 6d7963 8 0", "M"],
    # F15b: a custom type named like a builtin (fake float / byte / none / int8)
    ["C 666c6f6174 3 0", "B float", "R 0 -", "C 62797465 1 0", "R 3 -", "C 6e6f6e65 0 0", "B none", "R 5 -", "R 6 -",
     "C 696e7438 1 0", "R 9 -", "M"],
    # F13: empty flattening against a non-empty one (empty struct from JSON, tuple of size 0 / -1)
    ["F {74797065:s737472756374,6669656c6473:[]}", "B int", "T 1 0", "T 1 -1", "X 0 1", "X 1 0", "X 2 1", "X 1 3", "X 0 2", "M"],
    # names: the argument of toJson is what is read back; nested names are dropped
    ["B double", "S 666f6f 1 61 0 1", "S 626172 1 73 1 1", "J 2 -", "J 2 626172", "R 2 626172", "R 2 -", "M"],
    # aliases and vectors are serialised by what they point to
    ["B int8", "B uint64", "B uchar2", "B char2", "J 0 -", "J 2 -", "R 0 -", "R 1 -", "R 2 -", "R 3 -", "M"],
    # rejected JSON
    ["F {74797065:s6275696c74696e,6e616d65:s6e6f7065}", "F {74797065:s6275696c74696e,6e616d65:s6e6f6e65}", "F {}", "F [i1]",
     "F {74797065:s7475706c65,6474797065:{74797065:s6275696c74696e,6e616d65:s696e74},73697a65:s78}",
     "F {74797065:s7475706c65,6474797065:{74797065:s6275696c74696e,6e616d65:s696e74},73697a65:b1}",
     "F {74797065:s737472756374,6669656c6473:[{6e616d65:s61,6474797065:{74797065:s6275696c74696e,6e616d65:s696e74}},{6e616d65:s61,6474797065:{74797065:s6275696c74696e,6e616d65:s696e74}}]}",
     "F {74797065:s656e756d,656e756d657261746f7273:[{6e616d65:s72},{6e616d65:s72}]}", "M"],
    # metadata: zero arguments, initialized by hand or not (F12), struct / custom / empty dtypes
    ["KN 6b", "KD", "KR", "V 1", "V 1 s", "KI 1", "KR", "V 1", "V 1 s", "V 0 s"],
    ["B float", "C 6d7963 12 1", "S 73 2 61 0 1 62 1 1", "KN 6b", "KA 1 1 2 78", "KA 0 0 0 6e", "KJ", "KR",
     "V 1 m2 s", "V 1 m0 s", "V 1 m1 s", "V 1 z d", "V 1 u h", "V 1 s s", "V 1 m2", "V 1 m2 s s", "V 0 s s s"],
]


def nontrivial(h, impl):
    return any(o not in ("bad-op", "err", "MISSING", "ok") for o in impl)


def main(argv):
    ck = Check("C11", argv)
    ck.rule = ("histories that build random dtype trees bottom-up in a slot vector (depth <= 4, width <= 4; builtins incl. aliases "
               "and vectors, unknown keys, registered/unregistered custom leaves, enums, tuples of size -1..7, structs, unions, copies; "
               "names from a small alphabet incl. the empty name; duplicate fields/enumerators and non-positive tuple sizes as error "
               "cases), then toJson -> JSON text -> fromJson of the slots with and without a name argument, fromJson of valid and "
               "mutated JSON values (dropped keys, wrong value kinds, unknown tags, duplicate entries), the full canBeCastedTo matrix over "
               "originals and round-tripped values, and kernel metadata over the slots (toJson -> text -> fromJson, validation on both). "
               "A history is non-trivial if the implementation produced an observation other than ok/err; distinct by SHA-1 of the op text")
    ck.assumptions = ["LP64", "names are [a-z0-9_]* (JSON text escaping is property C24)",
                      "sizes far below 2^31; struct/tuple/union sizes are the sums/products addField() and tuple() maintain"]
    ck.translate(["gen_dtype"])
    ck.prove("C11")
    hb = ck.harness("h_dtype")
    db = ck.driver("drv_dtype")
    keys = builtin_keys()
    if ck.replay:
        hs = [read_replay(ck.replay)]
    else:
        n = 350 if ck.tier == "quick" else 4000
        hs = CORPUS + [gen_history(ck.rng, keys, big=(i % 10 == 0)) for i in range(n)]
    ck.correspond(hb, db, hs, label="dtype", nontrivial=nontrivial,
                  ubsan_is_violation=r"dtype/|dtype\.(cpp|hpp)|kernelMetadata|core/kernel\.cpp")
    # coverage of the generator, measured on what was sent
    c = ck.cov["counters"]
    for tag in ("B", "C", "E", "T", "S", "U", "Y", "J", "R", "F", "X", "M", "KA", "KR", "V"):
        c["op_" + tag] = sum(1 for h in hs for l in h if l.split(" ", 1)[0] == tag)
    ck.finish(META["level_text"])
