"""Shared pieces of the C06 / C07 checks (kernel cache keys, dependency invalidation):
token encoding of configurations for harness/h_cachekey.cpp and lean/Driver/Cache.lean, an
independent python implementation of occa::hash (only used to map the model's predicted
closure back to file texts), an independent include expander (the oracle for kernel outputs),
process runners."""
import os, re, shutil, subprocess, sys
from vlib import *


# ----------------------------------------------------------------------------- tokens
def hx(s):
    b = s.encode() if isinstance(s, str) else bytes(s)
    return b.hex() if b else "-"


def S(s):
    return "S:" + hx(s)


def Lit(s):
    return "L:" + hx(s)


def val_tokens(v):
    """python value -> tokens:  str -> S, bool/int -> L, None -> N, list -> A, dict -> O (keys sorted)"""
    if v is None:
        return ["N"]
    if v is True:
        return [Lit("true")]
    if v is False:
        return [Lit("false")]
    if isinstance(v, int):
        return [Lit(str(v))]
    if isinstance(v, str):
        return [S(v)]
    if isinstance(v, (list, tuple)):
        out = ["A", str(len(v))]
        for x in v:
            out += val_tokens(x)
        return out
    if isinstance(v, dict):
        out = ["O", str(len(v))]
        for k in sorted(v):
            out += [hx(k)] + val_tokens(v[k])
        return out
    raise ValueError(v)


def cfg_tokens(src, props):
    """props: dict name -> python value (names in sorted order so equal configs give equal lines)"""
    out = [hx(src)]
    for n in sorted(props):
        out += [n] + val_tokens(props[n])
    return " ".join(out)


# ----------------------------------------------------------------------------- occa::hash in python
_consts = None


def _hash_consts():
    global _consts
    if _consts is None:
        src = open(os.path.join(REPO, "src/utils/hash.cpp")).read()
        m = re.search(r"hash_t::hash_t\(\)\s*\{(.*?)\n  \}", src, re.S)
        init = {int(a): int(b) for a, b in re.findall(r"h\[(\d)\]\s*=\s*(\d+)\s*;", m.group(1))}
        pr = [int(x) for x in re.findall(r"\d+", re.search(r"p\[8\]\s*=\s*\{([^}]*)\}", src).group(1))]
        _consts = ([init[i] for i in range(8)], pr)
    return _consts


def occa_hash_full(data):
    """getFullString() of occa::hash(data) (data: bytes without NUL)"""
    init, pr = _hash_consts()
    h = list(init)
    for c in data:
        cu = c if c < 128 else (c | 0xFFFFFF00)
        for j in range(8):
            h[j] = ((h[j] * pr[j]) & 0xFFFFFFFF) ^ cu
    return "".join(int(x).to_bytes(4, "little").hex() for x in h)


# ----------------------------------------------------------------------------- include expansion (oracle)
INC_RE = re.compile(r'^#include (?:"([^"]*)"|<([^">]*)>)', re.M)   # quoted, or angle-bracket form (C07 corpus)
DEF_RE = re.compile(r"^#define (V\d+) (\d+)\s*$")


def expand_defs(text, files, defs, depth=0):
    """Sequentially process `#include "abs path"` and `#define Vk n` lines; later definitions win.
    Returns False if an included file does not exist (or nesting runs away)."""
    if depth > 50:
        return False
    skip = False
    for line in text.split("\n"):
        if line.startswith("#ifndef "):
            skip = line.split()[1] in defs
            continue
        if line.startswith("#endif"):
            skip = False
            continue
        if skip:
            continue
        m = INC_RE.match(line)
        if m:
            p = m.group(1) if m.group(1) is not None else m.group(2)
            if p not in files:
                return False
            if not expand_defs(files[p], files, defs, depth + 1):
                return False
            continue
        m = DEF_RE.match(line)
        if m:
            defs[m.group(1)] = int(m.group(2))
    return True


def includes_of(text):
    return [a or b for a, b in INC_RE.findall(text)]


def reaches(files, start, target, seen=None):
    """does the file `start` (transitively) include `target`?"""
    seen = seen or set()
    if start in seen or start not in files:
        return False
    seen.add(start)
    for p in includes_of(files[start]):
        if p == target or reaches(files, p, target, seen):
            return True
    return False


# ----------------------------------------------------------------------------- processes
def run_harness(ck, hb, ops, cache_dir, work_dir, timeout=120, extra_env=None):
    """one harness PROCESS over the given op lines (one history header `# 0` is prepended).
    Returns (rc, observation lines, oracle lines, stderr tail)."""
    env = {"OCCA_CACHE_DIR": cache_dir, "H_WORK": work_dir,
           "ASAN_OPTIONS": "detect_leaks=0:abort_on_error=0:exitcode=66:allocator_may_return_null=1"}
    if extra_env:
        env.update(extra_env)
    for attempt in range(15):
        rc, so, se = sh([hb], input="# 0\n" + "\n".join(ops) + "\n", timeout=timeout, env=ck.run_env(env))
        # the shared build of /repo may be relinked by a concurrently running check: the loader then
        # refuses the half-written library; that is not an observation of the code under test
        if rc == 127 and "error while loading shared libraries" in se:
            time.sleep(20)
            continue
        break
    obs, ora = [], []
    for l in so.splitlines():
        if l.startswith("# "):
            continue
        if l.startswith("!ORACLE "):
            ora.append(l[8:])
        else:
            obs.append(l)
    return rc, obs, ora, se[-600:]


def device_lanes(ck, hb, scratch):
    """device::hash() lanes of the Serial and OpenMP devices, asked from two processes"""
    os.makedirs(scratch, exist_ok=True)
    res = []
    for _ in range(2):
        rc, obs, ora, se = run_harness(ck, hb, ["dev serial", "dev openmp"], os.path.join(scratch, "cache0"), scratch)
        if rc != 0 or len(obs) != 2:
            ck.problems.append(("tie", "harness cannot create the devices: rc=%s %s" % (rc, se[-300:])))
            return None
        res.append(obs)
    if res[0] != res[1]:
        ck.oracle_violation("device::hash() differs between two processes", "dev serial\ndev openmp")
    return {"serial": res[0][0], "openmp": res[0][1]}


def run_model_lines(ck, db, ops, timeout=300):
    rc, so, se = sh([db], input="# 0\n" + "\n".join(ops) + "\n", timeout=timeout)
    if rc != 0:
        ck.problems.append(("tie", "model driver failed rc=%d: %s" % (rc, se[-300:])))
    return [l for l in so.splitlines() if not l.startswith("# ")]


def fresh_dir(name):
    d = os.path.join(BUILD, "tmp", name)
    shutil.rmtree(d, ignore_errors=True)
    os.makedirs(d)
    return d
