"""Generator of OKL kernels shared by the C20 / C21 / C22 plugins.

A kernel is a python tree (classes below).  Every kernel can be rendered as
  * OKL source                         (`src`)
  * the KernelIR of lean/OccaModel/Okl.lean, as the `_`-joined token string of the line
    protocol                           (`ir`)
  * its sequential reading in plain C  (`ref`)   -- attributes removed, @exclusive variables as
    arrays indexed by the inner iteration, used as the oracle of the execution checks.

All randomness comes from the `random.Random` passed in (the plugin's ck.rng).

Kernels of the execution checks are *independent by construction*: every (outer, inner) iteration
writes only its own cells of `out`, its own @exclusive variables and its own cell of a @shared
array; other cells of a @shared array are only read in a later @inner section (so that an
implicit barrier separates the write from the read); cross-iteration accumulation goes through
@atomic additions.  Loop headers stay simple (unit or constant steps, atomic bounds): the
iteration-count arithmetic is property C17/C18's business (F23, F25).
"""
import re

# --------------------------------------------------------------------------- headers


class Hdr:
    """an @outer/@inner loop header that is valid: `var` runs over `count` values."""

    def __init__(self, var, typ, init, bound, cmp, upd, step=1, bound_is_const=True, iter_right=False):
        self.var, self.typ, self.init, self.bound, self.cmp, self.upd, self.step = var, typ, init, bound, cmp, upd, step
        self.bound_is_const, self.iter_right = bound_is_const, iter_right

    # text of the three header statements
    def parts(self):
        v = self.var
        init = "%s %s = %s" % (self.typ, v, self.init)
        if self.iter_right:
            flip = {"<": ">", "<=": ">=", ">": "<", ">=": "<="}[self.cmp]
            check = "%s %s %s" % (self.bound, flip, v)
        else:
            check = "%s %s %s" % (v, self.cmp, self.bound)
        upd = {"++v": "++" + v, "v++": v + "++", "--v": "--" + v, "v--": v + "--",
               "+=": "%s += %d" % (v, self.step), "-=": "%s -= %d" % (v, self.step)}[self.upd]
        return init, check, upd

    def positive(self):
        return self.upd in ("++v", "v++", "+=")

    def ir(self):
        # the IR records the operator as written in the source
        if self.iter_right:
            op = {"<": "gt", "<=": "ge", ">": "lt", ">=": "le"}[self.cmp]
        else:
            op = {"<": "lt", "<=": "le", ">": "gt", ">=": "ge"}[self.cmp]
        uk = {"++v": "inc", "v++": "inc", "--v": "dec", "v--": "dec", "+=": "add", "-=": "sub"}[self.upd]
        uv = str(self.step) if self.upd in ("+=", "-=") else "-"
        cv = str(self.bound) if self.bound_is_const else "?"
        return "k,%s,k,%s,%s,k,%s,%s,%s" % (self.init, op, cv, uk, uv, "r" if self.iter_right else "l")

    def iter_no(self):
        """C expression: the iteration number (0-based) of the current value of var"""
        if self.positive():
            e = "(%s - (%s))" % (self.var, self.init)
        else:
            e = "((%s) - %s)" % (self.init, self.var)
        return e if self.step == 1 else "(%s / %d)" % (e, self.step)


def make_hdr(r, var, count, runtime_bound=None, simple=False):
    """a valid header running `count` (> 0) times; if runtime_bound is given the bound is that
    expression (an argument name) and the header is the plain `v = 0; v < bound; ++v`"""
    if runtime_bound is not None:
        return Hdr(var, "int", 0, runtime_bound, "<", r.choice(["++v", "v++"]), bound_is_const=False)
    k = 0 if simple else r.randrange(9)
    typ = "int" if simple else r.choice(["int", "int", "int", "long", "short", "char", "size_t", "ptrdiff_t"])
    lo = 0 if simple else r.choice([0, 0, 1, 2])
    if typ == "size_t" and k in (3, 4, 5):
        k = 0
    if k <= 2:
        return Hdr(var, typ, lo, lo + count, "<", r.choice(["++v", "v++"]), iter_right=(k == 2))
    if k == 3:
        return Hdr(var, typ, lo + count - 1, lo, ">=", r.choice(["--v", "v--"]))
    if k == 4:
        return Hdr(var, typ, lo + count, lo, ">", "--v")
    if k == 5:
        return Hdr(var, typ, lo + count - 1, lo, ">=", "-=", step=1)
    if k == 6:
        return Hdr(var, typ, lo, lo + count - 1, "<=", "++v")
    if k == 7:
        s = r.choice([2, 3])
        return Hdr(var, typ, lo, lo + count * s, "<", "+=", step=s)
    return Hdr(var, typ, lo, lo + count, "<", "+=", step=1)


# --------------------------------------------------------------------------- tree


class Node:
    kids = ()

    def walk(self, path=()):
        yield self, path
        for c in self.children():
            for x in c.walk(path + (self,)):
                yield x

    def children(self):
        return list(self.kids)


def uses_str(u):
    return "".join(u)


class Okl(Node):
    """@outer / @inner loop.  `attr` in {"outer","inner","both"}; header either a Hdr or raw text +
    explicit IR code (invalid headers of the rule mutations)."""

    def __init__(self, attr, hdr, kids, raw=None, raw_ir=None, extra="", nobarrier=False, uses=""):
        self.attr, self.hdr, self.kids, self.raw, self.raw_ir, self.extra, self.nobarrier, self.uses = \
            attr, hdr, list(kids), raw, raw_ir, extra, nobarrier, uses

    def attrs(self):
        a = {"outer": "@outer", "inner": "@inner", "both": "@outer @inner"}[self.attr]
        if self.nobarrier:
            a += " @nobarrier"
        return a

    def head(self, okl=True):
        if self.raw is not None:
            h = self.raw
        else:
            h = "; ".join(self.hdr.parts())
        return "%sfor (%s%s) {" % (self.extra if okl else "", h, ("; " + self.attrs()) if okl else "")

    def tok(self):
        t = {"outer": "O", "inner": "I", "both": "OI"}[self.attr]
        return "%s:%s:%s%s" % (t, self.raw_ir if self.raw is not None else self.hdr.ir(), self.uses,
                               ":nb" if self.nobarrier else "")


class Seq(Node):
    """sequential compound statement: kind in for/while/dowhile/switch/block/atomicblock"""

    def __init__(self, kind, head, kids, uses="", tail="}"):
        self.kind, self.headtxt, self.kids, self.uses, self.tail = kind, head, list(kids), uses, tail

    def tok(self):
        return {"for": "F:" + self.uses, "while": "W:" + self.uses, "dowhile": "W:" + self.uses,
                "switch": "S:" + self.uses, "block": "B", "atomicblock": "Bg"}[self.kind]


class If(Node):
    def __init__(self, cond, then, elifs=(), els=None, uses=""):
        self.cond, self.then, self.elifs, self.els, self.uses = cond, list(then), [(c, list(b), u) for c, b, u in elifs], \
            (list(els) if els is not None else None), uses

    def children(self):
        out = list(self.then)
        for _, b, _ in self.elifs:
            out += b
        if self.els:
            out += self.els
        return out


class Decl(Node):
    """kind plain/shared/exclusive; text is the declaration without attribute"""

    def __init__(self, kind, text, name=None, dims="-", uses="", n_excl=None):
        self.kind, self.text, self.name, self.dims, self.uses = kind, text, name, dims, uses

    def tok(self):
        if self.kind == "shared":
            return "Ds:%s:%s" % (self.dims, self.uses)
        return ("Dx:" if self.kind == "exclusive" else "Dp:") + self.uses


class Stmt(Node):
    """expression statement.  `text` may contain {x:NAME} placeholders for @exclusive accesses.
    atomic: '' | 'a' (basic op, @atomic) | 'g' (general, @atomic) ; basic: operator is += -= ++ --"""

    def __init__(self, text, uses="", atomic="", basic=False):
        self.text, self.uses, self.atomic, self.basic = text, uses, atomic, basic

    def tok(self):
        if self.atomic:
            return ("Xa:" if self.basic else "Xg:") + self.uses
        return ("Xb:" if self.basic else "X:") + self.uses


class Leaf(Node):
    """barrier / break / continue / return / raw text that contributes no IR (case labels)"""

    def __init__(self, kind, text=None):
        self.kind, self.text = kind, text

    def tok(self):
        return {"barrier": "R", "break": "b", "continue": "c", "return": "r", "label": None}[self.kind]


class Kernel:
    def __init__(self, name, args, body, ret="void", pre="", excl_dims=None):
        self.name, self.args, self.body, self.ret, self.pre = name, args, list(body), ret, pre
        self.meta = {}

    # ----------------------------------------------------------------- rendering
    def src(self):
        out = [self.pre] if self.pre else []
        out.append("@kernel %s %s(%s) {" % (self.ret, self.name, ", ".join(self.args)))
        for n in self.body:
            render(n, out, 1, "okl", None)
        out.append("}")
        return "\n".join(out) + "\n"

    def ref(self, fname=None):
        """the sequential reading as a plain C++ function"""
        out = [strip_attrs(self.pre).replace("hp_", "refhp_")] if self.pre else []
        args = [strip_attrs(a) for a in self.args]
        out.append("static void %s(%s) {" % (fname or (self.name + "_ref"), ", ".join(args)))
        body = []
        for n in self.body:
            render(n, body, 1, "ref", RefCtx())
        out += [l.replace("hp_", "refhp_") for l in body]
        out.append("}")
        return "\n".join(out) + "\n"

    def ir(self):
        toks = ["K:v" if self.ret == "void" else "K:n", "("]
        for n in self.body:
            ir_tokens(n, toks)
        toks.append(")")
        return "_".join(toks)

    def walk(self):
        for n in self.body:
            for x in n.walk():
                yield x


def strip_attrs(t):
    t = re.sub(r"@dim\([^)]*\)", "", t)
    t = re.sub(r"@(restrict|shared|exclusive|atomic|barrier|nobarrier)\b", "", t)
    return t.replace("  ", " ")


class RefCtx:
    """for the reference rendering: the stack of enclosing @inner loops (their headers and counts)"""

    def __init__(self):
        self.inner = []      # list of (Hdr, count)
        self.excl = {}       # name -> total inner size


def ind(n):
    return "  " * n


def lid_expr(inner):
    """linear index of the current inner iteration: first (outer-most) loop is the slowest"""
    e = None
    for h, c in inner:
        e = h.iter_no() if e is None else "(%s * %d + %s)" % (e, c, h.iter_no())
    return e or "0"


def fill(text, mode, ctx):
    def dim(m):
        if mode == "okl":
            return "%s(%s, %s)" % (m.group(1), m.group(2), m.group(3))
        return "%s[(%s) + 4 * (%s)]" % (m.group(1), m.group(2), m.group(3))
    text = re.sub(r"\{d:(\w+)\|([^|}]*)\|([^|}]*)\}", dim, text)

    def rep(m):
        name = m.group(1)
        if mode == "okl":
            return name
        return "%s[%s]" % (name, lid_expr(ctx.inner))
    return re.sub(r"\{x:(\w+)\}", rep, text)


def render(n, out, d, mode, ctx):
    if isinstance(n, Okl):
        if mode == "okl":
            out.append(ind(d) + n.head(True))
        else:
            out.append(ind(d) + n.head(False))
            if n.attr == "inner":
                ctx.inner.append((n.hdr, n.count))
        for c in n.kids:
            render(c, out, d + 1, mode, ctx)
        if mode == "ref" and n.attr == "inner":
            ctx.inner.pop()
        out.append(ind(d) + "}")
    elif isinstance(n, Seq):
        head = n.headtxt
        if mode == "ref":
            head = strip_attrs(head)
        out.append(ind(d) + fill(head, mode, ctx))
        for c in n.kids:
            render(c, out, d + 1, mode, ctx)
        out.append(ind(d) + n.tail)
    elif isinstance(n, If):
        out.append(ind(d) + "if (%s) {" % fill(n.cond, mode, ctx))
        for c in n.then:
            render(c, out, d + 1, mode, ctx)
        for cnd, b, _ in n.elifs:
            out.append(ind(d) + "} else if (%s) {" % fill(cnd, mode, ctx))
            for c in b:
                render(c, out, d + 1, mode, ctx)
        if n.els is not None:
            out.append(ind(d) + "} else {")
            for c in n.els:
                render(c, out, d + 1, mode, ctx)
        out.append(ind(d) + "}")
    elif isinstance(n, Decl):
        if mode == "okl":
            a = {"plain": "", "shared": "@shared ", "exclusive": "@exclusive "}[n.kind]
            out.append(ind(d) + a + fill(n.text, mode, ctx) + ";")
        else:
            if n.kind == "exclusive":
                out.append(ind(d) + "%s[%d];" % (n.text, n.total))
            else:
                out.append(ind(d) + fill(n.text, mode, ctx) + ";")
    elif isinstance(n, Stmt):
        a = ""
        if mode == "okl" and n.atomic:
            a = "@atomic "
        out.append(ind(d) + a + fill(n.text, mode, ctx) + ";")
    elif isinstance(n, Leaf):
        if n.kind == "barrier":
            if mode == "okl":
                out.append(ind(d) + "@barrier;")
        elif n.kind == "label":
            out.append(ind(d) + n.text)
        else:
            out.append(ind(d) + n.kind + ";")
    else:
        raise TypeError(n)


def ir_tokens(n, toks):
    if isinstance(n, (Okl, Seq)):
        toks += [n.tok(), "("]
        for c in n.kids:
            ir_tokens(c, toks)
        toks.append(")")
    elif isinstance(n, If):
        toks += ["C:" + n.uses, "("]
        for c in n.then:
            ir_tokens(c, toks)
        toks.append(")")
        for _, b, u in n.elifs:
            toks += ["E:" + u, "("]
            for c in b:
                ir_tokens(c, toks)
            toks.append(")")
        if n.els is not None:
            toks += ["L", "("]
            for c in n.els:
                ir_tokens(c, toks)
            toks.append(")")
    else:
        t = n.tok()
        if t:
            toks.append(t)


# --------------------------------------------------------------------------- kernel generator


class Plan:
    """shape decisions of one outer-most @outer group"""
    pass


def gen_kernel(r, name="k", rich=True, exec_safe=True, feats=None, general_atomic=False):
    """A rule-conforming kernel.  `rich`: use the whole feature menu; `exec_safe`: keep the kernel
    executable and independent (needed by the execution checks; the rule checks may relax it).
    Returns a Kernel with .meta: groups (outer/inner counts), sizes of in/out/acc, features used."""
    allf, feats = feats, set()
    use_dim = rich and r.random() < 0.2
    use_restrict = rich and r.random() < 0.3
    args = ["const int N", "const int M",
            "%sconst int *in" % ("@restrict " if use_restrict else ""),
            "int *out", "int *acc"]
    if use_dim:
        args.append("const int *tab @dim(4, 4)")
        feats.add("dim")
    if use_restrict:
        feats.add("restrict")
    pre = ""
    if rich and r.random() < 0.4:
        pre = "int hp_%s(const int a, const int b) {\n  return 3 * a + b;\n}\n" % name
        feats.add("helper")
    K = Kernel(name, args, [], pre=pre)
    K.meta = {"feats": feats, "groups": [], "N": None, "M": None, "general_atomic": general_atomic}
    body = K.body
    n_groups = r.choice([1, 1, 1, 2, 2, 3]) if rich else 1
    base = 0
    if rich and r.random() < 0.3:
        # host-side code before the @outer loops stays in the launcher; it must not be used inside them (finding F68)
        body.append(Decl("plain", "const int twoN = 2 * N"))
    for g in range(n_groups):
        grp, nodes, cells = gen_group(r, K, g, base, rich, exec_safe)
        K.meta["groups"].append(grp)
        base += cells
        wrap = r.random() if rich else 1.0
        if wrap < 0.12:
            body.append(If("N > 0", nodes))
            feats.add("host-if")
        elif wrap < 0.2:
            body.append(Seq("block", "{", nodes))
        else:
            body += nodes
    K.meta["out_cells"] = base
    if allf is not None:
        allf |= feats
    return K


INNER_SHAPES = [[4], [8], [3], [2, 4], [4, 2], [2, 3], [5], [2, 2, 2], [1], [16], [3, 3]]


def gen_group(r, K, g, base, rich, exec_safe):
    """one outer-most @outer loop nest.  Returns (meta, [nodes], number of out cells used)."""
    feats = K.meta["feats"]
    odims_n = r.choice([1, 1, 1, 2, 2, 3]) if rich else 1
    runtime_outer = r.random() < 0.7
    ocounts = []
    ohdrs = []
    for d in range(odims_n):
        v = "o%d_%d" % (g, d)
        if d == 0 and runtime_outer:
            ohdrs.append(make_hdr(r, v, None, runtime_bound="N"))
            ocounts.append("N")
        else:
            c = r.choice([1, 2, 3])
            ohdrs.append(make_hdr(r, v, c, simple=not rich))
            ocounts.append(c)
    idims = list(r.choice(INNER_SHAPES)) if rich else [r.choice([2, 4])]
    runtime_inner = rich and len(idims) == 1 and idims[0] >= 2 and r.random() < 0.15 and K.meta.get("M") in (None, idims[0])
    if runtime_inner:
        K.meta["M"] = idims[0]
    T = 1
    for c in idims:
        T *= c
    grp = {"ocounts": ocounts, "idims": idims, "T": T, "base": base, "runtime_inner": runtime_inner}
    # cells per (outer,inner) iteration
    slots = r.choice([1, 2])
    grp["slots"] = slots
    olin = None
    for h, c in zip(ohdrs, ocounts):
        olin = h.iter_no() if olin is None else "(%s * %s + %s)" % (olin, c, h.iter_no())
    grp["olin"] = olin
    ctx = {"g": g, "grp": grp, "K": K, "r": r, "rich": rich, "sec": 0, "shared": [], "excl": [], "T": T,
           "idims": idims, "base": base, "slots": slots, "olin": olin, "feats": feats, "exec_safe": exec_safe,
           "max_inner_dims": False, "allow_general_atomic": K.meta.get("general_atomic")}
    # between @outer and @inner: declarations
    inner_stmts = []
    if rich and r.random() < 0.6:
        nm = "s%d" % g
        two_d = len(idims) >= 2 and r.random() < 0.5
        if two_d:
            t2 = T // idims[0]
            inner_stmts.append(Decl("shared", "int %s[%d][%d]" % (nm, idims[0], t2), nm, "%d,%d" % (idims[0], t2)))
            ctx["shared"].append({"name": nm, "two": (idims[0], t2), "state": "empty"})
        else:
            pad = r.choice([0, 0, 1, 3])
            inner_stmts.append(Decl("shared", "int %s[%d]" % (nm, T + pad), nm, "%d" % (T + pad)))
            ctx["shared"].append({"name": nm, "two": None, "state": "empty"})
        feats.add("shared")
    if rich and r.random() < 0.6:
        for q in range(r.choice([1, 1, 2])):
            nm = "x%d_%d" % (g, q)
            d = Decl("exclusive", "int %s" % nm, nm)
            d.total = T
            inner_stmts.append(d)
            ctx["excl"].append({"name": nm, "set": False})
        feats.add("exclusive")
    if rich and r.random() < 0.4:
        inner_stmts.append(Decl("plain", "const int ob%d = %s * %d" % (g, olin, 7)))
        ctx["ob"] = "ob%d" % g
    # inner sections
    n_sec = r.choice([1, 1, 2, 2, 3, 4]) if rich else 1
    sections = []
    alts = []
    wraps = []
    pair_of = {}          # section index -> rep variable of a sequential loop around this and the next section
    s = 0
    while s < n_sec:
        if rich and s + 1 < n_sec and r.random() < 0.15:
            pair_of[s] = pair_of[s + 1] = "rq%d_%d" % (g, s)
            s += 2
        else:
            s += 1
    for s in range(n_sec):
        ctx["sec"] = s
        w = r.random() if rich else 1.0
        if s in pair_of:
            w = 0.99
        wraps.append(w)
        # a section repeated by a sequential loop may depend on the loop variable, so that a missing
        # barrier between two rounds changes the result
        ctx["rep"] = pair_of.get(s) or (("rp%d_%d" % (g, s)) if 0.2 <= w < 0.3 else None)
        dec = decide(r, ctx)
        alts.append(gen_section(r, ctx, dec, alt=True) if rich else None)   # same role, other details
        sections.append(gen_section(r, ctx, dec))
        commit(ctx, dec)
    ctx["rep"] = None
    # arrange: some sections wrapped in uniform control flow (conditions are the same for every
    # thread; the execution checks call with N >= 1, M >= 2)
    i = 0
    while i < len(sections):
        sec = sections[i]
        w = wraps[i]
        if i in pair_of and i + 1 < len(sections) and pair_of.get(i + 1) == pair_of[i]:
            rep = pair_of[i]
            inner_stmts.append(Seq("for", "for (int %s = 0; %s < 2; ++%s) {" % (rep, rep, rep), [sec, sections[i + 1]]))
            feats.add("two-sections-in-for")
            i += 2
            continue
        if w < 0.12:
            inner_stmts.append(If("N > 0", [sec]))
            feats.add("inner-in-if")
        elif w < 0.2:
            if r.random() < 0.5:
                inner_stmts.append(If("M > 1", [sec], els=[alts[i]]))
            else:
                inner_stmts.append(If("M < 1", [alts[i]], elifs=[("M > 1", [sec], "")]))
            feats.add("inner-in-ifelse")
        elif w < 0.3:
            rep = "rp%d_%d" % (g, i)
            inner_stmts.append(Seq("for", "for (int %s = 0; %s < 2; ++%s) {" % (rep, rep, rep), [sec]))
            feats.add("inner-in-for")
        elif w < 0.36:
            inner_stmts.append(Seq("block", "{", [sec]))
        else:
            inner_stmts.append(sec)
        if rich and r.random() < 0.1 and i + 1 < len(sections):
            inner_stmts.append(Leaf("barrier"))
            feats.add("barrier")
        i += 1
    # nest the outer loops
    node_kids = inner_stmts
    extra = ""
    for d in range(odims_n - 1, -1, -1):
        ex = ""
        if d == 0 and rich:
            k = r.random()
            if k < 0.15 and not grp["runtime_inner"]:
                ex = "@max_inner_dims(%s) " % ", ".join(str(c) for c in reversed(idims))
                feats.add("max_inner_dims")
            elif k < 0.25:
                ex = "@simd_length(%d) " % r.choice([8, 16])
                feats.add("simd_length")
        lp = Okl("outer", ohdrs[d], node_kids, extra=ex)
        lp.count = ocounts[d]
        node_kids = [lp]
    cells = None  # computed by the caller from N: base is symbolic in N, so use a fixed maximum
    ocells = 1
    for c in ocounts:
        ocells *= (MAXN if c == "N" else c)
    return grp, node_kids, ocells * T * slots


MAXN = 6     # the execution checks call the kernels with 1 <= N <= MAXN


def gid_expr(ctx, inner):
    return "(%s * %d + %s)" % (ctx["olin"], ctx["T"], lid_expr(inner))


def cell(ctx, inner, slot=0):
    return "out[%d + %s * %d + %d]" % (ctx["base"], gid_expr(ctx, inner), ctx["slots"], slot)


def in_idx(r, ctx, inner):
    k = r.randrange(4)
    if k == 0:
        return "in[%s %% 64]" % gid_expr(ctx, inner)
    if k == 1:
        return "in[(%s * 3 + %d) %% 64]" % (lid_expr(inner), r.randrange(5))
    if k == 2:
        return "in[%d]" % r.randrange(64)
    return "in[(%s + N) %% 64]" % gid_expr(ctx, inner)


def decide(r, ctx):
    """the protocol transitions of the next section (so that an alternative branch can make the same)"""
    dec = {"sh": [], "ex": []}
    for sh in ctx["shared"]:
        if sh["state"] in ("empty", "read") and r.random() < 0.8:
            dec["sh"].append("write")
        elif sh["state"] == "written":
            dec["sh"].append("read")
        else:
            dec["sh"].append(None)
    for ex in ctx["excl"]:
        dec["ex"].append("set" if not ex["set"] else ("upd" if r.random() < 0.4 else "read"))
    return dec


def commit(ctx, dec):
    for sh, d in zip(ctx["shared"], dec["sh"]):
        if d == "write":
            sh["state"] = "written"
        elif d == "read":
            sh["state"] = "read"
    for ex, d in zip(ctx["excl"], dec["ex"]):
        if d == "set":
            ex["set"] = True


def gen_section(r, ctx, dec, alt=False):
    """one outer-most @inner loop nest (all sections of a group have the same shape)"""
    idims, g, s = ctx["idims"], ctx["g"], ctx["sec"]
    rich = ctx["rich"]
    hdrs = []
    inner = []
    for d, c in enumerate(idims):
        v = "i%d_%d_%d%s" % (g, s, d, "a" if alt else "")
        if ctx["grp"]["runtime_inner"]:
            h = make_hdr(r, v, None, runtime_bound="M")
            ctx["grp"]["idims_runtime"] = True
        else:
            h = make_hdr(r, v, c, simple=not rich)
        hdrs.append(h)
        inner.append((h, c))
    body, uses_shared = gen_body(r, ctx, inner, dec)
    node_kids = body
    for d in range(len(idims) - 1, -1, -1):
        nb = False
        if d == 0 and rich and not uses_shared and r.random() < 0.2:
            nb = True
            ctx["feats"].add("nobarrier")
        lp = Okl("inner", hdrs[d], node_kids, nobarrier=nb)
        lp.count = idims[d]
        node_kids = [lp]
    return node_kids[0]


def gen_body(r, ctx, inner, dec):
    """statements of the inner-most @inner loop body.  Returns (nodes, mentions_shared)"""
    rich, feats = ctx["rich"], ctx["feats"]
    out = []
    uses_shared = False
    c0 = cell(ctx, inner, 0)
    lid = lid_expr(inner)
    T = ctx["T"]
    val = in_idx(r, ctx, inner)
    # shared protocol: alternate write-own / read-any per section
    sh_reads = []
    for sh, what in zip(ctx["shared"], dec["sh"]):
        nm = sh["name"]

        def at(e, sh=sh, nm=nm):
            if sh["two"]:
                return "%s[(%s) / %d][(%s) %% %d]" % (nm, e, sh["two"][1], e, sh["two"][1])
            return "%s[%s]" % (nm, e)
        if what == "write":
            out.append(Stmt("%s = %s + %s" % (at(lid), in_idx(r, ctx, inner), ("%s * 5" % ctx["rep"]) if ctx.get("rep") else str(r.randrange(9))), uses="s"))
            uses_shared = True
        elif what == "read":
            k = r.randrange(1, max(2, T))
            sh_reads.append(at("(%s + %d) %% %d" % (lid, k, T)))
            if r.random() < 0.5:
                sh_reads.append(at("(%d - %s)" % (T - 1, lid)))
            uses_shared = True
    # exclusive: first section sets, later ones read / update
    ex_reads = []
    for ex, what in zip(ctx["excl"], dec["ex"]):
        nm = ex["name"]
        if what == "set":
            out.append(Stmt("{x:%s} = %s + %s" % (nm, val, lid), uses="x"))
        else:
            ex_reads.append("{x:%s}" % nm)
            if what == "upd":
                out.append(Stmt("{x:%s} += %d" % (nm, r.randrange(1, 5)), uses="x", basic=True))
    terms = [val] + sh_reads + ex_reads
    if "ob" in ctx and r.random() < 0.7:
        terms.append(ctx["ob"])
    if ctx["K"].meta.get("twoN") and r.random() < 0.5:
        terms.append("twoN")
    if "helper" in feats and r.random() < 0.6:
        terms.append("hp_%s(%s, %d)" % (ctx["K"].name, lid, r.randrange(5)))
    if "dim" in feats and r.random() < 0.6:
        terms.append("{d:tab|(%s) %% 4|(%s) %% 4}" % (lid, ctx["olin"]))
    expr = " + ".join(terms)
    u = "s" * len(sh_reads) + "x" * len(ex_reads)
    first = ctx["sec"] == 0
    if first or r.random() < 0.3:
        out.append(Stmt("%s = %s" % (c0, expr), uses=u))
    else:
        out.append(Stmt("%s += %s" % (c0, expr), uses=u, basic=True))
    if ctx["slots"] > 1:
        c1 = cell(ctx, inner, 1)
        if first:
            out.append(Stmt("%s = %d" % (c1, r.randrange(100))))
        else:
            out.append(Stmt("%s += %s" % (c1, lid), basic=True))
    if not rich:
        return out, uses_shared
    # local control flow
    k = r.random()
    tv = "t%d_%d" % (ctx["g"], ctx["sec"])
    if k < 0.15:
        out.append(Decl("plain", "int %s = 0" % tv))
        out.append(Seq("for", "for (int j = 0; j < 5; ++j) {", [
            If("j == 3", [Leaf("break")]),
            If("j == 1", [Leaf("continue")]),
            Stmt("%s += j * %s" % (tv, val), basic=True)]))
        out.append(Stmt("%s += %s" % (c0, tv), basic=True))
        feats.add("seq-for-break-continue")
    elif k < 0.25:
        out.append(Decl("plain", "int %s = %s %% 5" % (tv, lid)))
        out.append(Seq("while", "while (%s > 0) {" % tv, [
            Stmt("%s += %s" % (c0, tv), basic=True), Stmt("--%s" % tv, basic=True),
            If("%s == 7" % tv, [Leaf("break")])]))
        feats.add("while")
    elif k < 0.35:
        out.append(Seq("switch", "switch (%s %% 3) {" % lid, [
            Leaf("label", "case 0:"), Stmt("%s += 10" % c0, basic=True), Leaf("break"),
            Leaf("label", "case 1:"), Stmt("%s += 20" % c0, basic=True), Leaf("break"),
            Leaf("label", "default:"), Stmt("%s -= 1" % c0, basic=True)]))
        feats.add("switch")
    elif k < 0.5:
        out.append(If("%s %% 2 == 0" % lid, [Stmt("%s += 1" % c0, basic=True)],
                      elifs=[("%s %% 3 == 0" % lid, [Stmt("%s += 2" % c0, basic=True)], "")],
                      els=[Stmt("%s = %s * 2" % (c0, c0))]))
        feats.add("if-elif-else")
    elif k < 0.56:
        out.append(Seq("dowhile", "do {", [Stmt("%s += 3" % c0, basic=True)], tail="} while (0);"))
        feats.add("do-while")
    # atomics
    a = r.random()
    if ex_reads and a < 0.15:
        # an @atomic update of a GLOBAL cell whose index mentions an @exclusive variable: the update is still on
        # shared data and must stay atomic (seeded change C21-m1 dropped the pragma when the left-hand side
        # mentions a thread-local variable anywhere, subscripts included)
        out.append(Stmt("acc[(%s) & 1] += 1" % ex_reads[0], atomic="a", basic=True, uses="x"))
        feats.add("atomic-basic")
        feats.add("atomic-exclusive-index")
    elif a < 0.2:
        # basic @atomic statements (-> `omp atomic`) use acc[0..1], general @atomic regions (-> `omp critical`)
        # use acc[2..3]: `omp atomic` and `omp critical` do not exclude each other (finding F74)
        out.append(Stmt("acc[%d] += %s" % (r.randrange(2), val), atomic="a", basic=True))
        feats.add("atomic-basic")
    elif a < 0.28:
        out.append(Stmt("acc[%d]++" % r.randrange(2), atomic="a", basic=True))
        feats.add("atomic-basic")
    elif a < 0.34:
        out.append(Seq("atomicblock", "@atomic {", [Stmt("acc[%d] += 2" % r.randrange(2), basic=True)]))
        feats.add("atomic-block-basic")
    elif a < 0.40 and ctx.get("allow_general_atomic"):
        j = 2
        out.append(Seq("atomicblock", "@atomic {", [Stmt("acc[%d] = acc[%d] + %s" % (j, j, val)),
                                                   Stmt("acc[%d] += 1" % (j + 1), basic=True)]))
        feats.add("atomic-general")
    return out, uses_shared


# --------------------------------------------------------------------------- simple base kernels (rule checks)

def base_kernel(r):
    """a small rule-conforming kernel used as the base of single-rule mutations: two outer-most
    @outer loops are possible, every @outer nest has one or two @inner sections, optional
    @shared / @exclusive"""
    return gen_kernel(r, rich=r.random() < 0.7, exec_safe=False)


def find(K, pred):
    return [(n, p) for n, p in K.walk() if pred(n)]


def okl_loops(K, attr=None):
    return find(K, lambda n: isinstance(n, Okl) and (attr is None or n.attr == attr))


def container_of(K, node, path):
    """the python list that holds `node`"""
    if not path:
        return K.body
    p = path[-1]
    if isinstance(p, If):
        if node in p.then:
            return p.then
        for _, b, _ in p.elifs:
            if node in b:
                return b
        return p.els
    return p.kids


BAD_HEADERS = [
    # (text, ir code)  -- {v} is the iterator name
    ("{v} = 0; {v} < 2; ++{v}", "n,-,i,lt,-,w,inc,-,-"),                   # not a declaration
    ("float {v} = 0; {v} < 2; ++{v}", "t,0,k,lt,2,k,inc,-,l"),             # type
    ("int {v} = 0, {v}2 = 0; {v} < 2; ++{v}", "m,-,i,lt,-,w,inc,-,-"),      # two iterators
    ("int {v}; {v} < 2; ++{v}", "v,-,k,lt,2,k,inc,-,l"),                   # no initial value
    ("int {v} = 0; ; ++{v}", "k,0,x,-,-,k,inc,-,-"),                        # no check
    ("int {v} = 0; {v} + 2; ++{v}", "k,0,o,-,-,k,inc,-,-"),                 # not a comparison
    ("int {v} = 0; {v} == 2; ++{v}", "k,0,o,-,-,k,inc,-,-"),
    ("int {v} = 4; {v} != 0; --{v}", "k,4,o,-,-,k,dec,-,-"),
    ("int {v} = 0; N < 2; ++{v}", "k,0,i,lt,-,k,inc,-,-"),                  # other variable compared
    ("int {v} = 0; {v} < 2; ", "k,0,k,lt,2,x,-,-,l"),                       # no update
    ("int {v} = 0; {v} < 2; {v} *= 2", "k,0,k,lt,2,o,-,-,l"),               # operator
    ("int {v} = 0; {v} < 2; ++M", "k,0,k,lt,2,w,inc,-,l"),                   # other variable updated
    ("int {v} = 0; {v} < 2; {v} = {v} + 1", "k,0,k,lt,2,o,-,-,l"),
    ("int {v} = 10; {v} < 2; {v} += 3", "k,10,k,lt,2,k,add,3,l"),           # empty constant range
    ("int {v} = 10; {v} > 11; {v} -= 3", "k,10,k,gt,11,k,sub,3,l"),
    ("int {v} = 0; {v} < 2; {v} -= 5", "k,0,k,lt,2,k,sub,5,l"),             # runs away from the bound
    ("int {v} = 4; {v} < 4; ++{v}", "k,4,k,lt,4,k,inc,-,l"),                # empty
    ("int {v} = 0; {v} < 8; {v} += 0", "k,0,k,lt,8,k,add,0,l"),             # zero step (F60)
    ("int {v} = 8; {v} > 0; {v} -= 0", "k,8,k,gt,0,k,sub,0,l"),
    ("int {v} = 0; {v} > N; ++{v}", "k,0,k,gt,?,k,inc,-,l"),               # update moves away from the bound (F70)
    ("int {v} = 0; N < {v}; ++{v}", "k,0,k,lt,?,k,inc,-,r"),
    ("int {v} = 0; {v} < N; --{v}", "k,0,k,lt,?,k,dec,-,l"),
    ("int {v} = 0; {v} <= N; {v} -= 2", "k,0,k,le,?,k,sub,2,l"),
    ("int {v} = 0; {v} > 10; ++{v}", "k,0,k,gt,10,k,inc,-,l"),
]


# --------------------------------------------------------------------------- single-rule mutations
import copy


def simple_inner(r, var, count=2, kids=None):
    lp = Okl("inner", make_hdr(r, var, count, simple=True), kids if kids is not None else [Stmt("acc[0] += 1", basic=True)])
    lp.count = count
    return lp


def simple_outer(r, var, count=2, kids=None):
    lp = Okl("outer", make_hdr(r, var, count, simple=True), kids if kids is not None else [])
    lp.count = count
    return lp


def as_seq_for(lp):
    return Seq("for", lp.head(False), lp.kids, uses=lp.uses)


def replace_node(K, node, path, new_nodes):
    c = container_of(K, node, path)
    i = c.index(node)
    c[i:i + 1] = new_nodes


def outermost_groups(K):
    """(loop, path) of the outer-most @outer loops"""
    return [(n, p) for n, p in okl_loops(K, "outer") if not any(isinstance(a, Okl) for a in p)]


def sections_of(K, grp_loop):
    """outer-most @inner loops below an outer-most @outer loop, with their paths"""
    out = []
    for n, p in grp_loop.walk():
        if isinstance(n, Okl) and n.attr == "inner" and not any(isinstance(a, Okl) and a.attr == "inner" for a in p):
            out.append((n, p))
    return out


def innermost_inner(K):
    return [(n, p) for n, p in okl_loops(K, "inner") if not any(isinstance(c, Okl) for c, _ in n.walk() if c is not n)]


def m_ret(K, r):
    K.ret = r.choice(["int", "float", "long", "double"])
    return "return-type"


def m_no_outer(K, r):
    for n, p in reversed(okl_loops(K, "outer")):
        replace_node(K, n, p, [as_seq_for(n)])
    return "no-outer"


def m_no_inner(K, r):
    for n, p in reversed(okl_loops(K, "inner")):
        replace_node(K, n, p, [as_seq_for(n)])
    return "no-inner"


def m_inner_outside(K, r):
    lp = simple_inner(r, "iq")
    if r.random() < 0.5:
        K.body.insert(r.randrange(len(K.body) + 1), lp)
    else:
        K.body.insert(0, If("N > 3", [lp]))
    return "inner-outside-outer"


def m_outer_in_inner(K, r):
    n, p = r.choice(innermost_inner(K))
    new = simple_outer(r, "oq", kids=[simple_inner(r, "iq")] if r.random() < 0.5 else [Stmt("acc[1] += 1", basic=True)])
    n.kids.insert(r.randrange(len(n.kids) + 1), new)
    return "outer-inside-inner"


def ensure_two_sections(K, r, grp):
    secs = sections_of(K, grp)
    if len(secs) >= 2:
        return secs
    n, p = secs[0]
    c = container_of(K, n, (grp,) + tuple(p)[1:] if False else path_in(K, n))
    twin = copy.deepcopy(n)
    rename_vars(twin, "_b")
    c.insert(c.index(n) + 1, twin)
    return sections_of(K, grp)


def path_in(K, node):
    for n, p in K.walk():
        if n is node:
            return p
    raise KeyError


def rename_vars(node, suffix):
    """rename the loop iterators of a copied subtree (textually, in headers and statements)"""
    names = [n.hdr.var for n, _ in node.walk() if isinstance(n, Okl) and n.hdr is not None]

    def sub(t):
        for v in names:
            t = re.sub(r"\b%s\b" % re.escape(v), v + suffix, t)
        return t
    for n, _ in node.walk():
        if isinstance(n, Okl) and n.hdr is not None:
            n.hdr = copy.copy(n.hdr)
            n.hdr.var = n.hdr.var + suffix
        elif isinstance(n, (Stmt, Decl)):
            n.text = sub(n.text)
        elif isinstance(n, Seq):
            n.headtxt = sub(n.headtxt)
        elif isinstance(n, If):
            n.cond = sub(n.cond)
            n.elifs = [(sub(c), b, u) for c, b, u in n.elifs]


def m_mismatch_inner(K, r):
    grp, _ = r.choice(outermost_groups(K))
    secs = ensure_two_sections(K, r, grp)
    n, p = r.choice(secs)
    # deepest inner loop of that section gets one more @inner level
    deep = n
    while any(isinstance(c, Okl) for c in deep.kids):
        deep = [c for c in deep.kids if isinstance(c, Okl)][0]
    deep.kids = [simple_inner(r, "iq", kids=deep.kids)]
    return "mismatch-inner-count"


def m_mismatch_outer(K, r):
    grp, _ = r.choice(outermost_groups(K))
    secs = ensure_two_sections(K, r, grp)
    n, p = r.choice(secs)
    replace_node(K, n, path_in(K, n), [simple_outer(r, "oq", kids=[n])])
    return "mismatch-outer-count"


def m_outer_without_inner(K, r):
    n, p = r.choice(okl_loops(K, "outer"))
    n.kids.insert(r.randrange(len(n.kids) + 1), simple_outer(r, "oq", kids=[Stmt("acc[1] += 1", basic=True)]))
    return "outer-without-inner"


def wrap_directly(r, leaf):
    """still *directly* inside the OKL loop: if / block / else wrappers do not capture break/continue"""
    k = r.random()
    if k < 0.4:
        return leaf
    if k < 0.6:
        return If("N < 0", [leaf])
    if k < 0.75:
        return If("N > 0", [Stmt("acc[2] += 1", basic=True)], els=[leaf])
    if k < 0.9:
        return Seq("block", "{", [leaf])
    return If("N < 0", [Seq("block", "{", [If("M < 0", [leaf])])])


def m_break(K, r):
    which = r.choice(["break", "continue"])
    n, p = r.choice(okl_loops(K))
    # position: anywhere among the loop's own statements, but not after which an @inner loop would be unreachable
    n.kids.insert(r.randrange(len(n.kids) + 1), wrap_directly(r, Leaf(which)))
    return which + "-in-okl-loop"


def m_continue_in_switch(K, r):
    n, p = r.choice(okl_loops(K))
    sw = Seq("switch", "switch (N) {", [Leaf("label", "case 0:"), Leaf("continue"), Leaf("label", "default:"), Leaf("break")])
    n.kids.insert(r.randrange(len(n.kids) + 1), sw if r.random() < 0.7 else If("M > 0", [sw]))
    return "continue-in-switch-in-okl-loop"


def m_bad_header(K, r, idx=None):
    n, p = r.choice(okl_loops(K))
    text, code = BAD_HEADERS[idx if idx is not None else r.randrange(len(BAD_HEADERS))]
    v = n.hdr.var
    n.raw, n.raw_ir = text.replace("{v}", v), code
    return "bad-header"


def m_zero_step(K, r):
    zs = [i for i, (t, c) in enumerate(BAD_HEADERS) if "= 0" in t and ("+= 0" in t or "-= 0" in t)]
    return m_bad_header(K, r, r.choice(zs)) and "zero-step-header"


def m_shared_outside(K, r):
    kind = r.choice(["shared", "exclusive"])
    d = Decl(kind, "int zq[4]" if kind == "shared" else "int zq", "zq", "4")
    d.total = 1
    K.body.insert(0, d)
    return kind + "-outside-outer"


def m_shared_in_inner(K, r):
    kind = r.choice(["shared", "exclusive"])
    n, p = r.choice(okl_loops(K, "inner"))
    d = Decl(kind, "int zq[4]" if kind == "shared" else "int zq", "zq", "4")
    d.total = 1
    n.kids.insert(0, d)
    return kind + "-inside-inner"


def m_shared_bad_decl(K, r):
    n, p = r.choice(okl_loops(K, "outer"))
    # between @outer and @inner: directly in an @outer loop body that holds the @inner sections
    cands = [(m, q) for m, q in okl_loops(K, "outer") if any(isinstance(c, Okl) and c.attr == "inner" for c, _ in m.walk())]
    n, p = r.choice(cands)
    form = r.randrange(4)
    if form == 0:
        d = Decl("shared", "int zq", "zq", "-")
        tag = "shared-not-array"
    elif form == 1:
        d = Decl("shared", "int zq[N]", "zq", "?")
        tag = "shared-runtime-size"
    elif form == 2:
        d = Decl("shared", "int zq[2][M]", "zq", "2,?")
        tag = "shared-runtime-size"
    else:
        d = Decl("shared", "int zq[M + 1][4]", "zq", "?,4")
        tag = "shared-runtime-size"
    n.kids.insert(0, d)
    return tag


def m_both_attrs(K, r):
    n, p = r.choice(okl_loops(K))
    n.attr = "both"
    return "outer-and-inner-on-one-loop"


def m_four_deep(K, r):
    if r.random() < 0.5:
        # a fourth @inner level in every section of every group (only the depth rule is broken)
        for grp, _ in outermost_groups(K):
            for n, p in sections_of(K, grp):
                depth = 1
                deep = n
                while any(isinstance(c, Okl) for c in deep.kids):
                    deep = [c for c in deep.kids if isinstance(c, Okl)][0]
                    depth += 1
                for q in range(4 - depth):
                    deep.kids = [simple_inner(r, "iq%d" % q, kids=deep.kids)]
                    deep = deep.kids[0]
        return "four-nested-inner"
    for grp, p in outermost_groups(K):
        depth = 1
        deep = grp
        while any(isinstance(c, Okl) and c.attr == "outer" for c in deep.kids):
            deep = [c for c in deep.kids if isinstance(c, Okl) and c.attr == "outer"][0]
            depth += 1
        for q in range(4 - depth):
            deep.kids = [simple_outer(r, "oq%d" % q, kids=deep.kids)]
            deep = deep.kids[0]
    return "four-nested-outer"


def m_use_outside_inner(K, r):
    """not in the property's rule list, but all translators must still agree"""
    cands = [(m, q) for m, q in okl_loops(K, "outer") if any(isinstance(c, Okl) and c.attr == "inner" for c in m.kids)]
    if not cands:
        return None
    n, p = r.choice(cands)
    kind = r.choice(["shared", "exclusive"])
    if kind == "shared":
        d = Decl("shared", "int zq[4]", "zq", "4")
        u = Stmt("zq[0] = 1", uses="s")
    else:
        d = Decl("exclusive", "int zq", "zq")
        d.total = 1
        u = Stmt("zq = 1", uses="x")
    n.kids.insert(0, d)
    n.kids.insert(r.randrange(1, len(n.kids) + 1), u)
    return "use-outside-inner"


MUTATIONS = [m_ret, m_no_outer, m_no_inner, m_inner_outside, m_outer_in_inner, m_mismatch_inner, m_mismatch_outer,
             m_outer_without_inner, m_break, m_break, m_continue_in_switch, m_bad_header, m_bad_header, m_zero_step,
             m_shared_outside, m_shared_in_inner, m_shared_bad_decl, m_both_attrs, m_four_deep]


def mutate(K, r, m=None):
    """a deep copy of K with one rule broken; returns (kernel, rule tag)"""
    K2 = copy.deepcopy(K)
    m = m or r.choice(MUTATIONS)
    tag = m(K2, r)
    return K2, tag


def hexs(s):
    return s.encode().hex() or "-"


def t_op(K, expect):
    return "T %s %s %s" % (expect, hexs(K.src()), K.ir())


def s_op(K):
    return "S %s %s" % (hexs(K.src()), K.ir())


# --------------------------------------------------------------------------- execution of translations

ARGSETS = [(1, 2), (3, 3), (MAXN, 4)]
EMU = None   # set by the plugin: path of harness/okl_emu


def parse_g(line):
    """observation of a `G` op -> {mode: (device source, launcher source or None)} or None on failure"""
    out = {}
    for part in line.split():
        if "=" not in part:
            return None
        m, v = part.split("=", 1)
        if v == "fail":
            out[m] = None
            continue
        d, _, l = v.partition(":")
        out[m] = (bytes.fromhex(d).decode() if d != "-" else "", bytes.fromhex(l).decode() if l and l != "-" else None)
    return out


def arg_decl(a):
    """('const int', 'N', is_pointer) of an OKL argument"""
    a = strip_attrs(a).strip()
    m = re.match(r"(.*?)(\*?)\s*(\w+)$", a)
    return m.group(1).strip(), m.group(3), bool(m.group(2))


def device_kernels(dev_src, name):
    return sorted(set(re.findall(r"\b(_occa_%s_\d+)\s*\(" % re.escape(name), dev_src)), key=lambda x: int(x.rsplit("_", 1)[1]))


def thunks(K, mode, dev_src):
    """per extracted device kernel: a function that unpacks the launcher's type-erased arguments, and
    the deviceKernels table"""
    args = [arg_decl(a) for a in K.args]
    out = []
    names = device_kernels(dev_src, K.name)
    for dk in names:
        call = []
        for i, (ty, nm, ptr) in enumerate(args):
            if ptr:
                call.append("(%s *) *(occa::modeMemory_t **) a[%d]" % (ty, i))
            else:
                call.append("*(%s *) a[%d]" % (ty, i))
        if mode == "metal":
            body = "uint3 g = {emu::tBlock.x, emu::tBlock.y, emu::tBlock.z}, t = {emu::tThread.x, emu::tThread.y, emu::tThread.z}; %s(%s, g, t);" % (dk, ", ".join(call))
            out.append("static void thunk_%s(occa::dim o, occa::dim i, void **a) { emu::launch(occa::d3(o), occa::d3(i), [&]() { %s }); }" % (dk, body))
        elif mode == "dpcpp":
            out.append("static void thunk_%s(occa::dim o, occa::dim i, void **a) { sycl::queue q; occa::dim f; f.x = o.x * i.x; f.y = o.y * i.y; f.z = o.z * i.z;\n"
                       "  sycl::nd_range<3> r(sycl::range<3>(f.z, f.y, f.x), sycl::range<3>(i.z, i.y, i.x)); %s(&q, &r, %s); }" % (dk, dk, ", ".join(call)))
        else:
            out.append("static void thunk_%s(occa::dim o, occa::dim i, void **a) { emu::launch(occa::d3(o), occa::d3(i), [&]() { %s(%s); }); }" % (dk, dk, ", ".join(call)))
    out.append("static occa::modeKernel_t mk_%s[] = {%s};" % (K.name, ", ".join("{thunk_%s}" % d for d in names) or "{0}"))
    out.append("static occa::modeKernel_t *dk_%s[] = {%s};" % (K.name, ", ".join("&mk_%s[%d]" % (K.name, i) for i in range(len(names))) or "0"))
    return "\n".join(out) + "\n"


def runner(K, mode):
    """C++: run reference and translation of kernel K on every argument set, compare all arrays"""
    args = [arg_decl(a) for a in K.args]
    sizes = {"in": 64, "out": max(1, K.meta["out_cells"]), "acc": 4, "tab": 16}
    L = ["static int run_%s() {" % K.name, "  int bad = 0;"]
    argsets = [(n, K.meta["M"] or m) for n, m in ARGSETS]
    L.append("  const int sets[][2] = {%s};" % ", ".join("{%d, %d}" % a for a in argsets))
    L.append("  for (auto &st : sets) {")
    L.append("    const int N = st[0], M = st[1]; (void) M;")
    for ty, nm, ptr in args:
        if not ptr:
            continue
        n = sizes[nm]
        base = ty.replace("const", "").strip()
        for tag in ("r", "t"):
            # exact-size heap arrays: ASan reports any access outside what the kernel receives
            L.append("    %s *%s_%s = new %s[%d];" % (base, nm, tag, base, n))
            init = {"in": "(i * 7 + 3) % 23", "out": "1000 + i", "acc": "0", "tab": "(i * 5 + 1) % 11"}[nm]
            L.append("    for (int i = 0; i < %d; ++i) %s_%s[i] = %s;" % (n, nm, tag, init))
    call_r = ", ".join(("%s_r" % nm) if ptr else nm for ty, nm, ptr in args)
    L.append("    %s_ref(%s);" % (K.name, call_r))
    if mode in ("serial", "openmp"):
        L.append("    %s(%s);" % (K.name, ", ".join(("%s_t" % nm) if ptr else nm for ty, nm, ptr in args)))
    else:
        L.append("    %s(dk_%s, %s);" % (K.name, K.name, ", ".join(("(occa::modeMemory_t *) %s_t" % nm) if ptr else nm for ty, nm, ptr in args)))
    for ty, nm, ptr in args:
        if ptr and "const" not in ty:
            L.append("    for (int i = 0; i < %d; ++i) if (%s_r[i] != %s_t[i]) { if (!bad) printf(\"DIFF %s N=%%d M=%%d %s[%%d] got %%d want %%d\\n\", N, M, i, (int) %s_t[i], (int) %s_r[i]); ++bad; }"
                     % (sizes[nm], nm, nm, K.name, nm, nm, nm))
    for ty, nm, ptr in args:
        if ptr:
            L.append("    delete[] %s_r; delete[] %s_t;" % (nm, nm))
    L.append("  }")
    L.append("  if (emu::divergentBarriers) { printf(\"DIVERGENT-BARRIER %s\\n\"); ++bad; emu::divergentBarriers = 0; }" % K.name)
    L.append("  if (!bad) printf(\"OK %s\\n\");" % K.name)
    L.append("  return bad;")
    L.append("}")
    return "\n".join(L) + "\n"


MODE_HDR = {"serial": None, "openmp": None, "cuda": "emu_cuda.hpp", "hip": "emu_cuda.hpp", "opencl": "emu_opencl.hpp",
            "metal": "emu_metal.hpp", "dpcpp": "CL/sycl.hpp"}


def build_tu(mode, items, omp_variant=None):
    """one translation unit for `mode` holding all kernels.  items: [(Kernel, (device, launcher))]"""
    P = ["// generated by tools/checks/okl_common.py: %s translations of %d kernels" % (mode, len(items)),
         "#include <cstdio>", "#include <cstdlib>", "#include <cstddef>", "#include <cstdint>", '#include "emu.hpp"']
    if mode == "openmp":
        P.append("#include <omp.h>")
    if MODE_HDR[mode]:
        P.append('#include "%s"' % MODE_HDR[mode])
    if mode == "hip":
        P.append('#include "hip/hip_runtime.h"')
    for K, (dev, lau) in items:
        P.append("// ---------------- device code of %s" % K.name)
        if mode == "openmp" and omp_variant == "runtime":
            dev = dev.replace("#pragma omp parallel for", "#pragma omp parallel for schedule(runtime)")
        P.append(dev)
    if mode == "metal":
        P.append("#undef kernel\n#undef device\n#undef constant\n#undef threadgroup")
    if mode not in ("serial", "openmp"):
        P.append('#include "occa/core/kernel.hpp"')
        for K, (dev, lau) in items:
            P.append("// ---------------- launcher of %s" % K.name)
            P.append(thunks(K, mode, dev))
            P.append(lau.replace("hp_", "lhp_"))   # the launcher source repeats the helper functions
    for K, _ in items:
        P.append("// ---------------- sequential reading of %s" % K.name)
        P.append(K.ref())
        P.append(runner(K, mode))
    P.append("int main() {\n  int bad = 0;")
    if mode == "openmp":
        P.append("  const char *sch = getenv(\"EMU_SCHED\");   // kind,chunk for schedule(runtime) builds\n"
                 "  if (sch) { int k = 1, c = 0; sscanf(sch, \"%d,%d\", &k, &c); omp_set_schedule((omp_sched_t) k, c); }")
    for K, _ in items:
        P.append("  bad += run_%s();" % K.name)
    P.append("  return bad ? 1 : 0;\n}")
    return "\n".join(P) + "\n"


def translate_all(ck, hb, kernels):
    """run the `G` op of the harness on every kernel; returns [{mode: (dev, launcher) | None}]"""
    env = {"ASAN_OPTIONS": "detect_leaks=0:abort_on_error=0:exitcode=66:allocator_may_return_null=1"}
    hs = [["G %s" % hexs(K.src())] for K in kernels]
    obs, ora, notes = ck.run_impl(hb, hs, timeout=1800, env=env)
    out = []
    for K, o, oo in zip(kernels, obs, ora):
        g = parse_g(o[0]) if o and not o[0].startswith(("CRASH", "HANG", "bad-op", "MISSING")) else None
        out.append((g, oo))
    return out


def compile_and_run(ck, tag, tus, run_envs=None, timeout=1800):
    """tus: {name: (source text, extra flags)}.  Compiles all in parallel, runs each (once per env in
    run_envs[name], default one plain run).  Returns {name: [(env, rc, stdout, stderr)]} with rc None
    when the compilation failed (stderr = compiler output)."""
    import subprocess, os, time
    from vlib import BUILD, VERIF
    running = {}
    d = os.path.join(BUILD, "tmp", "okl_exec_%s_%d" % (tag, os.getpid()))
    os.makedirs(d, exist_ok=True)
    emu = os.path.join(VERIF, "harness", "okl_emu")
    procs = {}
    for name, (src, flags) in tus.items():
        cpp = os.path.join(d, name + ".cpp")
        open(cpp, "w").write(src)
        cmd = ["g++", "-std=c++20", "-g", "-O0", "-w", "-fsanitize=address,undefined", "-fno-omit-frame-pointer",
               "-I" + emu, "-pthread"] + list(flags) + [cpp, "-o", os.path.join(d, name)]
        ferr = open(os.path.join(d, name + ".gcc.err"), "w")
        procs[name] = (subprocess.Popen(cmd, stdout=subprocess.DEVNULL, stderr=ferr), ferr)
        while sum(1 for q, _ in procs.values() if q.poll() is None) >= 12:     # at most 12 compilers at a time
            time.sleep(0.05)
    res = {}
    for name, (p, ferr) in procs.items():
        try:
            p.wait(timeout=timeout)
        except subprocess.TimeoutExpired:
            p.kill()
            p.wait()
        ferr.close()
        se = open(ferr.name, errors="replace").read()
        if p.returncode != 0:
            res[name] = [({}, None, "", se[-3000:])]
            continue
        res[name] = []
        running[name] = []
        for env in (run_envs or {}).get(name, [{}]):
            e = dict(os.environ)
            e.update({"ASAN_OPTIONS": "detect_leaks=0:abort_on_error=0:exitcode=66", "UBSAN_OPTIONS": "halt_on_error=0:print_stacktrace=0"})
            e.update(env)
            k = len(running[name])
            fo, fe = open(os.path.join(d, "%s.%d.out" % (name, k)), "w"), open(os.path.join(d, "%s.%d.err" % (name, k)), "w")
            running[name].append((env, subprocess.Popen([os.path.join(d, name)], stdout=fo, stderr=fe, env=e), fo, fe))
            # at most 8 programs at a time
            while sum(1 for rs in running.values() for _, q, _, _ in rs if q.poll() is None) >= 8:
                time.sleep(0.05)
    for name, rs in running.items():
        for env, q, fo, fe in rs:
            try:
                q.wait(timeout=timeout)
                rc = q.returncode
            except subprocess.TimeoutExpired:
                q.kill()
                q.wait()
                rc = -999
            fo.close()
            fe.close()
            so = open(fo.name, errors="replace").read()
            se = open(fe.name, errors="replace").read()[-3000:]
            res[name].append((env, rc, so, se if rc != -999 else se + "\nrun timeout"))
    ck.cov["counters"]["exec_dir"] = d
    return res


def t_op_multi(Ks, expect):
    """several @kernel functions in one source (kernelsAreValid has to check every one of them)"""
    return "T %s %s %s" % (expect, hexs("\n".join(K.src() for K in Ks)), "+".join(K.ir() for K in Ks))


def sibling_outer_kernels(r):
    """@outer{ @outer{@inner..} @outer{@inner..} }: sibling nested @outer loops below one outer-most loop; the valid one has
    the same @inner depth in both, the invalid one a deeper nest in one of them (in a random position)"""
    def nest(tag, depth):
        k = [Stmt("acc[0] += 1", basic=True)]
        for d in range(depth):
            k = [simple_inner(r, "i%s%d" % (tag, d), kids=k)]
        return simple_outer(r, "o" + tag, kids=k)
    d = r.choice([1, 2])
    ARGS = ["const int N", "const int M", "const int *in", "int *out", "int *acc"]
    n = r.choice([2, 3])
    good = Kernel("k", ARGS, [simple_outer(r, "o", kids=[nest(chr(97 + j), d) for j in range(n)])])
    bad_at = r.randrange(n)
    bad = Kernel("k", ARGS, [simple_outer(r, "o", kids=[nest(chr(97 + j), d + (1 if j == bad_at else 0)) for j in range(n)])])
    return good, bad
