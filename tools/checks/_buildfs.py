"""Machinery shared by C08.py and C09.py: run harness/h_build under strace, canonicalise the syscall
log to the step alphabet of lean/OccaModel/BuildFS.lean, kill injection, concurrent batches.

Canonical step lines (one per line, fed to drv_buildfs):
    ev <pid> mkdir <dir>                    mkdir(2) of a hash directory (ancestors are dropped)
    ev <pid> statdir <dir> <0|1>            stat of a hash directory (mkpath's isDir)
    ev <pid> creat <path>                   open(O_WRONLY|O_CREAT|O_TRUNC)
    ev <pid> append <path> <hex>            consecutive write(2)s on that fd, merged
    ev <pid> close <path>                   close of an fd opened for writing
    ev <pid> fsync <path> / fsyncdir <dir>
    ev <pid> rename <a> <b> <0|1>
    ev <pid> stat <path> <0|1>              newfstatat on a file name, or a *failed* O_RDONLY open (io::exists)
    ev <pid> open <path>                    successful O_RDONLY open (content is consumed)
    ev <pid> exec <src> <out,out,...|-> <0|1>   a child process tree that compiled <src> (collapsed)
    ev <pid> run <path>                     a child process that executed a cached binary
    ev <pid> rmrf <dir>                     a run of unlink()s in one hash directory followed by rmdir
A <path> is  <dir>/<base>  or  <dir>/<tok>:<base>  (on disk `<tok>.<base>`, tok = 16 hex digits = staged temp name); <dir> is the
16-hex hash directory below <cache>/cache/ renamed by role (K0,K1.. kernel dirs in order of appearance,
V compiler-vendor probe, O OpenMP probe); temp tokens are renamed t0,t1,.. in order of appearance.
"""
import os, re, shutil, signal, subprocess, sys, time, hashlib
from vlib import BUILD, REPO, VERIF, sh, log

TEMP_RE = re.compile(r"^([0-9a-f]{16})\.(.+)$")
HEXDIR_RE = re.compile(r"^[0-9a-f]{16}$")
TRACE_CALLS = ("openat,open,creat,write,close,fsync,fdatasync,rename,renameat,renameat2,mkdir,mkdirat,"
               "newfstatat,stat,lstat,unlink,unlinkat,rmdir,execve")
# the property's kill points: "open/write/close/rename/fsync/mkdir" (+ the stat family in the thorough tier)
KILL_CALLS = ["openat", "write", "close", "rename", "fsync", "mkdir"]
KILL_CALLS_THOROUGH = KILL_CALLS + ["newfstatat"]


def kernel_text(C):
    return ("@kernel void verifK(const int n, const int *a, int *b) {\n"
            "  for (int i = 0; i < n; ++i; @tile(8, @outer, @inner)) {\n"
            "    b[i] = a[i] * %d + i;\n"
            "  }\n"
            "}\n" % C)


def expected_line(k, C, n=37):
    s = sum((3 * i - 11) * C + i for i in range(n))
    return "K %d %d n=%d sum=%d bad=0" % (k, C, n, s)


def run_env(cache):
    return {"OCCA_DIR": REPO, "OCCA_CACHE_DIR": cache, "OCCA_VERBOSE": "0",
            # LeakSanitizer cannot run under ptrace; leaks are not this property's business
            "ASAN_OPTIONS": "detect_leaks=0:abort_on_error=0:exitcode=66",
            "UBSAN_OPTIONS": "print_stacktrace=0:halt_on_error=0"}


def fresh_dir(tag):
    d = os.path.join(BUILD, "tmp", "bfs-%d-%s" % (os.getpid(), tag))
    shutil.rmtree(d, ignore_errors=True)
    os.makedirs(d)
    return d


def rmtree(d):
    for _ in range(5):
        shutil.rmtree(d, ignore_errors=True)
        if not os.path.exists(d):
            return
        time.sleep(0.2)


# ------------------------------------------------------------------ running

def popen_group(cmd, env, stdout=subprocess.PIPE):
    e = dict(os.environ)
    e.update(env)
    return subprocess.Popen(cmd, stdout=stdout, stderr=subprocess.PIPE, env=e, start_new_session=True)


def finish_group(p, timeout):
    """wait for p, then kill whatever is left of its process group (orphaned compilers)"""
    try:
        so, se = p.communicate(timeout=timeout)
        rc = p.returncode
    except subprocess.TimeoutExpired:
        rc = -999
        try:
            os.killpg(p.pid, signal.SIGKILL)
        except ProcessLookupError:
            pass
        so, se = p.communicate()
    try:
        os.killpg(p.pid, signal.SIGKILL)
    except (ProcessLookupError, PermissionError):
        pass
    return rc, (so or b"").decode(errors="replace"), (se or b"").decode(errors="replace")


class Infrastructure(Exception):
    """the library under test cannot be loaded (it is being relinked by a concurrent build): no verdict possible"""


def loader_failure(rc, so, se):
    return rc == 127 and "error while loading shared libraries" in (se + so)


def _run_retrying(cmd, cache, timeout):
    """a harness process that cannot even load libocca.so (shared build being relinked) says nothing about the
    property: wait for the library and run the case again"""
    t0 = time.time()
    while True:
        p = popen_group(cmd, run_env(cache))
        rc, so, se = finish_group(p, timeout)
        if not loader_failure(rc, so, se):
            return rc, so, se
        if time.time() - t0 > 1800:
            raise Infrastructure(se.strip()[-200:])
        log("libocca.so cannot be loaded (being rebuilt?), waiting")
        time.sleep(30)


def run_plain(hbin, cache, args, timeout=300):
    return _run_retrying([hbin] + args, cache, timeout)


def run_traced(hbin, cache, args, out, timeout=600, follow=True, tstamps=False):
    cmd = ["strace"] + (["-f", "--seccomp-bpf"] if follow else []) + (["-ttt"] if tstamps else []) + \
          ["-o", out, "-xx", "-s", "70000", "-e", "trace=" + TRACE_CALLS, hbin] + args
    return _run_retrying(cmd, cache, timeout)


def run_killed(hbin, cache, args, call, n, out, timeout=300):
    """run the builder (children untraced) and SIGKILL it on entry of its n-th `call`"""
    cmd = ["strace", "-o", out, "-xx", "-s", "200", "-e", "trace=" + call,
           "-e", "inject=%s:signal=SIGKILL:when=%d" % (call, n), hbin] + args
    return _run_retrying(cmd, cache, timeout)


# ------------------------------------------------------------------ strace log -> records

LINE_RE = re.compile(r"^(?:(\d+)\s+)?(?:(\d+\.\d+)\s+)?(.*)$")


def unquote(s):
    """strace -xx string literal (without the quotes) -> bytes"""
    return bytes(int(x, 16) for x in re.findall(r"\\x([0-9a-f]{2})", s))


def parse_strace(path, default_pid=0):
    """-> list of (pid, time, name, [args as raw text], ret:int|None, rawline); unfinished/resumed joined,
    ordered by completion."""
    pending = {}
    recs = []
    for raw in open(path, errors="replace"):
        raw = raw.rstrip("\n")
        m = LINE_RE.match(raw)
        pid = int(m.group(1)) if m.group(1) else default_pid
        ts = float(m.group(2)) if m.group(2) else 0.0
        body = m.group(3)
        if body.startswith("+++") or body.startswith("---"):
            recs.append((pid, ts, "+++" if body.startswith("+++") else "---", [body], None, raw))
            continue
        if body.endswith("<unfinished ...>"):
            pending[pid] = body[:-len("<unfinished ...>")]
            continue
        r = re.match(r"^<\.\.\. (\w+) resumed>(.*)$", body)
        if r:
            body = pending.pop(pid, r.group(1) + "(") + r.group(2)
        c = re.match(r"^(\w+)\((.*)\)\s+=\s+(-?\d+|\?)(.*)$", body)
        if not c:
            continue
        name, args, ret = c.group(1), c.group(2), c.group(3)
        recs.append((pid, ts, name, split_args(args), None if ret == "?" else int(ret), raw))
    return recs


def split_args(a):
    out, cur, depth, inq, i = [], "", 0, False, 0
    while i < len(a):
        ch = a[i]
        if inq:
            cur += ch
            if ch == "\\":
                cur += a[i + 1]
                i += 1
            elif ch == '"':
                inq = False
        elif ch == '"':
            inq = True
            cur += ch
        elif ch in "([{":
            depth += 1
            cur += ch
        elif ch in ")]}":
            depth -= 1
            cur += ch
        elif ch == "," and depth == 0:
            out.append(cur.strip())
            cur = ""
        else:
            cur += ch
        i += 1
    if cur.strip():
        out.append(cur.strip())
    return out


def str_arg(a):
    m = re.match(r'^"(.*)"(\.\.\.)?$', a, re.S)
    if not m:
        return None
    return unquote(m.group(1))


# ------------------------------------------------------------------ records -> canonical steps

class Canon:
    """Canonicaliser for the log of ONE builder process tree (main pid + collapsed children)."""

    def __init__(self, cache, names=None):
        self.cache = os.path.realpath(cache).rstrip("/")
        self.names = names if names is not None else {"dirs": {}, "toks": {}, "k": 0}
        self.notes = []
        self.origin = []     # per emitted step: (syscall name, its ordinal among the builder's calls of that name)

    # path classification ------------------------------------------------------------
    def rel(self, p):
        """absolute/odd path -> ('file', dir, tok|None, base) | ('dir', dir) | ('root',) | None (outside)"""
        if p is None:
            return None
        s = p.decode(errors="replace")
        s = re.sub(r"/+", "/", s)
        isdir = s.endswith("/")
        s = s.rstrip("/")
        if s == self.cache or s == self.cache + "/cache":
            return ("root",)
        pre = self.cache + "/cache/"
        if not s.startswith(pre):
            if s.startswith(self.cache + "/"):
                return ("other", s[len(self.cache) + 1:])
            return None
        parts = s[len(pre):].split("/")
        if len(parts) == 1:
            return ("dir", parts[0])
        if len(parts) == 2 and not isdir:
            m = TEMP_RE.match(parts[1])
            if m:
                return ("file", parts[0], m.group(1), m.group(2))
            return ("file", parts[0], None, parts[1])
        return ("other", "/".join(parts))

    def dname(self, d, hint=None):
        D = self.names["dirs"]
        if d not in D:
            if hint in ("V", "O") and hint not in D.values():
                D[d] = hint
            else:
                D[d] = "K%d" % self.names["k"]
                self.names["k"] += 1
        return D[d]

    def fix_dir_roles(self, recs):
        """first pass: a directory that ever holds findCompilerVendor.cpp is V, compilerSupportsOpenMP.cpp is O"""
        for (_, _, name, args, _, _) in recs:
            for a in args[:3]:
                r = self.rel(str_arg(a)) if a.startswith('"') else None
                if r and r[0] == "file":
                    if r[3] == "findCompilerVendor.cpp":
                        self.names["dirs"].setdefault(r[1], "V")
                    elif r[3] == "compilerSupportsOpenMP.cpp":
                        self.names["dirs"].setdefault(r[1], "O")

    def pname(self, r):
        d = self.dname(r[1])
        if r[2] is None:
            return "%s/%s" % (d, r[3])
        T = self.names["toks"]
        if r[2] not in T:
            T[r[2]] = "t%d" % len(T)
        return "%s/%s:%s" % (d, T[r[2]], r[3])

    # main -----------------------------------------------------------------------------
    def steps(self, recs, pid_label, main_pid=None, with_ts=False):
        self.fix_dir_roles(recs)
        if main_pid is None:
            main_pid = recs[0][0] if recs else 0
        out = []
        last_origin = ("start", 0)
        fds = {}            # main's fd -> (kind 'w'|'r'|'d', canonical name)
        pend_append = None  # [path, bytes]
        group = None        # collapsed children: dict(reads, writes, execs)
        rm = None           # [dir, n]

        def flush_append():
            nonlocal pend_append
            if pend_append:
                out.append((ts, "ev %s append %s %s" % (pid_label, pend_append[0],
                                                         norm_content(pend_append[0], bytes(pend_append[1])).hex() or "-")))
                pend_append = None

        def flush_group():
            nonlocal group
            if group is None:
                return
            g, group = group, None
            if g["run"]:
                out.append((ts, "ev %s run %s" % (pid_label, g["run"][0])))
                return
            if not g["reads"] and not g["writes"]:
                return
            srcs = [p for p in g["reads"] if p.endswith(".cpp") or p.endswith(".c")]
            src = srcs[0] if srcs else (g["reads"][0] if g["reads"] else "-")
            outs = sorted(set(g["writes"]), key=lambda w: w.split(":")[-1])
            out.append((ts, "ev %s exec %s %s" % (pid_label, src, ",".join(outs) or "-")))
            if len(set(srcs)) > 1:
                self.notes.append("compiler child read several cache sources: %s" % sorted(set(srcs)))

        def flush_rm():
            nonlocal rm
            if rm:
                out.append((ts, "ev %s rmrf %s" % (pid_label, rm[0])))
                rm = None

        counts = {}
        self.origin = []
        for (pid, ts, name, args, ret, raw) in recs:
            if name in ("+++", "---"):
                continue
            if pid == main_pid:
                counts[name] = counts.get(name, 0) + 1
            while len(self.origin) < len(out):
                self.origin.append(last_origin)
            last_origin = (name, counts.get(name, 0)) if pid == main_pid else ("child", 0)
            if pid != main_pid:
                # ---- child process: collapse
                if group is None:
                    flush_append()
                    group = {"reads": [], "writes": [], "run": []}
                if name == "execve" and args:
                    r = self.rel(str_arg(args[0]))
                    if r and r[0] == "file" and ret == 0:
                        group["run"].append(self.pname(r))
                elif name in ("openat", "open", "creat") and ret is not None and ret >= 0:
                    pa = args[1] if name == "openat" else args[0]
                    fl = (args[2] if name == "openat" else (args[1] if len(args) > 1 else "")) if name != "creat" else "O_WRONLY|O_CREAT|O_TRUNC"
                    r = self.rel(str_arg(pa))
                    if r and r[0] == "file":
                        if "O_WRONLY" in fl or "O_RDWR" in fl or "O_CREAT" in fl:
                            group["writes"].append(self.pname(r))
                        else:
                            group["reads"].append(self.pname(r))
                elif name in ("rename", "renameat", "renameat2", "unlink", "unlinkat") and ret == 0:
                    paths = [self.rel(str_arg(a)) for a in args if a.startswith('"')]
                    for r in paths:
                        if r and r[0] == "file":
                            self.notes.append("child %s on cache path %s" % (name, self.pname(r)))
                            group["writes"].append(self.pname(r))
                continue
            # ---- the builder itself
            flush_group()
            if name in ("unlink", "unlinkat", "rmdir"):
                pa = [a for a in args if a.startswith('"')]
                r = self.rel(str_arg(pa[0])) if pa else None
                if r and r[0] == "file":
                    d = self.dname(r[1])
                    flush_append()
                    if rm and rm[0] != d:
                        flush_rm()
                    if not rm:
                        rm = [d, 0]
                    rm[1] += 1
                    continue
                if r and r[0] == "dir":
                    d = self.dname(r[1])
                    flush_append()
                    if rm and rm[0] != d:
                        flush_rm()
                    rm = rm or [d, 0]
                    flush_rm()
                    continue
                continue
            if name == "write":
                fd = int(args[0]) if args and args[0].isdigit() else -1
                if fd in fds and fds[fd][0] == "w":
                    data = str_arg(args[1]) or b""
                    if ret is not None and ret >= 0:
                        data = data[:ret]
                    if pend_append and pend_append[0] == fds[fd][1]:
                        pend_append[1] += data
                    else:
                        flush_append()
                        pend_append = [fds[fd][1], bytearray(data)]
                continue
            if name == "close":
                fd = int(args[0]) if args and args[0].isdigit() else -1
                if fd in fds:
                    kind, p = fds.pop(fd)
                    if kind == "w":
                        flush_append()
                        out.append((ts, "ev %s close %s" % (pid_label, p)))
                continue
            if name in ("fsync", "fdatasync"):
                fd = int(args[0]) if args and args[0].isdigit() else -1
                if fd in fds:
                    flush_append()
                    kind, p = fds[fd]
                    out.append((ts, "ev %s %s %s" % (pid_label, "fsyncdir" if kind == "d" else "fsync", p)))
                continue
            flush_append()
            if rm and name in ("openat", "open"):
                # sys::rmdir lists the directory again (for sub-directories) between the unlinks and the rmdir
                r0 = self.rel(str_arg(args[1] if name == "openat" else args[0]))
                if not (r0 and r0[0] == "dir" and self.dname(r0[1]) == rm[0]):
                    flush_rm()
            elif name not in ("newfstatat", "stat", "lstat"):
                flush_rm()
            if name in ("openat", "open", "creat"):
                pa = args[1] if name == "openat" else args[0]
                fl = "O_WRONLY|O_CREAT|O_TRUNC" if name == "creat" else (args[2] if name == "openat" else (args[1] if len(args) > 1 else ""))
                r = self.rel(str_arg(pa))
                if not r or r[0] in ("root",):
                    continue
                if r[0] == "other":
                    if r[1] != "config.json":
                        self.notes.append("unclassified cache path %s (%s)" % (r[1], name))
                    continue
                ok = ret is not None and ret >= 0
                if r[0] == "dir":
                    if ok:
                        fds[ret] = ("d", self.dname(r[1]))
                    continue
                p = self.pname(r)
                if "O_WRONLY" in fl or "O_RDWR" in fl:
                    if "O_CREAT" not in fl or "O_TRUNC" not in fl:
                        self.notes.append("write-open without O_CREAT|O_TRUNC: %s %s" % (p, fl))
                    out.append((ts, "ev %s creat %s" % (pid_label, p)))
                    if ok:
                        fds[ret] = ("w", p)
                else:
                    if ok:
                        out.append((ts, "ev %s open %s" % (pid_label, p)))
                        fds[ret] = ("r", p)
                    else:
                        out.append((ts, "ev %s stat %s 0" % (pid_label, p)))
                continue
            if name in ("newfstatat", "stat", "lstat"):
                pa = args[1] if name == "newfstatat" else args[0]
                r = self.rel(str_arg(pa))
                if not r or r[0] in ("root", "other"):
                    continue
                ok = 1 if ret == 0 else 0
                if r[0] == "dir":
                    out.append((ts, "ev %s statdir %s %d" % (pid_label, self.dname(r[1]), ok)))
                else:
                    out.append((ts, "ev %s stat %s %d" % (pid_label, self.pname(r), ok)))
                continue
            if name in ("mkdir", "mkdirat"):
                pa = args[1] if name == "mkdirat" else args[0]
                r = self.rel(str_arg(pa))
                if r and r[0] == "dir":
                    out.append((ts, "ev %s mkdir %s" % (pid_label, self.dname(r[1]))))
                continue
            if name in ("rename", "renameat", "renameat2"):
                pa = [a for a in args if a.startswith('"')]
                a, b = self.rel(str_arg(pa[0])), self.rel(str_arg(pa[1]))
                if a and b and a[0] == "file" and b[0] == "file":
                    out.append((ts, "ev %s rename %s %s %d" % (pid_label, self.pname(a), self.pname(b), 1 if ret == 0 else 0)))
                elif a or b:
                    self.notes.append("rename across the cache boundary: %s" % raw[:200])
                continue
        flush_group()
        flush_append()
        flush_rm()
        while len(self.origin) < len(out):
            self.origin.append(last_origin)
        return out if with_ts else [l for (_, l) in out]


def snapshot(cache, canon):
    """the cache directory as `file` lines for the driver: file <path> <hex content>"""
    lines = []
    root = os.path.join(cache, "cache")
    if not os.path.isdir(root):
        return lines
    for d in sorted(os.listdir(root)):
        dp = os.path.join(root, d)
        if not os.path.isdir(dp):
            continue
        lines.append("dir %s" % canon.dname(d))
        for f in sorted(os.listdir(dp)):
            fp = os.path.join(dp, f)
            if os.path.isfile(fp):
                r = canon.rel(fp.encode())
                lines.append("file %s %s" % (canon.pname(r), open(fp, "rb").read().hex() or "-"))
    return lines


DATE_RE = re.compile(rb'("(?:human_)?date": ")[^"]*(")')


def norm_content(name, data):
    """build.json carries the build time; everything else must be byte-identical"""
    if name.endswith("build.json"):
        return DATE_RE.sub(rb"\1D\2", data)
    return data


# ------------------------------------------------------------------ reference content, Good on a real directory

COMPILED = ("binary", "build.log")


class Ref:
    """what every final-named artefact must contain, keyed by (real hash dir name, base name):
    taken from solo cold builds (and cross-checked against what python knows independently)."""

    def __init__(self):
        self.files = {}      # (dir, base) -> normalised bytes
        self.kdirs = {}      # (mode, kind, C) -> real dir name
        self.problems = []

    def learn(self, cache, key=None, text=None):
        root = os.path.join(cache, "cache")
        for d in sorted(os.listdir(root)) if os.path.isdir(root) else []:
            dp = os.path.join(root, d)
            if not os.path.isdir(dp):
                continue
            names = sorted(os.listdir(dp))
            for f in names:
                if TEMP_RE.match(f):
                    continue
                data = norm_content(f, open(os.path.join(dp, f), "rb").read())
                old = self.files.get((d, f))
                if old is not None and old != data:
                    self.problems.append("two complete builds disagree on %s/%s" % (d, f))
                self.files[(d, f)] = data
            if key and any(n.endswith(".source.cpp") for n in names) and d not in self.kdirs.values():
                self.kdirs[key] = d
        # what python knows without asking occa
        if key and text is not None and key in self.kdirs:
            d = self.kdirs[key]
            if key[1] == "s" and self.files.get((d, "string_source.cpp")) != text.encode():
                self.problems.append("string_source.cpp is not the kernel string")
            raws = [b for (dd, b) in self.files if dd == d and b.endswith(".raw_source.cpp")]
            if not raws or self.files[(d, raws[0])] != b"\n" + text.encode():
                self.problems.append("raw source is not header + newline + source")
        for (d, f), data in self.files.items():
            for probe in ("findCompilerVendor.cpp", "compilerSupportsOpenMP.cpp"):
                if f == probe:
                    want = b"\n" + open(os.path.join(REPO, "include/occa/scripts", probe), "rb").read()
                    if data != want:
                        self.problems.append("%s in the cache is not header + newline + the script" % probe)

    def role(self, d):
        names = [b for (dd, b) in self.files if dd == d]
        if "findCompilerVendor.cpp" in names:
            return "V"
        if "compilerSupportsOpenMP.cpp" in names:
            return "O"
        return None

    def src_base(self, d):
        names = [b for (dd, b) in self.files if dd == d]
        for n in names:
            if n in ("findCompilerVendor.cpp", "compilerSupportsOpenMP.cpp") or n.endswith(".source.cpp"):
                return n
        return None

    def spec_lines(self, canon):
        out = []
        for (d, f) in sorted(self.files):
            p = "%s/%s" % (canon.dname(d, self.role(d)), f)
            if f in COMPILED:
                out.append("recipe %s %s" % (p, self.src_base(d)))
            else:
                out.append("spec %s %s" % (p, self.files[(d, f)].hex() or "-"))
                if f == "output" and self.role(d) == "O":
                    out.append("spec %s %s" % (p, b"N/A".hex()))
        return out

    def cfg_lines(self, canon, key):
        mode, kind, C = key
        d = self.kdirs[key]
        names = [b for (dd, b) in self.files if dd == d]
        raw = [n for n in names if n.endswith(".raw_source.cpp")][0]
        cpp = [n for n in names if n.endswith(".source.cpp") and not n.endswith(".raw_source.cpp")][0]
        L = ["cfg openmp %d" % (mode == "OpenMP"), "cfg fromString %d" % (kind == "s"),
             "cfg kdir %s" % canon.dname(d), "cfg rawBase %s" % raw, "cfg cppBase %s" % cpp]

        def content(k, dd, b):
            if (dd, b) in self.files:
                L.append("content %s %s" % (k, self.files[(dd, b)].hex() or "-"))
        content("str", d, "string_source.cpp")
        content("raw", d, raw)
        content("cpp", d, cpp)
        content("json", d, "build.json")
        for (dd, b) in self.files:
            r = self.role(dd)
            if r == "V":
                L.append("cfg vdir %s" % canon.dname(dd, "V")) if b == "output" else None
                content("vsrc", dd, b) if b == "findCompilerVendor.cpp" else None
                content("vout", dd, b) if b == "output" else None
            elif r == "O":
                L.append("cfg odir %s" % canon.dname(dd, "O")) if b == "output" else None
                content("osrc", dd, b) if b == "compilerSupportsOpenMP.cpp" else None
                content("oout", dd, b) if b == "output" else None
        L.append("content ooutna %s" % b"N/A".hex())
        return L


def cache_state(cache):
    """-> {(dir, name): bytes} of everything below <cache>/cache"""
    st = {}
    root = os.path.join(cache, "cache")
    if not os.path.isdir(root):
        return st
    for d in os.listdir(root):
        dp = os.path.join(root, d)
        if os.path.isdir(dp):
            for f in os.listdir(dp):
                fp = os.path.join(dp, f)
                if os.path.isfile(fp):
                    try:
                        st[(d, f)] = open(fp, "rb").read()
                    except OSError:
                        pass
    return st


def cache_good(cache, ref):
    """the property's own statement on the directory: every final-named file is a complete artefact.
    -> list of offending 'dir/name: why'"""
    bad = []
    for (d, f), data in sorted(cache_state(cache).items()):
        if TEMP_RE.match(f):
            continue
        want = ref.files.get((d, f))
        if want is None:
            bad.append("%s/%s: final-named file no complete build produces" % (d, f))
        elif norm_content(f, data) != want:
            bad.append("%s/%s: %d bytes, differs from the complete artefact (%d bytes)" % (d, f, len(data), len(want)))
    return bad


def snapshot_lines(cache, canon, ref):
    """initial file system for the driver (compiled artefacts are named ok/bad, not shipped)"""
    lines = []
    st = cache_state(cache)
    for d in sorted(set(d for (d, _) in st)):
        lines.append("dir %s" % canon.dname(d, ref.role(d)))
    root = os.path.join(cache, "cache")
    if os.path.isdir(root):
        for d in sorted(os.listdir(root)):
            if os.path.isdir(os.path.join(root, d)) and not any(dd == d for (dd, _) in st):
                lines.append("dir %s" % canon.dname(d, ref.role(d)))
    for (d, f), data in sorted(st.items()):
        r = canon.rel(os.path.join(canon.cache, "cache", d, f).encode())
        name = canon.pname(r)
        base = r[3]
        if base in COMPILED:
            want = ref.files.get((d, base))
            lines.append("file %s %s" % (name, "ok" if want is not None and data == want else "bad"))
        else:
            lines.append("file %s %s" % (name, norm_content(base, data).hex() or "-"))
    return lines


# ------------------------------------------------------------------ comparing step lists

TOK_RE = re.compile(r"/([A-Za-z0-9]+):")


def normalise_steps(lines):
    """drop mkpath's directory stats, rename temp tokens by first appearance, sort exec outputs"""
    out, names = [], {}
    for l in lines:
        w = l.split()
        if len(w) > 2 and w[2] == "statdir":
            continue
        if len(w) > 4 and w[2] == "exec" and w[4] != "-":
            w[4] = ",".join(sorted(w[4].split(","), key=lambda x: x.split(":")[-1]))
        l = " ".join(w)

        def sub(m):
            t = m.group(1)
            if t not in names:
                names[t] = "T%d" % len(names)
            return "/" + names[t] + ":"
        out.append(TOK_RE.sub(sub, l))
    return out


def short(l, n=110):
    return l if len(l) <= n else l[:n] + "..."


# ------------------------------------------------------------------ kill points

def main_records(recs):
    main = recs[0][0] if recs else 0
    return [r for r in recs if r[0] == main and r[2] not in ("+++", "---")]


def kill_points(recs, cache, calls):
    """-> [(call, ordinal, relevant, description)] for every syscall of the builder of a kill type, from the
    first touch of the cache directory on.  `relevant` = the call names a cache path or an fd opened on one
    (all other calls leave the cache as it is, so killing there equals killing at the next relevant one)."""
    cache = os.path.realpath(cache)
    counts = {}
    fds = set()
    started = False
    pts = []
    for (pid, ts, name, args, ret, raw) in main_records(recs):
        counts[name] = counts.get(name, 0) + 1
        touches = False
        strs = [str_arg(a) for a in args if a.startswith('"')]
        paths = [x.decode(errors="replace") for x in strs if x is not None]
        if name in ("openat", "open", "creat", "rename", "mkdir", "newfstatat", "unlink", "rmdir", "stat", "lstat"):
            touches = any(re.sub(r"/+", "/", q).startswith(cache) for q in paths)
            if touches and name in ("openat", "open", "creat") and ret is not None and ret >= 0:
                fds.add(ret)
        elif name in ("write", "close", "fsync", "fdatasync"):
            fd = int(args[0]) if args and args[0].isdigit() else -1
            touches = fd in fds
            if name == "close":
                fds.discard(fd)
        if touches:
            started = True
        if started and name in calls:
            what = name + "(" + ", ".join(os.path.basename(q.rstrip("/")) or q for q in paths[:2]) + ")" if paths and name not in ("write",) \
                else "%s(fd)" % name
            pts.append((name, counts[name], touches, what))
    return pts
