"""C19 — @dim array access computes the documented linear index."""
import itertools
from vlib import *
from loops_common import *

META = {
    "technique": "Lean 4 theorems over a model of dim.cpp's index expansion and of dimOrder::isValid; tied to the code by (a) text "
                 "correspondence: the model prints the same rewritten access as the seven real translators, (b) execution: the "
                 "translated kernels are compiled and run, the computed address offset must equal the documented formula "
                 "evaluated natively with every argument parenthesised, (c) @dimOrder acceptance compared with the model",
    "category": "proof",
    "level_text": "Proof for every arity and every permutation order: the rewrite loop computes the documented mixed-radix index "
                  "(C19_code_is_formula, C19_index_expr_value), its text keeps index/dimension arguments of every operator class "
                  "as complete expressions (C19_index_expr_faithful), for in-range indices it is a bijection onto [0, prod D) "
                  "(C19_in_range, C19_injective, C19_surjective), and @dimOrder accepts exactly the permutations "
                  "(C19_order_valid); correspondence with the real translators for arities 1-4 (and 5-6), all permutations, "
                  "arguments from 15 operator classes, plus exhaustive in-range evaluation for small dimensions.",
    "level_note": "Trusted: Lean kernel; g++ as reference semantics of the emitted index expression; the launch emulation for the "
                  "launcher backends. Assignment / comma operators cannot occur inside a call argument list and are not covered. "
                  "int overflow of the index is outside the property.",
    "design_ref": "DESIGN.md section 4, C19",
}


class DimCase(Case):
    extra = {"host": ", emu_x", "dev": ", emu_x", "launch": ", (occa::modeMemory_t*) 0"}

    def __init__(self, kid, dims, order, args, values):
        self.kid, self.dims, self.order, self.args, self.values = kid, dims, order, args, values
        self.loops = []
        k = len(dims)
        self.body = "%d %s %s %s" % (k, " ".join(polish(d) for d in dims),
                                      "none" if order is None else " ".join(str(o) for o in order),
                                      " ".join(polish(a) for a in args))
        self.op = "D %d %s" % (kid, self.body)

    def formula(self):
        """documented index, every argument parenthesised: a[o0] + D[o0] * (a[o1] + D[o1] * ( ... a[ok]))"""
        order = self.order if self.order is not None else list(range(len(self.dims)))
        e = "(%s)" % ctext(self.args[order[-1]])
        for o in reversed(order[:-1]):
            e = "((%s) + (%s) * %s)" % (ctext(self.args[o]), ctext(self.dims[o]), e)
        return e

    def ref_body(self):
        return "  rec(%d, (long) %s);" % (self.kid, self.formula())

    def rline(self, v):
        return "DR %d %s | %s" % (self.kid, self.body, vals_line(v))

    def describe(self):
        return "@dim(%s)%s x(%s)" % (", ".join(ctext(d) for d in self.dims),
                                     "" if self.order is None else " @dimOrder(%s)" % ", ".join(map(str, self.order)),
                                     ", ".join(ctext(a) for a in self.args))

    def parse_model(self, mline):
        f = mline.split()
        if len(f) != 6 or f[0] != "idx":
            return {"error": "model: " + mline}
        tree, lin, code = int(f[1]), int(f[3]), int(f[5])
        md = {t: [(self.kid, tree)] for t in ("seq", "serial", "l32", "l64")}
        if not (tree == lin == code):
            md["error"] = "model: value of the index tree %d, linear %d, codeIndex %d differ" % (tree, lin, code)
        return md


def dim_from_op(op):
    f = op.split()
    kid, k = int(f[1]), int(f[2])
    from loops_common import loops_from_op as _l   # reuse the Polish reader through a fake loop token

    def un(tok):
        return _l("K 0 v;none;int;%s;lt;R;c0;preinc;-;-" % tok)[1][0].init
    dims = [un(t) for t in f[3:3 + k]]
    p = 3 + k
    if f[p] == "none":
        order, p = None, p + 1
    else:
        order, p = [int(x) for x in f[p:p + k]], p + k
    args = [un(t) for t in f[p:p + k]]
    return kid, dims, order, args


def V(N=0, M=0, a=0, b=0, c=0, s=1, t=1):
    return dict(N=N, M=M, a=a, b=b, c=c, s=s, t=t)


def grid_values(r, n):
    return [{v: r.choice(GRID[v]) for v in VARS} for _ in range(n)]


CORPUS = [
    # F26: index argument with an operator looser than `+`
    ("D 9201 2 c3 c5 none &,va,vb vc", [V(a=1, b=2, c=1), V(a=7, b=5, c=0), V(a=6, b=3, c=2)]),
    ("D 9202 3 c3 +,va,c1 c5 2 0 1 vN &,va,vb ?,vc,c1,c2", [V(N=1, a=3, b=2, c=0), V(N=2, a=1, b=1, c=1)]),
    ("D 9203 2 c4 c4 1 0 <<,va,c1 ||,vb,vc", [V(a=1, b=0, c=0), V(a=3, b=1, c=0)]),
    # the documented examples
    ("D 9204 2 c2 c3 none c1 c2", [V()]),
    ("D 9205 2 c2 c3 1 0 c1 c2", [V()]),
    # dimension argument with a loose operator
    ("D 9206 2 |,va,c1 c3 none vb vc", [V(a=2, b=1, c=2), V(a=4, b=0, c=1)]),
]

ORDER_CORPUS = [["0"], ["0", "1"], ["1", "0"], ["2", "0", "1"], ["0", "0"], ["0", "2"], ["-1", "0"], ["1", "2"],
                ["0", "1", "1"], ["3", "2", "1", "0"], ["0", "1", "2", "4"], ["1"], ["0+1", "0"], ["1", "1-1"], ["2", "1", "0", "0"]]


def main(argv):
    ck = Check("C19", argv)
    ck.rule = ("accesses x(i0..ik) on `int *x @dim(D0..Dk) [@dimOrder(perm)]` for arities 1-4 (thorough: -6), all permutations "
               "of each arity (quick tier: 12 of the 24 for arity 4), index and dimension arguments whose top-level operator is drawn from each of 15 C precedence "
               "classes (atoms, parenthesised, unary, cast, * / %, + -, shifts, relational, equality, &, ^, |, &&, ||, ?:), "
               "evaluated for ~8 run-time value tuples; plus, for small literal dimensions, every in-range index tuple "
               "(bijection checked on the executed values); plus @dimOrder argument lists (permutations, duplicates, "
               "out-of-range, negative, constant expressions); evaluation = one (access, value tuple, backend) run")
    ck.assumptions = ["index and dimension values stay far from int overflow", "call arguments contain no assignment or comma operator"]
    ck.trusted += ["harness/emu_launch.hpp (device scheduler emulation: for each work-group, for each work-item; index types of the real backends)",
                   "g++ 12 as the reference semantics of the emitted C++ text and of the native sequential loop",
                   "the C expression grammar of OccaProofs/Lemmas/ExprGrammar.lean is unambiguous (not proved)"]
    ck.translate(["gen_loops"])
    ck.prove("C19")
    hb = ck.harness("h_dim")
    db = ck.driver("drv_loop")
    r = ck.rng
    cases = []
    if ck.replay:
        cur = None
        for l in read_replay(ck.replay):
            if l.startswith("D "):
                kid, dims, order, args = dim_from_op(l)
                cur = DimCase(kid, dims, order, args, [])
                cases.append(cur)
            elif l.startswith("V ") and cur is not None:
                cur.values.append(dict(zip(VARS, (int(x) for x in l.split()[1:8]))))
        for c in cases:
            if not c.values:
                c.values = grid_values(r, 8)
    else:
        for op, vals in CORPUS:
            kid, dims, order, args = dim_from_op(op)
            cases.append(DimCase(kid, dims, order, args, vals))
        kid = 0
        maxk = 4 if ck.tier == "quick" else 6
        reps = 1 if ck.tier == "quick" else 5
        for k in range(1, maxk + 1):
            perms = list(itertools.permutations(range(k)))
            if k > 4:
                perms = r.sample(perms, 40)
            elif k == 4 and ck.tier == "quick":
                perms = r.sample(perms, 12)         # all 24 in the thorough tier
            for rep in range(reps):
                for pi, perm in enumerate([None] + perms):
                    kid += 1
                    cls = lambda j: CLASSES[(kid * 3 + j * 5 + rep) % len(CLASSES)]
                    args = [gen_expr(r, cls(j), 1) for j in range(k)]
                    dims = [gen_expr(r, cls(j + 7), 1) if (kid + j) % 3 == 0 else ("c", r.randint(1, 6)) for j in range(k)]
                    cases.append(DimCase(kid, dims, None if perm is None else list(perm), args, grid_values(r, 8)))
        # exhaustive in-range tuples for small literal dimensions: the executed indices must be a bijection onto [0, prod)
        bij = []
        for k, D in ((2, [2, 3]), (3, [2, 3, 2]), (3, [3, 1, 2]), (4, [2, 2, 1, 3])):
            for perm in ([None] + r.sample(list(itertools.permutations(range(k))), min(3, len(list(itertools.permutations(range(k))))))):
                kid += 1
                names = ["a", "b", "c", "N"][:k]
                vals = []
                for tup in itertools.product(*[range(d) for d in D]):
                    e = V()
                    for nme, x in zip(names, tup):
                        e[nme] = x
                    vals.append(e)
                c = DimCase(kid, [("c", d) for d in D], None if perm is None else list(perm), [("v", n) for n in names], vals)
                c.bijection = D
                cases.append(c)
                bij.append(c)
    res = run_cases(ck, hb, db, cases, "dim", batch=120, hist=10)
    # @dimOrder acceptance
    if hb and db and not ck.replay:
        lists = list(ORDER_CORPUS)
        for _ in range(12 if ck.tier == "quick" else 120):
            k = r.randint(1, 5)
            kind = r.random()
            if kind < 0.4:
                o = list(range(k)); r.shuffle(o)
            elif kind < 0.7:
                o = [r.randint(0, k - 1) for _ in range(k)]
            else:
                o = [r.randint(-1, k) for _ in range(k)]
            lists.append([str(x) for x in o])
        hs = [["DO " + " ".join(l)] for l in lists]
        ms = [["DO " + " ".join(str(eval(x)) for x in l)] for l in lists]     # the model sees the evaluated constants
        impl, ora, _ = ck.run_impl(hb, hs, timeout=1200, env=HENV)
        model = ck.run_model(db, ms)
        ck.cov["counters"]["dimorder_lists"] = len(lists)
        ck.cov["counters"]["dimorder_accepted"] = sum(1 for x in impl if x == ["accept"])
        ck.cov["evaluations"] += len(lists)
        for h, im, mo, orc in zip(hs, impl, model, ora):
            want = sorted(int(eval(x)) for x in h[0].split()[1:]) == list(range(len(h[0].split()) - 1))
            oracles = list(orc)
            if im and im[0] in ("accept", "reject") and (im[0] == "accept") != want:
                oracles.append("@dimOrder(%s) is %sed but is %sa permutation" % (", ".join(h[0].split()[1:]), im[0], "" if want else "not "))
            if (im != mo or oracles) and len(ck.violations) < 12:
                ck.report_failure("dimOrder", h, im, mo, oracles)
    ck.finish(META["level_text"])
