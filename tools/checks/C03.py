"""C03 — Memory-pool reservations never overlap and keep their contents."""
from pool_common import *

META = {
    "technique": "Lean 4 invariant + refinement proofs over a loop-by-loop model of modeMemoryPool_t (reserve / resize / setAlignment / add- and removeModeMemoryRef) whose repaired-statement flags are regenerated from the C++; differential run of model vs the real occa::memoryPool under ASan/UBSan with disjointness / read-back oracles",
    "category": "proof",
    "level_text": "Proof over all finite histories of pool operations (any sizes, alignments, fragmentation): layout invariant (sorted, inside the pool, different allocations byte-disjoint), contents and aliasing preserved by every non-writing operation including packing on resize/shrinkToFit/setAlignment and growth inside reserve; tied to the code by flags and rounding expressions regenerated from memoryPool.cpp and by a seeded differential run of the real pool (Serial and OpenMP) against the model with model-independent oracles.",
    "level_note": "Trusted: Lean kernel; translate/gen_pool.py (regex extraction of the statement variants); the hand-written model OccaModel/Pool.lean (validated by the correspondence run, not proved equal to the C++); Serial/OpenMP backends only (setPtr/memcpy of the GPU backends are not exercised); dim_t overflow and negative slice offsets excluded.",
    "design_ref": "DESIGN.md section 4, C03/C04/C05",
}


def main(argv):
    run_pool_check("C03", META, "layout", argv, 700, 30000)
