"""C24 — JSON dump and parse round-trip every value."""
from vlib import *
from jsongen import *

META = {
    "technique": "Lean 4 model of json::dumpToString (every indentation) and of the recursive-descent loader on a NUL-terminated byte list, with primitive::toString/load for the integer and boolean types; round trip proved by structural induction; differential run of the model against the real occa::json under ASan/UBSan, floats included through exact decimal arithmetic on the bit patterns",
    "category": "proof",
    "level_text": "Proof, for all JSON trees, indentations and trailing delimiters: parse(dump(v)) succeeds and == v for values whose strings/keys are NUL-free, keys non-empty, numbers of any bool/integer type without source text (C24_roundtrip; the value read back has the same mathematical value, prints the same text and has the same hash: C24_number_value_preserved, C24_reparse_same_text; the model's recursion budget is never exhausted on any text: C24_fuel_never_exhausted), dump is a function of the value with std::map order canonical (C24_obj_canonical, C24_insert_commutes, C24_dump_deterministic, C24_hash_deterministic); the model's constants and code shapes are re-checked against tables regenerated from the source (gen_json, JsonGenTie); float-typed numbers, numbers carrying source text and arbitrary input text are covered by the correspondence run only; NUL bytes, NaN/Inf and empty keys are recorded findings with refutation theorems.",
    "level_note": "Trusted: Lean kernel; the hand-written model lean/OccaModel/Json.lean + JsonFloat.lean (validated against the real code by the correspondence run, not proved equal to the C++); harness/h_json.cpp and its oracles; glibc printf/scanf as the meaning of float text. The model is of the repaired code (fixes/F28, FJ1, FJ5); values containing none_ nodes are outside the property's quantifier.",
    "design_ref": "DESIGN.md section 4, C24",
}

INDENTS = [-1, 0, 0, 1, 2, 2, 3, 4, 8]


def gen_history(r, thorough=False):
    h = []
    o = TreeOpts(none=0.02 if r.random() < 0.3 else 0.0)
    for _ in range(r.randint(4, 9)):
        k = r.random()
        depth = r.choice([0, 1, 2, 3, 4, 5]) if thorough else r.choice([0, 1, 2, 2, 3, 4])
        if k < 0.62:
            t = rtree(r, depth, 5, o)
            h.append("rt %d %s" % (r.choice(INDENTS), " ".join(t)))
        elif k < 0.72:
            t = rtree(r, depth, 4, TreeOpts())
            u = shuffled(r, t)
            h.append("eq %s %s" % (" ".join(t), " ".join(u)))
        elif k < 0.78:
            a = rtree(r, min(depth, 2), 3, TreeOpts(parsed=False))
            b = rtree(r, min(depth, 2), 3, TreeOpts(parsed=False)) if r.random() < 0.7 else list(a)
            if not any(x.startswith("f") and ":" in x for x in a + b):      # == on mixed int/float operands is C14's subject
                h.append("eq %s %s" % (" ".join(a), " ".join(b)))
        else:
            h.append("parse " + hx(jtext(r, 3, broken=0.5)))
    return h


def T(s):
    return hx(s.encode())


CORPUS = [
    # F28 (fixed): keys with quote / backslash / control characters
    ["rt 0 O1 %s i32:1" % T('a"b'), "rt 2 O2 %s T %s Z" % (T("a\\"), T("\n\t\"\\/")), "rt 0 O1 %s O1 %s S:%s" % (T('"'), T("\\\""), T('"'))],
    # FJ5 (fixed): unclosed objects, nested (heap-buffer-overflow before the fix) and at top level
    ["parse " + T("[" + " " * 40 + "{"), "parse " + T('{"' + "a" * 40 + '": {"b":1,'), "parse " + T("{"), "parse " + T('{"a":1,')],
    # FJ7 (fixed): sign, blanks, then a decimal: the whole text went to sscanf, which fails and left the value uninitialised
    ["parse " + T("[- 5.0]"), "parse " + T("-  2.5e3"), "parse " + T("{a: - 1.5f, b: -\t0.25}"), "rt 0 A2 P:%s P:%s" % (T("- 5.0"), T("-  7.5f"))],
    # F29a NUL byte in a string / key (known finding)
    ["rt 0 S:610062"],
    ["rt 2 O1 6b0078 i32:1"],
    # F29b NaN / Inf (known finding)
    ["rt 0 A2 f64:7ff0000000000000 i32:1"],
    ["rt 0 f32:7fc00000"],
    ["rt 0 O1 61 f64:fff0000000000000"],
    # FJ4 empty key (known finding)
    ["rt 0 O1 - i32:1"],
    # none_ members: outside the quantifier, compared with the model only
    ["rt 0 O1 61 N", "rt 0 A2 N i32:1", "rt 2 N"],
    # numeric types and extremes
    ["rt 0 A9 i8:-128 u8:255 i16:-32768 u16:65535 i32:-2147483648 u32:4294967295 i64:-9223372036854775808 u64:18446744073709551615 u64:9223372036854775808"],
    ["rt 0 A6 f64:0000000000000001 f64:7fefffffffffffff f64:8000000000000000 f32:00000001 f32:7f7fffff f32:80000000"],
    ["rt 0 A4 P:30783146 P:2d37 P:312e35 P:31652d3366"],
    # empty containers at every indentation
    ["rt 0 A2 A0 O0", "rt 3 A2 A0 O0", "rt -1 O1 61 O1 62 A0"],
    # escapes, \u passthrough, both quotes
    ["rt 1 S:%s" % T('\\u00e9 \\n "q" \'s\' \b\f\r'), "parse " + T("'it''s'"), "parse " + T('"a\\u12g4"'), "parse " + T('"abc')],
    ["parse " + T("{a: 1, b : [1, 2,], 'c': null,}"), "parse " + T("// c\n5"), "parse " + T("[1 2]"), "parse " + T('{"a" 1}'), "parse " + T("nul")],
]


def main(argv):
    ck = Check("C24", argv)
    ck.rule = ("stateless histories of: rt = build a random tree (depth<=5, width<=5; strings and keys over bytes 1..255 with "
               "quote, backslash, slash, control characters, UTF-8 and \\u sequences boosted; numbers of every primitive type incl. "
               "extremes, random float bit patterns, numbers loaded from text) through the occa::json API, dump at indentation "
               "-1..8, parse back, compare, hash; eq = the same value with members inserted in another order / an unrelated value; "
               "parse = JSON text in occa's dialect (bare keys, single quotes, comments, trailing commas) with random truncations "
               "and single-character edits.  A history is non-trivial if the implementation produced a non-error observation; "
               "distinct by SHA-1 of the op text.  Triggers of the known findings (NUL bytes, NaN/Inf, empty keys) are generated "
               "only by the corpus entries.")
    ck.assumptions = ["LP64, two's complement, IEEE-754 binary32/64", "glibc printf/scanf rounding (round-half-even on the exact value)",
                      "json text reaches the parser as a NUL-terminated buffer (std::string::c_str())"]
    ck.translate(["gen_hash", "gen_json"])
    ck.prove("C24")
    hb = ck.harness("h_json")
    db = ck.driver("drv_json")
    if ck.replay:
        hs = [read_replay(ck.replay)]
    else:
        n = 1500 if ck.tier == "quick" else 15000
        hs = CORPUS + [gen_history(ck.rng, ck.tier == "thorough") for _ in range(n)]
    ck.correspond(hb, db, hs, label="json", ubsan_is_violation=r"types/json\.|types/primitive\.|utils/lex\.|utils/string\.")
    c = ck.cov["counters"]
    c["rt_ops"] = sum(1 for h in hs for l in h if l.startswith("rt "))
    c["parse_ops"] = sum(1 for h in hs for l in h if l.startswith("parse "))
    c["eq_ops"] = sum(1 for h in hs for l in h if l.startswith("eq "))
    ck.finish(META["level_text"])
