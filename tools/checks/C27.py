"""C27 — hash_t strings are faithful and hashing has no undefined behaviour."""
from vlib import *

META = {
    "technique": "Lean 4 theorems over a model of hash_t whose constants, lane update and hex-digit functions are regenerated from the C++ (clang AST); differential run of model vs real hash_t under ASan/UBSan",
    "category": "proof",
    "level_text": "Proof for all hash values and all getString/assign/xor histories (C27_full_roundtrip, C27_short_is_prefix, C27_hash_wellformed, C27_xor_wellformed) plus the AST-level obligation that the lane arithmetic is unsigned; tied to the code by the regenerated tables and by a seeded differential run of the real hash_t against the model, with UBSan watching hash.cpp.",
    "level_note": "Trusted: Lean kernel; translate/gen_hash.py (clang-14 AST -> Lean for the lane step and toHexChar/fromHexChar, regex for the constants); the hand-written loops of hash(), toHex, fromHex and the getString cache in OccaModel/Hash.lean (validated by the correspondence run, not proved equal to the C++); LP64 two's complement; UB other than what UBSan detects is not covered.",
    "design_ref": "DESIGN.md section 4, C27",
}

ZERO = [0] * 8


def rlanes(r):
    k = r.random()
    if k < 0.2:
        return list(ZERO)
    if k < 0.3:
        return [r.choice([0, -1, 2**31 - 1, -2**31, 1]) for _ in range(8)]
    return [r.randint(-2**31, 2**31 - 1) for _ in range(8)]


def rbytes(r):
    n = r.choice([0, 1, 2, 3, 7, 8, 9, 31, 32, 33, 64, 100, 300]) if r.random() < 0.5 else r.randint(0, 300)
    mode = r.random()
    if mode < 0.3:
        bs = [r.randint(0x80, 0xff) for _ in range(n)]
    elif mode < 0.5:
        bs = [r.choice([0, 0xff, 0x7f, 0x80]) for _ in range(n)]
    else:
        bs = [r.randint(0, 255) for _ in range(n)]
    return "".join("%02x" % b for b in bs) or "-"


def rhexstr(r):
    k = r.random()
    alpha = "0123456789abcdef"
    if k < 0.5:
        s = "".join(r.choice(alpha) for _ in range(64))
    elif k < 0.6:
        s = "".join(r.choice(alpha + "ABCDEF") for _ in range(64))
    elif k < 0.8:
        s = "".join(r.choice(alpha) for _ in range(r.choice([0, 1, 2, 15, 16, 17, 63, 65, 66, 128, 130])))
    else:
        s = "".join(r.choice(alpha + "gzGZ @/~") for _ in range(r.randint(0, 70)))
    return "".join("%02x" % ord(c) for c in s) or "-"


def L(l):
    return " ".join(str(x) for x in l)


def gen_history(r):
    h = []
    for _ in range(r.randint(3, 14)):
        k = r.random()
        if k < 0.25:
            h.append("H " + rbytes(r))
        elif k < 0.40:
            h.append("F " + L(rlanes(r)))
        elif k < 0.50:
            h.append("P " + rhexstr(r))
        elif k < 0.505:
            h.append("MT " + L(rlanes(r)))
        elif k < 0.58:
            a = rlanes(r)
            b = a if r.random() < 0.4 else rlanes(r)
            h.append("X " + L(a) + " " + L(b))
        else:
            # object protocol burst
            cur = rlanes(r)
            h.append("new " + L(cur))
            for _ in range(r.randint(1, 6)):
                q = r.random()
                if q < 0.4:
                    h.append("get")
                elif q < 0.6:
                    h.append("asg " + L(rlanes(r)))
                elif q < 0.8:
                    h.append("xor " + L(cur if r.random() < 0.5 else rlanes(r)))
                else:
                    h.append("set " + L(rlanes(r)))
            h.append("get")
    return h


CORPUS = [
    ["new 0 0 0 0 0 0 0 0", "get"],                                   # F31: zero hash, nothing cached
    ["new 5 6 7 8 9 10 11 12", "get", "asg 0 0 0 0 0 0 0 0", "get"],   # F31: stale string after assigning zero
    ["new 1 2 3 4 5 6 7 8", "get", "xor 1 2 3 4 5 6 7 8", "get"],      # h ^ h
    ["H ff", "H 80", "H -", "H 00"],
    ["X 1 2 3 4 5 6 7 8 1 2 3 4 5 6 7 8"],
    ["H 616263", "H 61", "H 6162636465"],      # odd lengths in exact-size buffers
    ["MT 1 2 3 4 5 6 7 8"],
]


def main(argv):
    ck = Check("C27", argv)
    ck.rule = ("histories of hash_t operations (hash of random byte strings incl. bytes >= 0x80, full/short strings of "
               "random and extreme lane values, fromString of well- and ill-formed text, xor incl. h^h, getString cache "
               "protocol); a history is non-trivial if the implementation produced at least one non-error observation; "
               "distinct by SHA-1 of the op text")
    ck.assumptions = ["LP64, two's complement", "input to fromString is a std::string (NUL-terminated buffer)"]
    ck.translate(["gen_hash"])
    ck.prove("C27")
    hb = ck.harness("h_hash")
    db = ck.driver("drv_hash")
    if ck.replay:
        hs = [read_replay(ck.replay)]
    else:
        n = 400 if ck.tier == "quick" else 20000
        hs = CORPUS + [gen_history(ck.rng) for _ in range(n)]
    ck.correspond(hb, db, hs, label="hash_t", timeout=1500, ubsan_is_violation=r"src/utils/hash\.cpp|occa/utils/hash\.hpp|internal/utils/string\.hpp")
    # cross-process determinism: the same byte strings hashed by a second process
    if hb and not ck.replay:
        probe = [["H " + rbytes(ck.rng) for _ in range(50)]]
        a, _, _ = ck.run_impl(hb, probe)
        b, _, _ = ck.run_impl(hb, probe)
        ck.cov["counters"]["cross_process_hashes"] = 50
        if a != b:
            ck.oracle_violation("hash of equal bytes differs between two processes", "\n".join(probe[0]))
    ck.finish(META["level_text"])
