"""Generators shared by C10.py and C11.py: random dtype trees, dtype JSON (valid and mutated),
kernel metadata and argument lists, in the line protocol of harness/h_dtype.cpp / lean/Driver/Dtype.lean.
All randomness comes from the `random.Random` handed in (ck.rng)."""
import os, re

NAMES = ["", "a", "b", "x", "y", "foo", "n_1", "v2"]           # field / struct / argument names
CUSTOM = ["myc", "vec", "T_1", "a", "", "cplx"]                # custom leaf names (never a builtin key)
ENUMS = ["r", "g", "b", "k0", "k1", ""]


def hx(s):
    return "".join("%02x" % b for b in s.encode()) or "-"


def builtin_keys():
    """keys of dtype_t::getBuiltin as the translator extracted them (lean/OccaGen/Builtins.lean)"""
    here = os.path.dirname(os.path.dirname(os.path.dirname(os.path.abspath(__file__))))
    txt = open(os.path.join(here, "lean", "OccaGen", "Builtins.lean")).read()
    m = re.search(r"def builtinMap : List \(String × String\) := \[(.*?)\]\n", txt, re.S)
    return [a for a, _ in re.findall(r'\("([^"]+)", "([^"]+)"\)', m.group(1))]


class TreeGen:
    """builds dtype trees bottom-up in the slot vector of one history"""

    def __init__(self, r, keys, max_depth=4, max_width=4):
        self.r, self.keys = r, keys
        self.max_depth, self.max_width = max_depth, max_width
        self.ops = []
        self.depth = []      # per slot
        self.kind = []       # per slot: 'B','C','E','T','S','U'
        self.leaves = []     # per slot: approximate flattened length (kept small)

    def n(self):
        return len(self.depth)

    def push(self, op, kind, depth, leaves):
        self.ops.append(op)
        self.depth.append(depth)
        self.kind.append(kind)
        self.leaves.append(leaves)
        return self.n() - 1

    def leaf(self):
        r = self.r
        k = r.random()
        if k < 0.50:
            key = r.choice(self.keys) if r.random() < 0.9 else r.choice(["nope", "size_t", "memory", "Float"])
            vec = re.fullmatch(r"u?(char|short|int|long|float|double)([234])", key)
            return self.push("B " + key, "B", 2 if vec else 1, int(vec.group(2)) if vec else 1)
        if k < 0.82:
            return self.push("C %s %d %d" % (hx(r.choice(CUSTOM)), r.choice([0, 1, 4, 12, 16]), r.random() < 0.4), "C", 1, 1)
        n = r.choice([0, 1, 2, 3])
        es = r.sample(ENUMS, n)
        if n >= 2 and r.random() < 0.08:
            es[-1] = es[0]                      # duplicate enumerator: occa::exception, nothing is pushed
            self.ops.append("E %s %d %d %s" % (hx(r.choice(NAMES)), r.choice([0, 4]), n, " ".join(hx(e) for e in es)))
            return None
        return self.push(("E %s %d %d %s" % (hx(r.choice(NAMES)), r.choice([0, 4, 4, 8]), n, " ".join(hx(e) for e in es))).rstrip(),
                         "E" if n else "C", 1, 1)

    def pick(self, max_depth):
        c = [i for i in range(self.n()) if self.depth[i] <= max_depth and self.leaves[i] <= 64]
        return self.r.choice(c) if c else None

    def composite(self):
        r = self.r
        k = r.random()
        if k < 0.35:
            s = self.pick(self.max_depth - 1)
            if s is None:
                return self.leaf()
            size = r.choice([1, 2, 2, 3, 4, 4, 0, -1]) if r.random() < 0.9 else r.choice([5, 7, -3])
            return self.push("T %d %d" % (s, size), "T", self.depth[s] + 1, self.leaves[s] * max(size, 0))
        if k < 0.45:
            s = self.pick(self.max_depth)
            return self.leaf() if s is None else self.push("Y %d" % s, self.kind[s], self.depth[s], self.leaves[s])
        op = "S" if k < 0.85 else "U"
        w = r.choice([0, 1, 1, 2, 2, 3, 4][: self.max_width + 3])
        names = r.sample(NAMES, w)
        dup = w >= 2 and r.random() < 0.06
        if dup:
            names[-1] = names[0]
        fs, d, lv, bad = [], 0, 0, dup
        for nm in names:
            s = self.pick(self.max_depth - 1)
            if s is None:
                s = self.leaf()
                if s is None:
                    continue
            ts = 1 if r.random() < 0.7 else r.choice([2, 3, 4, 0, -1])
            bad = bad or ts <= 0
            fs.append("%s %d %d" % (hx(nm), s, ts))
            d = max(d, self.depth[s] + (1 if ts != 1 else 0))
            lv += self.leaves[s] * max(ts, 0)
        line = ("%s %s %d %s" % (op, hx(r.choice(NAMES)), len(fs), " ".join(fs))).rstrip()
        if bad:
            self.ops.append(line)               # exception: nothing pushed
            return None
        kind = op if (fs or op == "U") else "C"
        return self.push(line, kind, d + 1 if fs else 1, lv)

    def grow(self, steps):
        for _ in range(steps):
            if self.n() < 2 or self.r.random() < 0.45:
                self.leaf()
            else:
                self.composite()


def near_rep_ops(r, g):
    """structs / tuples whose flattening is an exact repetition of a small dtype, and the same with ONE
    entry (often the last) replaced: the boundary of isCyclic's loops.  Appends to g; returns new slots."""
    new = []
    b = g.pick(2)
    o = g.pick(2)
    if b is None or o is None or g.leaves[b] == 0 or g.leaves[b] > 8:
        return new
    n = r.choice([2, 3, 3, 4])
    for odd in ([None] if r.random() < 0.3 else [None, r.choice([n - 1, n - 1, 0, r.randrange(n)])]):
        names = r.sample(NAMES, n)
        fs = ["%s %d 1" % (hx(names[i]), o if i == odd else b) for i in range(n)]
        lv = sum(g.leaves[o if i == odd else b] for i in range(n))
        new.append(g.push("S %s %d %s" % (hx(r.choice(NAMES)), n, " ".join(fs)), "S",
                          max(g.depth[b], g.depth[o]) + 1, lv))
    if r.random() < 0.5:
        new.append(g.push("T %d %d" % (b, n), "T", g.depth[b] + 1, g.leaves[b] * n))
    return [b, o] + new


# ---------------------------------------------------------------- JSON in the protocol syntax
def jtok(v):
    if v is None:
        return "n"
    if isinstance(v, bool):
        return "b1" if v else "b0"
    if isinstance(v, int):
        return "i%d" % v
    if isinstance(v, str):
        return "s" + hx(v)
    if isinstance(v, list):
        return "[" + ",".join(jtok(x) for x in v) + "]"
    return "{" + ",".join("%s:%s" % (hx(k), jtok(x)) for k, x in v.items()) + "}"


def rjson(r, keys, depth):
    """a valid dtype JSON (as a python value)"""
    k = r.random()
    if depth <= 1 or k < 0.35:
        q = r.random()
        if q < 0.5:
            return {"type": "builtin", "name": r.choice([x for x in keys if x != "none"])}
        if q < 0.8:
            return {"type": "custom", "name": r.choice(CUSTOM), "bytes": r.choice([0, 1, 4, 12])}
        j = {"type": "enum", "enumerators": [{"name": e} for e in r.sample(ENUMS, r.randint(0, 3))]}
        if r.random() < 0.6:
            j["bytes"] = r.choice([0, 4])
        if r.random() < 0.3:
            j["name"] = r.choice(NAMES)
        return j
    if k < 0.6:
        j = {"type": "tuple", "dtype": rjson(r, keys, depth - 1), "size": r.choice([1, 2, 3, 4, 0, -1])}
    else:
        j = {"type": r.choice(["struct", "struct", "union"]),
             "fields": [{"name": nm, "dtype": rjson(r, keys, depth - 1)} for nm in r.sample(NAMES, r.randint(0, 3))]}
    if r.random() < 0.3:
        j["name"] = r.choice(NAMES)
    return j


def objects_of(j, acc, is_dtype=True):
    """all object nodes with a flag: is it a dtype object (then its "name" stays a string)"""
    if isinstance(j, dict):
        acc.append((j, is_dtype))
        for k, v in j.items():
            objects_of(v, acc, k == "dtype")
    elif isinstance(j, list):
        for v in j:
            objects_of(v, acc, False)
    return acc


def mutate(r, j):
    objs = objects_of(j, [])
    o, is_dtype = r.choice(objs)
    ks = list(o.keys())
    k = r.random()
    if k < 0.3 and ks:
        del o[r.choice(ks)]
    elif k < 0.65 and ks:
        key = r.choice(ks)
        choices = [3, 0, -2, True, False, "x", "", [], {}, "builtin", "tuple", "struct", "int", "nope"]
        if not (is_dtype and key == "name"):
            choices.append(None)                # explicit null: never as a dtype's own name
            o[key] = r.choice(choices)
        else:
            o[key] = r.choice(["x", "", "float", "nope"])
    elif k < 0.8:
        o["type"] = r.choice(["builtin", "custom", "enum", "struct", "tuple", "union", "Struct", ""])
    elif k < 0.9 and isinstance(o.get("fields"), list) and o["fields"]:
        o["fields"].append(dict(r.choice(o["fields"])))         # duplicate field name
    elif isinstance(o.get("enumerators"), list) and o["enumerators"]:
        o["enumerators"].append(dict(r.choice(o["enumerators"])))
    else:
        o[r.choice(["size", "bytes", "extra"])] = r.choice([2, True, "3", None])
    return j


# ---------------------------------------------------------------- kernel metadata and argument lists
def meta_ops(r, g, nargs=None):
    """ops building a kernel metadata over the slots of TreeGen g; returns (ops, [(isPtr, slot)])"""
    ops, sig = [], []
    if r.random() < 0.8:
        ops.append("KN " + hx(r.choice(["k", "kern", "", "a"])))
    n = r.choice([0, 1, 1, 2, 2, 3, 4]) if nargs is None else nargs
    for _ in range(n):
        s = g.pick(g.max_depth)
        if s is None:
            s = g.leaf()
            if s is None:
                continue
            ops.append(g.ops[-1])
        ptr = r.random() < 0.6
        ops.append("KA %d %d %d %s" % (r.random() < 0.5, ptr, s, hx(r.choice(NAMES))))
        sig.append((ptr, s))
    k = r.random()
    if k < 0.12:
        ops.append("KI 0")
    elif k < 0.2:
        ops.append("KI 1")
    return ops, sig


def arg_list(r, g, sig):
    """one argument list for signature `sig`: mostly plausible, with every kind of mismatch"""
    mode = r.random()
    args = []
    for ptr, s in sig:
        q = r.random()
        if mode < 0.35 or q < 0.6:       # matching kind
            if ptr:
                if q < 0.15:
                    args.append(r.choice(["z", "u"]))
                elif q < 0.6:
                    args.append("m%d" % s)
                else:
                    args.append("m%d" % r.randrange(g.n()))
            else:
                args.append(r.choice(["s", "d", "h"]) if q > 0.1 else "s")
        else:
            args.append(r.choice(["s", "d", "h", "z", "u", "m%d" % r.randrange(g.n())]))
    c = r.random()
    if c < 0.12 and args:
        args.pop(r.randrange(len(args)))
    elif c < 0.24:
        args.insert(r.randint(0, len(args)), r.choice(["s", "z", "m%d" % r.randrange(g.n())]))
    return args
