"""C07 — Editing an included header always invalidates stale cached kernels."""
import concurrent.futures
from vlib import *
from cachekey_lib import *

META = {
    "technique": "Lean 4 theorems over a model of device::applyDependencyHash, dependency recording and cache lookup (parameters: hash, JSON encoder, hash rendering, directory naming, include scanner, compiler); histories of header edits interleaved with real builds, every build in a fresh process sharing one cache directory, compared with the model instantiated with the exact hash_t / json-dump models and judged by an independent include expander",
    "category": "proof",
    "level_text": "Proof over all finite histories of file writes/removals and builds from an empty cache: the key resolution terminates within (number of cache entries + 1) steps for EVERY hash function (C07_resolve_terminates); with injective hash/encoder/rendering/directory naming it never reports a chain error (C07_no_chain_error), a cache hit means every recorded dependency still has its recorded hash and runs exactly the binary the compiler would produce now from the configuration and the current contents of all transitively included files (C07_hit_is_fresh), and every completed build, hit or miss, is current (C07_every_build_current); the same with the encoder instantiated by the model of json::dumpToString, whose injectivity is proved on well-formed values (C07_every_build_current_dump); without assuming an injective hash: a stale, wrongly rejected or chain-failing build needs a collision of the hash function or of the 16-character directory names (C07_stale_build_needs_collision, and C07_exact_stale_build_needs_collision for the exact hash_t/dump model with the driver's include scanner); the historical xor chaining diverges for every hash function (C07_fold_chaining_diverges). Tied to the code by the regenerated chain shape (combinator, rendering, loop, visited guard: C07_table_shape) and by real multi-process build histories (content change, include added/removed, revert, two headers made equal, two headers swapped, file removed/restored) whose kernel outputs must encode the current #defines of all headers and whose hit/miss and exact 256-bit key must agree with the model; a hang or crash of a build is a violation.",
    "level_note": "Trusted: Lean kernel; translate/gen_cachekey.py; the hand-written model of the loop, of dependency recording and of the build pipeline (validated per build: hit/miss, exact 256-bit key, and the predicted closure mapped to kernel outputs); the compiler as a deterministic function of (key-relevant configuration, expansion); hash / directory-name injectivity are idealisations (64-bit directory names); scope: OKL builds (okl/enabled) with strict headers, files edited between — not during — builds, builds that run to completion (crashes: C08), headers resolved by the OKL preprocessor (kernels built with okl/enabled false, and headers only the C++ compiler finds, are not tracked by occa: known finding C07-K1, replayed on every run).",
    "design_ref": "DESIGN.md section 4, C07",
}

NH = 4          # headers h0..h3, slots V0..V3


def src_text(paths, included):
    s = "".join('#include "%s"\n' % paths[i] for i in included)
    for k in range(NH):
        s += "#ifndef V%d\n#define V%d 0\n#endif\n" % (k, k)
    s += ("@kernel void f(int *out) {\n  for (int i = 0; i < 1; ++i; @outer) {\n    for (int j = 0; j < 1; ++j; @inner) {\n"
          "      out[0] = V0; out[1] = V1; out[2] = V2; out[3] = V3; out[4] = 0; out[5] = 0; out[6] = 0; out[7] = 7;\n    }\n  }\n}\n")
    return s


def angle_src_text(paths, included):
    """the OKL kernel with its project headers named in the angle-bracket form (absolute paths)"""
    return src_text(paths, included).replace('#include "', '#include <').replace('.h"\n', '.h>\n')


def cpp_src_text(paths, included):
    """the same kernel as plain C++ (built with okl/enabled: false): the C++ compiler expands the includes"""
    s = "".join('#include "%s"\n' % paths[i] for i in included)
    for k in range(NH):
        s += "#ifndef V%d\n#define V%d 0\n#endif\n" % (k, k)
    s += ('extern "C" void f(int *out) {\n  out[0] = V0; out[1] = V1; out[2] = V2; out[3] = V3; '
          'out[4] = 0; out[5] = 0; out[6] = 0; out[7] = 7;\n}\n')
    return s


class Hist:
    """a history in terms of abstract file indices; `ops` is a list of
       ("write", i, text) | ("rm", i) | ("src", included) | ("build",)"""

    def __init__(self, ops):
        self.ops = ops


def header_text(slot, val, incs, paths):
    return "#define V%d %d\n" % (slot, val) + "".join('#include "%s"\n' % paths[j] for j in incs)


def gen_history(r, nbuilds):
    """abstract history with placeholder paths P0..P3 (replaced by real paths at run time)"""
    paths = ["@P%d@" % i for i in range(NH)]
    files = {}
    versions = {i: [] for i in range(NH)}
    counter = [0]
    ops = []

    def put(i, text):
        files[paths[i]] = text
        if text not in versions[i]:
            versions[i].append(text)
        ops.append(("write", i, text))

    def fresh():
        counter[0] += 1
        return counter[0]

    def acyclic_with(i, text):
        f = dict(files)
        f[paths[i]] = text
        return not reaches(f, paths[i], paths[i])

    included = sorted(r.sample(range(NH), r.randint(1, 2)))
    ops.append(("src", included))
    for i in range(NH):
        incs = [j for j in range(i + 1, NH) if r.random() < 0.3]
        put(i, header_text(i, fresh(), incs, paths))
    ops.append(("build",))
    builds = 1
    while builds < nbuilds:
        for _ in range(r.randint(1, 3)):
            k = r.random()
            i = r.randrange(NH)
            cur = files.get(paths[i])
            if k < 0.22:                                    # content change
                slot = int(re.match(r"#define V(\d)", cur).group(1)) if cur else i
                incs = [paths.index(p) for p in includes_of(cur)] if cur else []
                put(i, header_text(slot, fresh(), incs, paths))
            elif k < 0.36 and cur is not None:              # include added / removed
                incs = [paths.index(p) for p in includes_of(cur)]
                j = r.randrange(NH)
                if j in incs:
                    incs.remove(j)
                elif j != i:
                    incs.append(j)
                slot = int(re.match(r"#define V(\d)", cur).group(1))
                val = int(re.match(r"#define V\d (\d+)", cur).group(1))
                t = header_text(slot, val, incs, paths)
                if acyclic_with(i, t):
                    put(i, t)
            elif k < 0.52 and versions[i]:                  # revert to earlier contents
                t = r.choice(versions[i])
                if acyclic_with(i, t):
                    put(i, t)
            elif k < 0.68:                                  # make two headers equal
                j = r.randrange(NH)
                if j != i and files.get(paths[j]) is not None and acyclic_with(i, files[paths[j]]):
                    put(i, files[paths[j]])
            elif k < 0.84:                                  # swap two headers
                j = r.randrange(NH)
                a, b = files.get(paths[i]), files.get(paths[j])
                if j != i and a is not None and b is not None:
                    f = dict(files)
                    f[paths[i]], f[paths[j]] = b, a
                    if not reaches(f, paths[i], paths[i]) and not reaches(f, paths[j], paths[j]):
                        put(i, b)
                        put(j, a)
            elif k < 0.90 and cur is not None:              # remove a file
                del files[paths[i]]
                ops.append(("rm", i))
            elif k < 0.95:                                  # the kernel file itself gains / loses an #include
                included = sorted(set(included) ^ {r.randrange(NH)}) or included
                ops.append(("src", included))
            elif cur is None and versions[i]:               # restore a removed file
                t = versions[i][-1]
                if acyclic_with(i, t):
                    put(i, t)
        ops.append(("build",))
        builds += 1
    return ops


def H(i, slot, val, incs=()):
    return ("write", i, "#define V%d %d\n" % (slot, val) + "".join('#include "@P%d@"\n' % j for j in incs))


B = ("build",)
CORPUS = [
    # F11a: two headers edited to identical contents (old chaining: K ^ Z ^ Z = K, endless recursion)
    [("src", [0, 1]), H(0, 0, 1), H(1, 1, 2), B, H(0, 0, 3), H(1, 0, 3), B, B],
    # F11b: two headers exchange their contents after an intermediate build (K -> K^P^Q -> K -> …)
    [("src", [0, 1]), H(0, 0, 1), H(1, 1, 2), B, H(0, 0, 5), B, H(0, 1, 2), H(1, 0, 5), B, H(0, 0, 5), H(1, 1, 2), B],
    # plain swap, revert
    [("src", [0, 1]), H(0, 0, 1), H(1, 1, 2), B, H(0, 1, 2), H(1, 0, 1), B, H(0, 0, 1), H(1, 1, 2), B],
    # transitive include added, inner file edited, include removed again
    [("src", [0]), H(0, 0, 1), H(2, 2, 2), B, H(0, 0, 1, [2]), B, H(2, 2, 9), B, H(0, 0, 1), B, H(2, 2, 10), B],
    # file removed and restored
    [("src", [0, 1]), H(0, 0, 1), H(1, 1, 2), B, ("rm", 1), B, H(1, 1, 2), B, H(1, 1, 4), B],
]
# headers named with #include <…> (seeded C07-m1: they were expanded but no longer recorded as dependencies).
# The model's include scanner covers the quoted form only, so these histories are judged by the property's
# own oracle (kernel outputs vs. the current contents of all included files), not compared with the model.
def HA(i, slot, val, incs=()):
    return ("write", i, "#define V%d %d\n" % (slot, val) + "".join('#include <@P%d@>\n' % j for j in incs))


ANGLE_CORPUS = [
    [("asrc", [0]), H(0, 0, 1), B, H(0, 0, 2), B, B, H(0, 0, 1), B],
    [("src", [1]), HA(1, 1, 1, [2]), H(2, 2, 5), B, H(2, 2, 6), B, HA(1, 1, 1), B],
    [("asrc", [0, 3]), H(0, 0, 1), H(3, 3, 4), B, H(3, 3, 8), B, ("src", [0, 3]), B, H(0, 0, 9), B],
]
# known finding C07-K1: a kernel built with okl/enabled: false gets its #includes from the C++
# compiler; occa records no dependencies for it (no build.json), so an edited header is not noticed
KNOWN_REPLAYS = [
    [("cppsrc", [0]), H(0, 0, 1), B, H(0, 0, 2), B],
]


def concretise(ops, hdir):
    """abstract ops -> protocol lines with the real paths; returns (segments, paths) where every
    segment ends with one `build` and is executed by one fresh process"""
    paths = [os.path.join(hdir, "h%d.h" % i) for i in range(NH)]

    def subst(t):
        for i in range(NH):
            t = t.replace("@P%d@" % i, paths[i])
        return t

    lines = []
    for op in ops:
        if op[0] == "write":
            lines.append(("write", paths[op[1]], subst(op[2])))
        elif op[0] == "rm":
            lines.append(("rm", paths[op[1]]))
        elif op[0] == "src":
            lines.append(("src", src_text(paths, op[1]), {"compiler_flags": "-O0"}))
        elif op[0] == "asrc":
            lines.append(("src", angle_src_text(paths, op[1]), {"compiler_flags": "-O0"}))
        elif op[0] == "cppsrc":
            lines.append(("src", cpp_src_text(paths, op[1]), {"compiler_flags": "-O0", "okl": {"enabled": False}}))
        else:
            lines.append(("build",))
    return lines, paths


def run_history(ck, hb, db, lanes, mode, ops, tag, per_build_timeout):
    """returns list of problems [(what, is_oracle)] and counters"""
    work = fresh_dir("c07-%s" % tag)
    cache = os.path.join(work, "cache")
    hdir = os.path.join(work, "hdr")
    os.makedirs(hdir)
    lines, paths = concretise(ops, hdir)
    envl = "env %s %s" % (mode, lanes[mode])
    props = {"compiler_flags": "-O0"}
    files, src = {}, None
    pending, model_ops, impl = [], [envl], []
    texts = {}                      # text hash (16 hex) -> text
    expected, stats = [], {"builds": 0, "hits": 0, "miss": 0, "errors": 0}
    fails = []
    for ln in lines:
        if ln[0] == "write":
            files[ln[1]] = ln[2]
            texts[occa_hash_full(ln[2].encode())[:16]] = ln[2]
            op = "write %s %s" % (hx(ln[1]), hx(ln[2]))
            pending.append(op)
            model_ops.append(op)
        elif ln[0] == "rm":
            files.pop(ln[1], None)
            op = "rm %s" % hx(ln[1])
            pending.append(op)
            model_ops.append(op)
        elif ln[0] == "src":
            src, props = ln[1], ln[2]
            op = "cfg " + cfg_tokens(src, props)
            model_ops.append(op)
        else:
            proc_ops = [envl, "cfg " + cfg_tokens(src, props)] + pending + ["build"]
            pending = []
            model_ops.append("build")
            rc, obs, ora, se = run_harness(ck, hb, proc_ops, cache, work, timeout=per_build_timeout)
            stats["builds"] += 1
            line = obs[-1] if obs else ""
            defs = {}
            ok = expand_defs(src, files, defs)
            exp = [defs.get("V%d" % k, 0) for k in range(NH)] + [0, 0, 0, 7] if ok else None
            impl.append((rc, line, ora, se, exp))
    model = [l for l in run_model_lines(ck, db, model_ops) if l.startswith(("hit", "miss", "parse-error", "chain-error"))]
    # the model covers OKL builds whose #include lines have the quoted form
    okl = not any(op[0] in ("cppsrc", "asrc") or (op[0] == "write" and "#include <" in op[2]) for op in ops)
    text = "mode %s\n" % mode + "\n".join(repr(o) for o in ops)
    bi = 0
    for bi, (rc, line, ora, se, exp) in enumerate(impl):
        where = "build #%d" % (bi + 1)
        for o in ora:
            fails.append(("%s: %s" % (where, o), True))
        if rc == -999:
            fails.append(("%s: the build did not finish within %ds (hang)" % (where, per_build_timeout), True))
            break
        if rc != 0:
            sig = re.search(r"(AddressSanitizer[^\n]*|runtime error[^\n]*|Segmentation[^\n]*|stack-overflow[^\n]*)", se)
            fails.append(("%s: the build process crashed (rc=%s) %s" % (where, rc, sig.group(1)[:160] if sig else se[-160:].replace("\n", " ")), True))
            break
        m = re.match(r"(hit|miss) key=(\w+) out=([-\d,]+)$", line)
        e = re.match(r"error key=(\S+) (\S+)$", line)
        mline = model[bi] if bi < len(model) else "<none>"
        if m:
            got = [int(x) for x in m.group(3).split(",")]
            stats["hits" if m.group(1) == "hit" else "miss"] += 1
            # the property itself, independent of the model
            if exp is None:
                fails.append(("%s: a kernel was built although an included file does not exist" % where, True))
            elif got != exp:
                fails.append(("%s: the kernel ran code that does not reflect the current contents of its included files: returned %s, current files imply %s (%s)"
                              % (where, got[:NH], exp[:NH], m.group(1)), True))
            mm = re.match(r"(hit|miss) key=(\w+) x=(\S+)$", mline)
            if not okl:
                pass
            elif not mm or (mm.group(1), mm.group(2)) != (m.group(1), m.group(2)):
                fails.append(("%s: model and implementation disagree: impl=%s model=%s" % (where, line[:100], mline[:100]), False))
            elif mm:
                # what the model says the binary was compiled from, turned into kernel outputs
                mfiles = {}
                good = True
                for ent in [] if mm.group(3) == "-" else mm.group(3).split(","):
                    p, th = ent.split(":")
                    if th not in texts:
                        good = False
                        break
                    mfiles[bytes.fromhex(p).decode()] = texts[th]
                d2 = {}
                if good and expand_defs(src_of_build(lines, bi), mfiles, d2):
                    mexp = [d2.get("V%d" % k, 0) for k in range(NH)] + [0, 0, 0, 7]
                    if mexp != got:
                        fails.append(("%s: the closure the model predicts for the binary gives %s, the kernel returned %s" % (where, mexp[:NH], got[:NH]), False))
                else:
                    fails.append(("%s: the model's closure is not expandable: %s" % (where, mline[:160]), False))
        elif e:
            stats["errors"] += 1
            if exp is not None:
                fails.append(("%s: the build failed (%s) although all included files exist" % (where, e.group(2)), True))
            elif e.group(2) not in ("missing-include", "parse"):   # the exception says "Unable to transform OKL kernel"
                fails.append(("%s: unexpected error class %s" % (where, e.group(2)), True))
            if okl and not mline.startswith("parse-error key=" + e.group(1)):
                fails.append(("%s: model and implementation disagree: impl=%s model=%s" % (where, line[:100], mline[:100]), False))
        else:
            fails.append(("%s: unexpected harness output %r %s" % (where, line[:120], se[-120:]), True))
    if not fails:
        shutil.rmtree(work, ignore_errors=True)
    return fails, stats, text


def src_of_build(lines, bi):
    """the kernel source in force at build number bi"""
    src, n = None, -1
    for ln in lines:
        if ln[0] == "src":
            src = ln[1]
        elif ln[0] == "build":
            n += 1
            if n == bi:
                return src
    return src


def parse_replay(path):
    ops, mode = [], "serial"
    for l in read_replay(path):
        if l.startswith("mode "):
            mode = l.split()[1]
        else:
            ops.append(eval(l, {"__builtins__": {}}))
    return mode, ops


def main(argv):
    ck = Check("C07", argv)
    ck.rule = ("histories over 4 headers (one macro slot each, absolute #include lines between them, acyclic) and a kernel "
               "that includes 1-2 of them: content change, include added/removed, revert to earlier contents, copy one "
               "header over another (equal contents), exchange two headers, remove/restore a file, change the kernel's own "
               "#include lines; plus fixed histories whose kernel or headers use the #include <…> form (oracle only); 1-3 edits between builds; every build in a fresh process, one shared cache directory per "
               "history, Serial and OpenMP; evaluations = builds; a build is non-trivial when at least one file changed "
               "since the previous build")
    ck.assumptions = ["files are not edited while a build runs", "builds run to completion (C08 covers crashes)",
                      "OKL builds with okl/strict_headers (defaults)", "hash / 64-bit directory-name collisions are outside the property"]
    T0 = time.time()
    ck.translate(["gen_hash", "gen_cachekey"])
    ck.prove("C07")
    T1 = time.time()
    hb = ck.harness("h_cachekey")
    db = ck.driver("drv_cache")
    T2 = time.time()
    if not hb or not db:
        ck.finish(META["level_text"])
    lanes = device_lanes(ck, hb, fresh_dir("c07-dev-%d" % ck.seed))
    if lanes is None:
        ck.finish(META["level_text"])
    if ck.replay:
        mode, ops = parse_replay(ck.replay)
        jobs = [(mode, ops, "replay")]
    else:
        nh, nb = (3, 4) if ck.tier == "quick" else (100, 7)
        jobs = [(("serial", "openmp")[i % 2], ops, "%d-c%d" % (ck.seed, i)) for i, ops in enumerate(CORPUS if ck.tier != "quick" else CORPUS[:2] + CORPUS[4:5])]
        jobs += [(ck.rng.choice(["serial", "openmp"]), gen_history(ck.rng, ck.rng.randint(3, nb)), "%d-%d" % (ck.seed, i)) for i in range(nh)]
        jobs += [(("serial", "openmp")[i % 2], ops, "%d-a%d" % (ck.seed, i)) for i, ops in enumerate(ANGLE_CORPUS if ck.tier != "quick" else ANGLE_CORPUS[:2])]
        jobs += [("serial", ops, "%d-k%d" % (ck.seed, i)) for i, ops in enumerate(KNOWN_REPLAYS)]
    tmo = 300 if ck.tier == "quick" else 600
    tot = {"builds": 0, "hits": 0, "miss": 0, "errors": 0}
    nontriv = 0
    with concurrent.futures.ThreadPoolExecutor(max_workers=6) as ex:
        futs = [ex.submit(run_history, ck, hb, db, lanes, m, ops, tag, tmo) for m, ops, tag in jobs]
        for fu, (m, ops, tag) in zip(futs, jobs):
            fails, stats, text = fu.result()
            for k in tot:
                tot[k] += stats[k]
            nontriv += sum(1 for a, b in zip(ops, ops[1:]) if b == ("build",) and a != ("build",))
            fails.sort(key=lambda f: not f[1])
            for what, is_oracle in fails[:2]:
                if is_oracle:
                    ck.oracle_violation(what, text, name="hist")
                else:
                    if not ck._known(what, text):
                        n = len(ck.violations)
                        rp = os.path.join(VERIF, "evidence", "replays", "C07-%d-%d.hist" % (ck.seed, n))
                        open(rp, "w").write("## property C07 seed %d\n## %s\n%s\n" % (ck.seed, what, text))
                        ck.violations.append({"what": what, "replay": rp, "found_input": False})
    ck.cov["counters"]["phase_seconds"] = {"translate+prove": round(T1 - T0), "harness+driver build": round(T2 - T1), "histories": round(time.time() - T2)}
    ck.cov["evaluations"] = tot["builds"]
    ck.cov["distinct_nontrivial"] = nontriv
    ck.cov["counters"].update({"histories": len(jobs), "builds_in_fresh_processes": tot["builds"], "cache_hits": tot["hits"],
                               "rebuilds": tot["miss"], "builds_rejected_missing_include": tot["errors"]})
    ck.cov["samples"] = [{"history": [repr(o)[:90] for o in jobs[0][1][:10]]}]
    ck.finish(META["level_text"])
