"""C28 — The trie returns the longest stored prefix, frozen or not."""
import itertools
from vlib import *

META = {
    "technique": "Lean 4 refinement proof over a statement-by-statement model of trieNode / trie<TM> (sorted child maps, "
                 "value-index vector, in-place flattening into the frozen arrays, binary search), for all add/remove/"
                 "freeze/defrost/clear histories and all queries; differential run of the model against the real "
                 "trie<int> under ASan/UBSan with a std::map longest-prefix oracle",
    "category": "proof",
    "level_text": "Proof, for every history of add/remove/freeze/defrost/clear/autoFreeze operations and every query "
                  "(any length, any character type with a strict total order): no operation traps, getLongest returns "
                  "the longest stored prefix with its most recent value, get/has succeed exactly for stored keys, "
                  "size() is the number of stored keys, and the frozen (flattened arrays + binary search) and unfrozen "
                  "answers coincide (C28_history, C28_getLongest, C28_get, C28_has, C28_size, C28_frozen_eq_unfrozen, "
                  "C28_hasChar); tied to the code by a seeded differential run of the real trie<int> against the model "
                  "on generated histories with every query string up to length 4-6 after each operation, and by an "
                  "exhaustive enumeration of short histories.",
    "level_note": "Trusted: Lean kernel; the hand-written model lean/OccaModel/Trie.lean (validated by the correspondence "
                  "run, not proved equal to the C++); std::map<char,...> modelled as a sorted association list; the "
                  "C++ queries are NUL-terminated strings without embedded NUL; the template parameter TM is exercised "
                  "as int only; copy construction/assignment is exercised by the harness but not part of the proof.",
    "design_ref": "DESIGN.md section 4, C28",
}

A, B, C = "61", "62", "63"


def hx(s):
    return "".join("%02x" % (ord(c) if isinstance(c, str) else c) for c in s) or "-"


def rkey(r, alpha, maxlen, stored):
    """keys that make prefix chains likely: extend / truncate / perturb a stored key, or a fresh one"""
    k = r.random()
    if stored and k < 0.55:
        base = r.choice(sorted(stored))
        m = r.random()
        if m < 0.35 and len(base) < maxlen:
            return base + tuple(r.choice(alpha) for _ in range(r.randint(1, min(2, maxlen - len(base)))))
        if m < 0.6 and base:
            return base[:r.randint(0, len(base) - 1)]
        if m < 0.8 and base:
            i = r.randrange(len(base))
            return base[:i] + (r.choice(alpha),) + base[i + 1:]
        return base
    if k < 0.62:
        return ()
    return tuple(r.choice(alpha) for _ in range(r.randint(1, maxlen)))


def gen_history(r):
    shape = r.random()
    if shape < 0.5:
        maxlen, qlen = 2, 3
    elif shape < 0.88:
        maxlen, qlen = 3, 4
    else:
        maxlen, qlen = 5, 6
    alpha = [0x61, 0x62, 0x63]
    if r.random() < 0.08:
        alpha = r.sample([0x61, 0x62, 0xe9, 0x80, 0x7f, 0x01, 0xff], 3)   # bytes >= 0x80: signed char order
    al = hx(alpha)
    chk = "chk %s %d" % (al, qlen)
    h = ["auto %d" % r.randint(0, 1)]
    stored = set()
    val = 0
    n = r.randint(3, 14) if maxlen < 5 else r.randint(3, 8)
    for _ in range(n):
        k = r.random()
        if k < 0.5 or not stored and k < 0.7:
            key = rkey(r, alpha, maxlen, stored)
            val += 1
            h.append("add %s %d" % (hx(key), val))
            stored.add(key)
        elif k < 0.74:
            key = rkey(r, alpha, maxlen, stored)
            h.append("%s %s" % ("rm" if r.random() < 0.7 else "rmc", hx(key)))
            stored.discard(key)
        elif k < 0.82:
            h.append("freeze")
        elif k < 0.89:
            h.append("defrost")
        elif k < 0.92:
            h.append("clear")
            stored = set()
        elif k < 0.96:
            h.append("auto %d" % r.randint(0, 1))
        else:
            h.append("copy")
        if maxlen < 5 or r.random() < 0.6:
            h.append(chk)
            if r.random() < 0.25:      # the same content in the other representation
                h.append(r.choice(["freeze", "defrost"]))
                h.append(chk)
    h.append(chk)
    return h


def exhaustive(depth, auto):
    """every history of `depth` operations over keys of length <= 2 on {a, b} (and the empty key)"""
    keys = ["-", A, B, A + A, A + B, B + A, B + B]
    ops = ["add " + k for k in keys] + ["rm " + k for k in keys] + ["freeze", "defrost", "clear"]
    chk = "chk %s%s 3" % (A, B)
    for combo in itertools.product(ops, repeat=depth):
        h = ["auto %d" % auto]
        for i, o in enumerate(combo):
            h.append(o + (" %d" % (i + 1) if o.startswith("add") else ""))
            h.append(chk)
        yield h


CORPUS = [
    # F32: a deeper lookup fails below a value node; add("ab") must not overwrite "a"
    ["auto 0", "add 61 1", "add 616263 2", "chk 616263 3", "freeze", "chk 616263 3", "defrost", "add 6162 3", "chk 616263 3"],
    ["auto 0", "add 61 1", "add 616263 2", "rm 6162", "chk 616263 3"],
    # F33: an emptied child with siblings
    ["auto 0", "add 6162 1", "add 6364 2", "rm 6162", "chk 616263 2", "rm 6364", "chk 616263 2"],
    # empty key: frozen lookup, remove(""), stale root index after removing an earlier key, clear
    ["auto 0", "add - 7", "chk 616263 1", "freeze", "chk 616263 1"],
    ["auto 0", "add - 7", "rm -", "chk 616263 1"],
    ["auto 0", "add 61 1", "add - 7", "rm 61", "chk 616263 1"],
    ["auto 0", "add - 7", "clear", "chk 616263 1", "add 61 1", "chk 616263 1"],
    ["auto 1", "chk 616263 1"],
    # the unit test's key set
    ["auto 0", "add 626c7565 1", "add 626c7565626c7565 2", "add 626f72696e67 3", "add 676c7565 4", "add 676f6f64 5",
     "chk 626c7565 5", "freeze", "chk 676f64 5", "rm 626c7565", "chk 626c7565 5", "copy", "chk 626c7565 5"],
    # index shifting: remove the first of three, then re-add
    ["auto 1", "add 61 1", "add 62 2", "add 63 3", "rm 61", "chk 616263 2", "add 61 4", "chk 616263 2", "rm 62", "chk 616263 2"],
    # signed char order in the frozen binary search
    ["auto 1", "add e9 1", "add 61 2", "add 80 3", "add 7f 4", "add ff 5", "add 01 6", "chk 61e9807fff01 2"],
]


def main(argv):
    ck = Check("C28", argv)
    ck.rule = ("histories of add/rm/freeze/defrost/clear/autoFreeze/copy over a 3-letter alphabet (8% of histories use "
               "bytes >= 0x80), keys of length 0..2, 0..3 or 0..5 chosen to form prefix chains (extend / truncate / "
               "perturb a stored key), each mutating op followed by `chk`: every query string up to length 3, 4 or 6 "
               "observed through getLongest/get/has on the current representation; plus every history of <= 3 "
               "(thorough: 4) operations over the 7 keys of length <= 2 on {a,b} with autoFreeze on and off. "
               "Non-trivial = at least one successful lookup observed; distinct by SHA-1 of the op text")
    ck.assumptions = ["keys and queries are NUL-terminated C strings without embedded NUL",
                      "char is signed (x86-64); the model orders characters by their signed value"]
    ck.prove("C28")
    hb = ck.harness("h_trie")
    db = ck.driver("drv_trie")
    nontrivial = lambda h, obs: any(":" in o for o in obs)
    if ck.replay:
        ck.correspond(hb, db, [read_replay(ck.replay)], label="trie", nontrivial=nontrivial, ubsan_is_violation=r"trie\.(cpp|tpp|hpp)")
    else:
        n = 800 if ck.tier == "quick" else 40000
        hs = CORPUS + [gen_history(ck.rng) for _ in range(n)]
        ck.correspond(hb, db, hs, label="trie", nontrivial=nontrivial, timeout=1800, ubsan_is_violation=r"trie\.(cpp|tpp|hpp)")
        depth = 3 if ck.tier == "quick" else 4
        ex = []
        for d in range(1, depth + 1):
            if d == depth and ck.tier == "quick":
                # the deepest level is sampled in the quick tier, complete in the thorough tier
                allh = list(exhaustive(d, 0)) + list(exhaustive(d, 1))
                ex += ck.rng.sample(allh, 1500)
            else:
                ex += list(exhaustive(d, 0)) + list(exhaustive(d, 1))
        ck.cov["counters"]["exhaustive_depth"] = depth
        ck.correspond(hb, db, ex, label="exhaustive", nontrivial=nontrivial, timeout=3000, ubsan_is_violation=r"trie\.(cpp|tpp|hpp)")
    ck.finish(META["level_text"])
