"""C29 — C API values keep their value and type through conversions."""
import struct
from vlib import *

META = {
    "technique": "Lean 4 theorems over a model of the C API value layer (occaType constructors, occa::primitive conversions, "
                 "inferJson / json path set-get, kernel-argument bytes, handle table) whose per-tag tables are regenerated from "
                 "types.h/types.cpp; differential run of the model against the real C API (JSON histories, kernel launches, "
                 "create/copy/free histories) under ASan+UBSan+LSan with read-back oracles in the harness",
    "category": "proof",
    "level_text": "Proof for all tags, all bit patterns and all histories: C29_scalar_roundtrip / C29_public_ctor_type (every "
                  "constructor, every 64-bit pattern, any garbage in the unused union bytes), C29_prim_roundtrip(_typed), "
                  "C29_json_scalar_set_get / C29_json_set_get_path / C29_json_set_frame / C29_json_history (last write wins on "
                  "every path), C29_array_push_get / C29_array_history, C29_kernelarg_bytes, C29_handles_safe / "
                  "C29_handles_no_leak (any program that follows the ownership discipline never touches a freed object and "
                  "leaks nothing); tied to the code by the regenerated tag tables and by a seeded differential run of the real "
                  "C API against the model with model-independent read-back oracles.",
    "level_note": "Trusted: Lean kernel; translate/gen_capi.py (regex extraction of the switch tables of types.cpp); the hand-written "
                  "JSON path/array functions and the handle machine (validated by the correspondence run, not proved equal to the "
                  "C++); LP64 little endian, plain char signed; conversions that involve float/double are only tested (Lean runtime "
                  "floats), not proved; validity of borrowed json handles inside a document (vector reallocation) is "
                  "sanitizer-observed, not proved; std::map/std::vector/allocator behave as specified.",
    "design_ref": "DESIGN.md section 4, C29",
}

CTORS = {  # name -> (bits, signed, float)
    "bool": (8, False, False), "int8": (8, True, False), "uint8": (8, False, False), "int16": (16, True, False),
    "uint16": (16, False, False), "int32": (32, True, False), "uint32": (32, False, False), "int64": (64, True, False),
    "uint64": (64, False, False), "char": (8, True, False), "uchar": (8, False, False), "short": (16, True, False),
    "ushort": (16, False, False), "int": (32, True, False), "uint": (32, False, False), "long": (64, True, False),
    "ulong": (64, False, False), "float": (32, False, True), "double": (64, False, True)}
TAG = {"bool": 4, "int8": 5, "uint8": 6, "int16": 7, "uint16": 8, "int32": 9, "uint32": 10, "int64": 11, "uint64": 12,
       "float": 13, "double": 14}
TAGINFO = {4: (8, False, False), 5: (8, True, False), 6: (8, False, False), 7: (16, True, False), 8: (16, False, False),
           9: (32, True, False), 10: (32, False, False), 11: (64, True, False), 12: (64, False, False),
           13: (32, False, True), 14: (64, False, True)}
CANON = {"char": "int8", "uchar": "uint8", "short": "int16", "ushort": "uint16", "int": "int32", "uint": "uint32",
         "long": "int64", "ulong": "uint64"}


def hx(bs):
    return "".join("%02x" % b for b in bs) or "-"


def rbits(r, ctor):
    bits, signed, flt = CTORS[ctor]
    if ctor == "bool":
        return r.choice([0, 1])
    k = r.random()
    if flt:
        if bits == 32:
            sp = [0, 0x80000000, 0x3f800000, 0xbf800000, 0x7f800000, 0xff800000, 0x7fc00000, 0x7f800001, 0x00000001,
                  0x007fffff, 0x7f7fffff, 0x4b800000, 0x4f000000, 0xcf000000, 0x5f000000, 0x3f8ccccd]
        else:
            sp = [0, 1 << 63, 0x3ff0000000000000, 0xbff0000000000000, 0x7ff0000000000000, 0xfff0000000000000,
                  0x7ff8000000000000, 0x7ff0000000000001, 1, 0x000fffffffffffff, 0x7fefffffffffffff,
                  0x43e0000000000000, 0xc3e0000000000000, 0x43f0000000000000, 0x41dfffffffc00000, 0x3ff199999999999a]
        if k < 0.5:
            return r.choice(sp)
        if k < 0.7:   # moderate magnitudes: conversions to integers are defined
            x = r.uniform(-1e6, 1e6) if r.random() < 0.7 else r.uniform(-200, 300)
            return struct.unpack("<I", struct.pack("<f", x))[0] if bits == 32 else struct.unpack("<Q", struct.pack("<d", x))[0]
        return r.getrandbits(bits)
    m = (1 << bits) - 1
    sp = [0, 1, m, 1 << (bits - 1), (1 << (bits - 1)) - 1, 2, m - 1, 0x7f & m, 0x80 & m, 0xff & m]
    v = r.choice(sp) if k < 0.55 else r.getrandbits(bits)
    if r.random() < 0.15 and bits < 64:        # garbage above the width must be ignored by the constructor call
        v |= r.getrandbits(64 - bits) << bits
    return v


def rscalar(r, ctor=None):
    ctor = ctor or r.choice(list(CTORS))
    return "%s:%x" % (ctor, rbits(r, ctor))


def rstr(r):
    k = r.random()
    n = r.choice([0, 1, 2, 3, 8, 15, 16, 17, 40]) if k < 0.5 else r.randint(0, 24)
    m = r.random()
    if m < 0.3:
        bs = [r.choice([0x22, 0x5c, 0x27, 0x2f, 0x0a, 0x09, 0x7b, 0x7d, 0x5b, 0x2c, 0x3a, 0x20]) for _ in range(n)]
    elif m < 0.55:
        bs = [r.randint(0x80, 0xff) for _ in range(n)]
    else:
        bs = [r.randint(1, 255) for _ in range(n)]
    return bs


def float_value(ctor_or_tag_bits, bits):
    if ctor_or_tag_bits == 32:
        return struct.unpack("<f", struct.pack("<I", bits & 0xffffffff))[0]
    return struct.unpack("<d", struct.pack("<Q", bits & 0xffffffffffffffff))[0]


def conv_defined(src, bits, totag):
    """is `(T) value` defined C++ for a json number of constructor type `src` read back as tag `totag`?"""
    if totag not in TAGINFO:
        return True                      # not a numeric tag: the API answers occaUndefined, nothing is converted
    sb, _, sflt = CTORS[src]
    tb, tsigned, tflt = TAGINFO[totag]
    if not sflt or tflt or totag == 4:
        return True
    x = float_value(sb, bits)
    if x != x or x in (float("inf"), float("-inf")):
        return False
    t = int(x)
    lo, hi = (-(1 << (tb - 1)), (1 << (tb - 1)) - 1) if tsigned else (0, (1 << tb) - 1)
    # sub-int targets are converted through int by the compiler; stay inside the target range proper
    return lo <= t <= hi


# ------------------------------------------------------------------------------------------------
# steering model of the generator (kinds, keys, lengths and handle paths only; the Lean model is the
# referee: histories in which it reports a stale or dead handle are not run against the real code)

def split_path(key):
    if not key:
        return []
    out, cur, i = [], [], 0
    while i < len(key):
        c = key[i]
        if c == 0x5c:
            cur += key[i:i + 2]
            i += 2
            continue
        if c == 0x2f:
            out.append(tuple(cur))
            cur = []
            i += 1
            if i >= len(key):
                return out
            continue
        cur.append(c)
        i += 1
    out.append(tuple(cur))
    return out


class Node:
    __slots__ = ("k", "v")     # k in none|null|num|str|arr|obj ; v: payload

    def __init__(self, k, v=None):
        self.k, self.v = k, v

    def copy(self):
        if self.k == "arr":
            return Node("arr", [c.copy() for c in self.v])
        if self.k == "obj":
            return Node("obj", dict((a, b.copy()) for a, b in self.v.items()))
        return Node(self.k, self.v)


class Hist:
    def __init__(self, r):
        self.r = r
        self.ops = []
        self.n = 0
        self.h = {}          # slot -> dict(root, path, owning, kind: json|dtype|memory|plain)
        self.docs = {}       # root slot -> Node
        self.freed_roots = set()

    def fresh(self):
        self.n += 1
        return self.n

    def node(self, s):
        hd = self.h[s]
        n = self.docs[hd["root"]]
        for st in hd["path"]:
            if st[0] == "k":
                if n.k != "obj" or st[1] not in n.v:
                    return None
                n = n.v[st[1]]
            else:
                if n.k != "arr" or st[1] >= len(n.v):
                    return None
                n = n.v[st[1]]
        return n

    def live_json(self, want=None):
        out = []
        for s, hd in self.h.items():
            if hd["kind"] == "json" and not hd["dead"]:
                n = self.node(s)
                if n is None:
                    continue
                if want is None or n.k in want:
                    out.append(s)
        return out

    def kill_below(self, root, path):
        for s, hd in self.h.items():
            if hd["kind"] == "json" and hd["root"] == root and len(hd["path"]) > len(path) and hd["path"][:len(path)] == path:
                hd["dead"] = True

    def rvalue(self, allow_bad=True):
        """(text, Node or None if the set must fail)"""
        r = self.r
        k = r.random()
        if k < 0.45:
            c = r.choice(list(CTORS))
            b = rbits(r, c)
            w = CTORS[c][0]
            return "%s:%x" % (c, b), Node("num", (CANON.get(c, c), (b & 1) if c == "bool" else b & ((1 << w) - 1)))
        if k < 0.60:
            s = rstr(r)
            return "str:" + hx(s), Node("str", tuple(s))
        if k < 0.66:
            return r.choice(["null", "nullptr"]), Node("null")
        if k < 0.72:
            t = r.choice(["true", "false"])
            return t, Node("num", ("bool", 1 if t == "true" else 0))
        if k < 0.90:
            js = self.live_json()
            if js:
                s = r.choice(js)
                return "h:%d" % s, self.node(s).copy()
        if allow_bad and k > 0.95:
            bad = ["ptr", "struct", "undef", "default"]
            other = [s for s, hd in self.h.items() if hd["kind"] in ("dtype", "memory") and not hd["dead"]]
            if other and r.random() < 0.4:
                return "h:%d" % r.choice(other), None
            return r.choice(bad), None
        b = rbits(r, "int32")
        return "int32:%x" % b, Node("num", ("int32", b & 0xffffffff))

    def value(self, allow_bad=True):
        return self.rvalue(allow_bad)

    def rkey(self, node):
        r = self.r
        k = r.random()
        pool = [b"a", b"b", b"c", b"key", b"x", b"a/b", b"a/c", b"x/y/z", b"b/d"]
        if node is not None and node.k == "obj" and node.v and k < 0.35:
            return list(r.choice(sorted(node.v)))
        if k < 0.8:
            return list(r.choice(pool))
        if k < 0.9:
            return list(r.choice([b"q\\/r", b"a/", b"/", b"//", b"a//b", b"\\", b"k\\", b"sp ace", b"\"q\"", b"\xc3\xa9\xff", b"a/b/"]))
        if k < 0.93:
            return []
        return [r.randint(1, 255) for _ in range(r.randint(1, 6))]

    # --- operations -------------------------------------------------------------------------
    def op_jnew(self):
        s = self.fresh()
        self.ops.append("jnew %d" % s)
        self.h[s] = dict(root=s, path=(), owning=True, kind="json", dead=False)
        self.docs[s] = Node("none")
        return s

    def prep(self, n, kind):
        if n.k == "none":
            n.k, n.v = kind, ({} if kind == "obj" else [])

    def op_set(self, s):
        n = self.node(s)
        key = self.rkey(n)
        vt, vn = self.value()
        self.ops.append("set %d %s %s" % (s, hx(key), vt))
        hd = self.h[s]
        self.prep(n, "obj")
        if n.k != "obj" or vn is None:
            return
        keys = split_path(key)
        # walk (copy-free check first, as the C++ leaves everything unchanged on error)
        cur = n
        for k in keys:
            if cur.k == "none":
                break
            if cur.k != "obj":
                return
            if k not in cur.v:
                break
            cur = cur.v[k]
        if not keys:
            n.k, n.v = vn.k, vn.v
            self.kill_below(hd["root"], hd["path"])
            return
        cur = n
        for k in keys[:-1]:
            if cur.k == "none":
                cur.k, cur.v = "obj", {}
            if k not in cur.v:
                cur.v[k] = Node("obj", {})
            elif cur.v[k].k == "none":
                cur.v[k] = Node("obj", {})
            cur = cur.v[k]
        if cur.k == "none":
            cur.k, cur.v = "obj", {}
        cur.v[keys[-1]] = vn
        self.kill_below(hd["root"], hd["path"])

    def default_val(self):
        r = self.r
        k = r.random()
        if k < 0.4:
            return rscalar(r), "plain"
        if k < 0.5:
            return "str:" + hx(rstr(r)), "plain"
        if k < 0.8:
            return r.choice(["undef", "null", "default", "true", "nullptr"]), "plain"
        js = [s for s, hd in self.h.items() if not hd["dead"]]
        if js:
            return "h:%d" % r.choice(js), "h"
        return "undef", "plain"

    def op_get(self, s):
        n = self.node(s)
        key = self.rkey(n)
        dv, dk = self.default_val()
        s2 = self.fresh()
        self.ops.append("get %d %d %s %s" % (s2, s, hx(key), dv))
        hd = self.h[s]
        self.prep(n, "obj")
        if n.k != "obj":
            return
        cur = n
        for k in split_path(key):
            if cur.k != "obj" or k not in cur.v:
                cur = None
                break
            cur = cur.v[k]
        if cur is not None:
            if cur.k == "null":
                self.h[s2] = dict(root=None, path=(), owning=False, kind="plain", dead=False)
            else:
                self.h[s2] = dict(root=hd["root"], path=hd["path"] + tuple(("k", k) for k in split_path(key)), owning=False,
                                  kind="json", dead=False)
        elif dk == "h":
            src = self.h[int(dv[2:])]
            self.h[s2] = dict(src)
        else:
            self.h[s2] = dict(root=None, path=(), owning=False, kind="plain", dead=False)

    def op_push(self, s, ins=False):
        n = self.node(s)
        vt, vn = self.value()
        hd = self.h[s]
        if ins:
            ln = len(n.v) if n.k == "arr" else 0
            idx = self.r.randint(0, max(ln - 1, 0)) if self.r.random() < 0.85 else self.r.choice([-1, ln, ln + 1])
            self.ops.append("ins %d %d %s" % (s, idx, vt))
        else:
            self.ops.append("push %d %s" % (s, vt))
        self.prep(n, "arr")
        if n.k != "arr" or vn is None:
            return
        if ins:
            if 0 <= idx < len(n.v):
                n.v.insert(idx, vn)
                self.kill_below(hd["root"], hd["path"])
        elif vn.k != "none":
            n.v.append(vn)
            self.kill_below(hd["root"], hd["path"])

    def op_aget(self, s):
        n = self.node(s)
        hd = self.h[s]
        ln = len(n.v) if n.k == "arr" else 0
        k = self.r.random()
        idx = self.r.randint(0, ln - 1) if (ln and k < 0.85) else ln + self.r.choice([0, 0, 1, 3])
        s2 = self.fresh()
        self.ops.append("aget %d %d %d" % (s2, s, idx))
        self.prep(n, "arr")
        if n.k != "arr":
            return
        if idx >= len(n.v):
            n.v += [Node("null") for _ in range(idx - len(n.v))] + [Node("none")]
            self.kill_below(hd["root"], hd["path"])
        c = n.v[idx]
        if c.k == "null":
            self.h[s2] = dict(root=None, path=(), owning=False, kind="plain", dead=False)
        else:
            self.h[s2] = dict(root=hd["root"], path=hd["path"] + (("i", idx),), owning=False, kind="json", dead=False)

    def op_simple(self, s, what):
        n = self.node(s)
        hd = self.h[s]
        if what == "pop":
            self.ops.append("pop %d" % s)
            if n.k == "arr" and n.v:
                n.v.pop()
                self.kill_below(hd["root"], hd["path"])
        elif what == "clr":
            self.ops.append("clr %d" % s)
            self.prep(n, "arr")
            if n.k == "arr":
                n.v = []
                self.kill_below(hd["root"], hd["path"])
        elif what == "asize":
            self.ops.append("asize %d" % s)
            self.prep(n, "arr")
        elif what == "has":
            self.ops.append("has %d %s" % (s, hx(self.rkey(n))))
            self.prep(n, "obj")
        elif what == "cast":
            c = self.r.choice("bnsao")
            self.ops.append("cast %d %s" % (s, c))
            want = {"b": "num", "n": "num", "s": "str", "a": "arr", "o": "obj"}[c]
            if c == "b":
                if n.k == "num":
                    n.v = ("bool", None)           # value not tracked by the generator
                else:
                    n.k, n.v = "num", ("bool", 0)
            elif n.k != want:
                n.k, n.v = want, {"num": ("int32", 0), "str": (), "arr": [], "obj": {}}[want]
            self.kill_below(hd["root"], hd["path"])

    def op_read(self, s):
        n = self.node(s)
        r = self.r
        k = r.random()
        if n.k == "num" and k < 0.7:
            ty, bits = n.v
            own = TAG.get(ty, 9)
            tag = own if r.random() < 0.5 else r.choice(list(TAGINFO) + [0, 2, 16, 26, 99])
            if bits is None or not conv_defined(ty, bits, tag):
                tag = own
            self.ops.append("gn %d %d" % (s, tag))
            if ty == "bool" and r.random() < 0.5:
                self.ops.append("gb %d" % s)
        elif n.k == "str" and k < 0.7:
            self.ops.append("gs %d" % s)
        else:
            # (gn with tag double: defined for every stored number; an int tag could be an out-of-range float conversion)
            self.ops.append(r.choice(["kind %d", "show %d", "gb %d", "gn %d 14", "gs %d"]) % s)

    def op_free(self, s):
        hd = self.h[s]
        self.ops.append("free %d" % s)
        if hd["kind"] == "plain":
            hd["dead"] = True
            return
        if hd["owning"]:
            for s2, h2 in self.h.items():
                if h2["kind"] != "plain" and h2["root"] == hd["root"]:
                    h2["dead"] = True
            self.freed_roots.add(hd["root"])
        else:
            hd["dead"] = True

    def op_cp(self, s):
        s2 = self.fresh()
        self.ops.append("cp %d %d" % (s2, s))
        self.h[s2] = dict(self.h[s])

    def op_other(self):
        r = self.r
        k = r.random()
        if k < 0.3:
            s = self.fresh()
            name = [r.randint(1, 255) for _ in range(r.randint(1, 8))] if r.random() < 0.3 else list(r.choice([b"vec3", b"my_t", b"double", b"x"]))
            self.ops.append("dtnew %d %s %d" % (s, hx(name), r.choice([1, 4, 8, 12, 24, 1000])))
            self.h[s] = dict(root=s, path=(), owning=True, kind="dtype", dead=False)
        elif k < 0.55:
            s = self.fresh()
            self.ops.append("mnew %d %d %d" % (s, r.choice([1, 7, 8, 64, 100, 1000, 4096]), r.randint(0, 10 ** 6)))
            self.h[s] = dict(root=s, path=(), owning=True, kind="memory", dead=False)
        else:
            other = [s for s, hd in self.h.items() if hd["kind"] in ("dtype", "memory") and not hd["dead"]]
            if other:
                s = r.choice(other)
                self.ops.append(("dtq %d" if self.h[s]["kind"] == "dtype" else "mq %d") % s)
                if r.random() < 0.15:     # wrong accessor for the handle kind: must be a clean error
                    self.ops.append(("mq %d" if self.h[s]["kind"] == "dtype" else "dtq %d") % s)

    def finish(self):
        for s in self.live_json():
            if self.h[s]["path"] == () and self.r.random() < 0.7:
                self.ops.append("show %d" % s)
        roots = {}
        for s, hd in self.h.items():
            if hd["kind"] != "plain" and hd["owning"] and not hd["dead"]:
                roots.setdefault(hd["root"], []).append(s)
        for root, ss in sorted(roots.items()):
            self.op_free(self.r.choice(ss))


def gen_json_history(r):
    H = Hist(r)
    for _ in range(r.randint(1, 3)):
        H.op_jnew()
    for _ in range(r.randint(8, 45)):
        k = r.random()
        objs = H.live_json(("obj", "none"))
        arrs = H.live_json(("arr", "none"))
        anyj = H.live_json()
        if k < 0.26 and objs:
            H.op_set(r.choice(objs))
        elif k < 0.38 and objs:
            H.op_get(r.choice(objs))
        elif k < 0.50 and arrs:
            H.op_push(r.choice(arrs))
        elif k < 0.58 and arrs:
            H.op_aget(r.choice(arrs))
        elif k < 0.62 and arrs:
            H.op_push(r.choice(arrs), ins=True)
        elif k < 0.68 and anyj:
            what = r.choice(["pop", "clr", "asize", "has", "has", "asize"])
            pool = (objs if what == "has" else arrs) if r.random() < 0.85 else anyj
            if pool:
                H.op_simple(r.choice(pool), what)
        elif k < 0.71 and anyj:
            H.op_simple(r.choice(anyj), "cast")
        elif k < 0.83 and anyj:
            s0 = r.choice(anyj)
            n0 = H.node(s0)
            # mostly: fetch a member that holds a scalar or string and read it with a typed accessor
            if n0.k == "obj" and n0.v and r.random() < 0.8:
                key = r.choice(sorted(n0.v))
                if b"/"[0] not in key and 0x5c not in key and key and n0.v[key].k != "null":
                    s2 = H.fresh()
                    H.ops.append("get %d %d %s undef" % (s2, s0, hx(key)))
                    H.h[s2] = dict(root=H.h[s0]["root"], path=H.h[s0]["path"] + (("k", key),), owning=False, kind="json", dead=False)
                    s0 = s2
            elif n0.k == "arr" and n0.v and r.random() < 0.8:
                i = r.randrange(len(n0.v))
                if n0.v[i].k != "null":
                    s2 = H.fresh()
                    H.ops.append("aget %d %d %d" % (s2, s0, i))
                    H.h[s2] = dict(root=H.h[s0]["root"], path=H.h[s0]["path"] + (("i", i),), owning=False, kind="json", dead=False)
                    s0 = s2
            H.op_read(s0)
        elif k < 0.86 and anyj:
            # an operation of the wrong kind for the node: must be a clean error
            s = r.choice(anyj)
            n = H.node(s)
            if n.k == "obj":
                H.ops.append(r.choice(["push %d int8:1", "asize %d", "clr %d", "aget 9999 %d 0"]) % s)
                if H.ops[-1].startswith("aget"):
                    H.ops[-1] = "aget %d %d 0" % (H.fresh(), s)
            elif n.k == "arr":
                H.ops.append(r.choice(["set %d 61 int8:1", "has %d 61"]) % s)
            elif n.k != "none":
                H.ops.append(r.choice(["set %d 61 int8:1", "push %d int8:1", "has %d 61", "asize %d"]) % s)
        elif k < 0.90:
            live = [s for s, hd in H.h.items() if not hd["dead"]]
            if live:
                H.op_cp(r.choice(live))
        elif k < 0.94:
            live = [s for s, hd in H.h.items() if not hd["dead"]]
            if live:
                H.op_free(r.choice(live))
        elif k < 0.97:
            H.op_other()
        else:
            H.op_jnew()
    H.finish()
    return H.ops


def gen_pure_history(r):
    ops = []
    for _ in range(r.randint(10, 30)):
        k = r.random()
        c = r.choice(list(CTORS))
        if k < 0.35:
            ops.append("mk " + rscalar(r, c))
        elif k < 0.45:
            ops.append("mk " + r.choice(["null", "undef", "default", "true", "false", "nullptr", "ptr", "struct", "str:" + hx(rstr(r))]))
        elif k < 0.90:
            b = rbits(r, c)
            own = TAG[CANON.get(c, c)]
            tag = own if r.random() < 0.45 else r.choice(list(TAGINFO) + [0, 1, 2, 3, 15, 16, 26, 27, 1000])
            if not conv_defined(c, b, tag):
                tag = own
            ops.append("rt %s:%x %d" % (c, b, tag))
        else:
            ops.append("rt %s %d" % (r.choice(["null", "nullptr", "true", "false", "str:" + hx(rstr(r)), "ptr", "struct", "undef", "default"]),
                                     r.choice(list(TAGINFO))))
    return ops


def gen_kernel_history(r):
    ops = []
    for _ in range(r.randint(2, 5)):
        style = r.choice(["known", "ambig"])
        cts = ["int8", "uint8", "int16", "uint16", "int32", "uint32", "int64", "uint64", "float", "double"]
        vals = ["%x" % rbits(r, c) for c in cts]
        xy = hx([r.randint(0, 255) for _ in range(16)])
        s = [b for b in rstr(r)][:50]
        op = "krunb" if r.random() < 0.1 else "krun"
        ops.append("%s %s %s %s %s %s" % (op, style, " ".join(vals), xy, hx(s), r.choice(["null", "nullptr"])))
    return ops


CORPUS = [
    # C29-F1: a boolean read back with its own type tag (was occaUndefined before the fix)
    ["rt bool:1 4", "rt true 4", "rt false 4"],
    ["jnew 1", "push 1 true", "aget 2 1 0", "gn 2 4", "gb 2", "free 1"],
    # C29-F2: a null document: nothing to free, nothing may leak
    ["parse 1 6e756c6c", "mk null"],
    # C29-F3: strings returned by the API are C strings
    ["khash"],
    # every constructor at its extremes through json with its own type
    ["rt int64:8000000000000000 11", "rt uint64:ffffffffffffffff 12", "rt int8:80 5", "rt uchar:ff 6", "rt char:80 5",
     "rt float:7f800001 13", "rt double:7ff0000000000001 14", "rt double:8000000000000000 14", "rt long:7fffffffffffffff 11"],
    # strings with quotes, backslashes, high bytes
    ["jnew 1", "set 1 6b str:225c27ff80c3a9", "get 2 1 6b undef", "gs 2", "show 1", "free 1"],
    # nested documents, path keys, overwrite, frame
    ["jnew 1", "jnew 2", "set 2 61 int8:fb", "set 1 782f79 h:2", "set 1 782f7a double:7ff8000000000000", "get 3 1 782f792f61 undef",
     "gn 3 5", "set 1 782f79 null", "get 4 1 782f79 int8:1", "get 5 1 782f7a undef", "gn 5 14", "show 1", "free 2", "free 1"],
    # null vs missing vs default
    ["jnew 1", "set 1 6e null", "set 1 70 nullptr", "get 2 1 6e default", "get 3 1 70 int8:7", "get 4 1 7a7a int8:7", "get 5 1 7a7a undef",
     "has 1 6e", "has 1 7a7a", "free 1"],
    # copies of handles; freeing through a copy; freeing a borrowed handle
    ["jnew 1", "cp 2 1", "set 2 61 int32:5", "get 3 1 61 undef", "free 3", "gn 3 9", "free 2", "dtnew 4 6d79 12", "cp 5 4", "dtq 5", "free 5",
     "mnew 6 64 3", "cp 7 6", "mq 7", "free 6", "mq 6"],
]

KNOWN_REPLAYS = [
    # C29-K1 (known): an element handle dangles after the array it points into grows
    ["jnew 1", "push 1 int32:1", "aget 2 1 0", "push 1 int32:2", "gn 2 9"],
]


def main(argv):
    ck = Check("C29", argv)
    ck.rule = ("(1) pure histories: every public constructor with extreme and random bit patterns (incl. garbage above the type's width), "
               "each value through occaJsonObjectSet/Get/occaJsonGetNumber with its own tag, another numeric tag or an invalid tag; "
               "(2) json histories over 1-3 documents: set/get/has with plain, path, escaped, empty and random keys; push/aget/insert/"
               "pop/clear; values = scalars of every constructor, strings with arbitrary bytes, null, nullptr, true/false, nested json "
               "handles, invalid kinds; typed read-backs; casts; copies of handles; frees of owners, copies and borrowed handles; "
               "dtype and memory handles interleaved; (3) kernel launches through occaKernelRunN / RunWithArgs / PushArg with every "
               "scalar type, a struct, a string and a null pointer into kernels that copy their arguments out. A history is "
               "non-trivial if the implementation produced at least one observation other than an error; distinct by SHA-1 of the op text. "
               "Histories in which the Lean model reports a stale or dead handle (or an empty pop) are outside the protocol and are not "
               "run against the real code, except the recorded replays.")
    ck.assumptions = ["LP64 little endian, two's complement, plain char is signed", "strings passed to the C API contain no NUL",
                      "float->integer conversions are only requested when the truncated value is representable (otherwise C++ UB)",
                      "borrowed json handles are used only while the enclosing containers are not structurally modified",
                      "negative array indices and pop on an empty array are outside the API contract (no bounds check in the C API)"]
    ck.translate(["gen_capi"])
    ck.prove("C29")
    hb = ck.harness("h_capi")
    db = ck.driver("drv_capi")
    if ck.replay:
        hs = [read_replay(ck.replay)]
        ck.correspond(hb, db, hs, label="capi", ubsan_is_violation=r"src/c/|internal/c/types|include/occa/c/")
        ck.finish(META["level_text"])
        return
    quick = ck.tier == "quick"
    n_json, n_pure, n_kern = (260, 120, 6) if quick else (12000, 4000, 150)
    cand = [gen_json_history(ck.rng) for _ in range(n_json)]
    # the model is the referee of the protocol: drop histories that touch stale/dead handles
    outside = 0
    if db:
        mo = ck.run_model(db, cand)
        keep = []
        for h, o in zip(cand, mo):
            if any(x in ("STALE", "TRAP", "unsupported") or x.startswith("BUG") for x in o):
                outside += 1
            else:
                keep.append(h)
        cand = keep
    ck.cov["counters"]["json_histories_outside_protocol_dropped"] = outside
    if outside > n_json // 5:
        ck.problems.append(("tie", "generator and model disagree on the handle protocol for %d of %d histories" % (outside, n_json)))
    ub = r"src/c/|internal/c/types|include/occa/c/"
    # recorded replays: LeakSanitizer is asked after every history (exact attribution)
    ck.correspond(hb, db, CORPUS + KNOWN_REPLAYS, label="corpus", timeout=900, ubsan_is_violation=ub, env={"H_CAPI_LEAK_EVERY": "1"})
    # generated histories: the leak check runs every 64 histories (it is slow); if it fires the batch is run again
    # with the check after every history so that the leaking history is identified and shrunk
    hs = cand + [gen_pure_history(ck.rng) for _ in range(n_pure)] + [gen_kernel_history(ck.rng) for _ in range(n_kern)]
    nv = len(ck.violations)
    ck.correspond(hb, db, hs, label="capi", timeout=1800, ubsan_is_violation=ub, env={"H_CAPI_LEAK_EVERY": "64"})
    if any("LeakSanitizer" in v["what"] or v["what"].endswith("impl= model=") for v in ck.violations[nv:]):
        del ck.violations[nv:]
        ck.notes.append("leak reported in batched mode: generated histories re-run with a leak check after every history")
        ck.correspond(hb, db, hs, label="capi-leakcheck", timeout=3600, ubsan_is_violation=ub, env={"H_CAPI_LEAK_EVERY": "1"})
    hs = CORPUS + KNOWN_REPLAYS + hs
    ops = [l.split()[0] for h in hs for l in h]
    for name in sorted(set(ops)):
        ck.cov["counters"]["op_" + name] = ops.count(name)
    ck.finish(META["level_text"])
