"""C09 — concurrent builds of the same kernel all succeed and agree."""
import os, random, re, shutil, threading, time
from concurrent.futures import ThreadPoolExecutor
from vlib import *
import _buildfs as B
from C08 import Job, outcome_ok, drive

META = {
    "technique": "Lean 4 proof over the cache file-system model of C08 with process ids on the steps: for every interleaving of any number of processes that obeys the staging discipline every intermediate state keeps 'every final-named file is a complete artefact', published files never disappear (no rmrf), a build on a filled cache starts no compiler, and (rely/guarantee program logic) the modelled build returns normally with its binary whatever other processes do between its steps; tied to /repo by real batches of 2-16 concurrent builder processes on one cache directory (seeded start delays after a common barrier), per-process exit status and kernel output, the cache directory compared file by file with complete artefacts, strace-merged traces of concurrent runs fed to the model's discipline and invariant evaluators, and a strace-recorded follow-up build that must not exec a compiler",
    "category": "proof",
    "level_text": "Partial. Proved for all interleavings, any number of processes, unbounded traces: C09_interleaving_good (every prefix Good, every open of a final name sees a complete file), C09_published_stays, C09_reuse_without_recompile (the modelled build on a filled cache returns the kernel and its step list contains no compiler run), C09_build_succeeds_under_interference (total correctness of the modelled Serial/OpenMP string/file build under any interference that keeps final names and leaves its temp names alone). Real schedules are sampled, not enumerated: batches of 2-16 processes with seeded random start delays build the same string- and file-based kernels on one cache; every process must exit 0 with the right values, the cache must contain only complete artefacts under final names, the merged strace of a batch must be accepted by the model's discipline with the invariant holding after every step, and a follow-up build must not start a compiler.",
    "level_note": "Outside the model / only sampled: the schedules themselves (the OS scheduler picks them; the proof covers all, the harness a seeded sample), timestamp-merged traces are an approximation of the true linearisation (used only for order-insensitive checks), page cache / NFS rename semantics, compiler temp files, the dynamic loader, rmrf-on-failure (explicit hypothesis noRmrf / parseOk; with a deterministic parser a failing and a succeeding build of one key cannot coexist), kernels with #include dependencies. Trusted: Lean kernel; the hand-written pipeline model (validated against strace in C08's H1); tools/checks/_buildfs.py; strace.",
    "design_ref": "DESIGN.md section 4, C08/C09",
}


class MultiJob:
    """one process building several kernels in a given order"""

    def __init__(self, mode, jobs):
        self.mode, self.jobs = mode, jobs

    def args(self, extra=()):
        a = [self.mode] + list(extra)
        for j in self.jobs:
            a.append(("s:%d" % j.C) if j.kind == "s" else "f:%d:%s" % (j.C, j.okl))
        return a

    def expected(self):
        return [B.expected_line(i, j.C) for i, j in enumerate(self.jobs)] + ["DONE"]

    def ok(self, rc, so):
        return rc == 0 and [l for l in so.splitlines() if l.strip() and l.strip() != "READY"] == self.expected()


def reference(ck, hb, ref, work, jobs):
    """solo cold builds: what the complete artefacts are"""
    def one(j):
        cache = os.path.join(work, "ref-%s%s%d" % (j.mode[0], j.kind, j.C))
        rc, so, se = B.run_plain(hb, cache, j.args())
        return j, cache, rc, so, se
    with ThreadPoolExecutor(max_workers=len(jobs)) as ex:
        for j, cache, rc, so, se in ex.map(one, jobs):
            if not outcome_ok(j, rc, so):
                ck.oracle_violation("a build running alone fails: rc=%s out=%s err=%s" % (rc, so.strip()[:200], se.strip()[-200:]),
                                    "solo %s" % j.name())
            ref.learn(cache, j.key, B.kernel_text(j.C))
            B.rmtree(cache)
    for p in ref.problems:
        ck.oracle_violation("reference build: " + p, "solo")
    ref.problems = []


def start_batch(hb, cache, procs, go, traced, work, tag):
    """procs: [(MultiJob, delay_us)] -> list of Popen"""
    ps = []
    for i, (mj, d) in enumerate(procs):
        args = mj.args(["--barrier", go, "--delay-us", str(d)])
        if traced:
            out = os.path.join(work, "%s-p%d.strace" % (tag, i))
            cmd = ["strace", "-f", "--seccomp-bpf", "-ttt", "-o", out, "-xx", "-s", "70000", "-e", "trace=" + B.TRACE_CALLS, hb] + args
        else:
            cmd = [hb] + args
        ps.append(B.popen_group(cmd, B.run_env(cache)))
    return ps


def batch(ck, hb, db, ref, work, mode, jobs, nproc, seed, traced, prewarm, ctx):
    rng = random.Random(seed)
    tag = "b%d" % ctx["batches"]
    ctx["batches"] += 1
    cache = os.path.join(work, "cache-" + tag)
    B.rmtree(cache)
    desc = "batch %s n=%d seed=%d traced=%d prewarm=%d kernels=%s" % (
        mode, nproc, seed, int(traced), int(prewarm), ",".join("%s%d" % (j.kind, j.C) for j in jobs))
    if prewarm:
        # the compiler probes (and one of the kernels) are already cached
        rc, so, se = B.run_plain(hb, cache, jobs[0].args())
        if not outcome_ok(jobs[0], rc, so):
            ck.oracle_violation("prewarm build fails: rc=%s out=%s" % (rc, so.strip()[:200]), desc)
    procs = []
    for i in range(nproc):
        order = list(jobs)
        if rng.random() < 0.5:
            rng.shuffle(order)
        # delays: many at (almost) the same instant, some spread over the length of a build
        d = rng.choice([0, 0, 0, rng.randint(0, 3000), rng.randint(0, 300000), rng.randint(0, 3000000)])
        procs.append((MultiJob(mode, order), d))
    go = os.path.join(work, tag + ".go")
    ps = start_batch(hb, cache, procs, go, traced, work, tag)
    # barrier: every process has created its device and waits
    for p in ps:
        line = p.stdout.readline()
    open(go, "w").write("go")
    results = [None] * nproc

    def fin(i):
        results[i] = B.finish_group(ps[i], 1800)
    ths = [threading.Thread(target=fin, args=(i,)) for i in range(nproc)]
    [t.start() for t in ths]
    [t.join() for t in ths]
    ck.cov["evaluations"] += nproc
    cnt = ck.cov["counters"]
    cnt["processes"] = cnt.get("processes", 0) + nproc
    cnt["batches"] = cnt.get("batches", 0) + 1
    allok = True
    for i, ((mj, d), (rc, so, se)) in enumerate(zip(procs, results)):
        if not mj.ok(rc, so):
            allok = False
            ck.oracle_violation("process %d of a concurrent batch of %d fails or computes wrong values: rc=%s out=%s err=%s"
                                % (i, nproc, rc, so.strip().replace("\n", " | ")[:240], se.strip()[-160:]), desc, name="batch")
    if allok:
        ck.cov["distinct_nontrivial"] += 1
    bad = B.cache_good(cache, ref)
    if bad:
        ck.oracle_violation("after a concurrent batch a final-named file is not a complete artefact: " + "; ".join(bad[:3]), desc, name="batch")
    names = {"dirs": {}, "toks": {}, "k": 0}
    if traced:
        merged = []
        for i in range(nproc):
            out = os.path.join(work, "%s-p%d.strace" % (tag, i))
            canon = B.Canon(cache, names)
            try:
                recs = B.parse_strace(out)
            except OSError:
                continue
            merged += canon.steps(recs, str(i + 1), with_ts=True)
            for n in canon.notes:
                ck.problems.append(("tie", "H3 %s: canonicaliser: %s" % (desc, n)))
        merged.sort(key=lambda x: x[0])
        steps = [l for (_, l) in merged]
        canon = B.Canon(cache, names)
        before = [] if not prewarm else None
        lines = ref.spec_lines(canon) + steps + ["check accepts", "check good"]
        # with a prewarmed cache the initial files are not known to the evaluator: check the discipline only
        if prewarm:
            lines = ref.spec_lines(canon) + steps + ["check accepts"]
        out = drive(ck, db, lines)
        cnt["merged_steps"] = cnt.get("merged_steps", 0) + len(steps)
        if out:
            for l, o in zip(lines, out):
                if l.startswith("check ") and not o.endswith(" 1"):
                    ck.problems.append(("tie", "H3 %s: merged trace of the batch: %s" % (desc, o[:300])))
                elif not l.startswith("check ") and o != "ok":
                    ck.problems.append(("tie", "H3 %s: driver rejected `%s`: %s" % (desc, B.short(l, 80), o)))
            ctx["samples"].append({"batch": desc, "merged_steps": len(steps), "verdict": [o for l, o in zip(lines, out) if l.startswith("check ")]})
    # follow-up: one process, all kernels, recorded: must not start a compiler
    fout = os.path.join(work, tag + "-followup.strace")
    mj = MultiJob(mode, jobs)
    rc, so, se = B.run_traced(hb, cache, mj.args(), fout)
    ck.cov["evaluations"] += 1
    if not mj.ok(rc, so):
        ck.oracle_violation("follow-up build after a concurrent batch fails or computes wrong values: rc=%s out=%s" % (rc, so.strip()[:200]), desc, name="batch")
    else:
        canon = B.Canon(cache, names)
        fsteps = canon.steps(B.parse_strace(fout), "1")
        execs = [s for s in fsteps if " exec " in s]
        cnt["followup_steps"] = cnt.get("followup_steps", 0) + len(fsteps)
        if execs:
            ck.oracle_violation("follow-up build after a concurrent batch recompiles: " + "; ".join(B.short(x, 80) for x in execs[:3]), desc, name="batch")
        writes = [s for s in fsteps if re.search(r" (creat|rename|mkdir) ", s)]
        cnt["followup_writes"] = cnt.get("followup_writes", 0) + len(writes)
    B.rmtree(cache)
    return allok


def slow_writer(ck, hb, ref, work, job, ctx):
    """process A's writes to the cache are slowed down (strace delay injection) so that every window between
    'file created' and 'content written' is hundreds of polls long; a watcher samples the cache directory and
    B, C build the same kernel meanwhile.  This is the deterministic replay of F35 (vendor `output`)."""
    cache = os.path.join(work, "cache-slow")
    B.rmtree(cache)
    # A's write ordinals from a recording
    rec = os.path.join(work, "slow-rec.strace")
    rcache = os.path.join(work, "cache-slow-rec")
    rc, so, se = B.run_traced(hb, rcache, job.args(), rec, follow=False)
    pts = [p for p in B.kill_points(B.parse_strace(rec), rcache, ["write"]) if p[2]]
    B.rmtree(rcache)
    if not pts:
        ck.problems.append(("tie", "slow-writer: no cache writes found in the recording"))
        return
    lo, hi = pts[0][1], pts[-1][1]
    delay = max(20000, min(120000, 6000000 // max(1, hi - lo + 1)))
    cmd = ["strace", "-o", os.path.join(work, "slow-a.strace"), "-e", "trace=write",
           "-e", "inject=write:delay_enter=%d:when=%d..%d" % (delay, lo, hi), hb] + job.args()
    pa = B.popen_group(cmd, B.run_env(cache))
    seen, polls = [], 0
    others, started = [], 0
    t0 = time.time()
    while pa.poll() is None and time.time() - t0 < 900:
        bad = B.cache_good(cache, ref)
        polls += 1
        if bad and not seen:
            seen = bad
            # a reader arriving exactly now
            others.append(B.popen_group([hb] + job.args(), B.run_env(cache)))
        if started < 2 and time.time() - t0 > 0.4 + 1.2 * started:
            others.append(B.popen_group([hb] + job.args(), B.run_env(cache)))
            started += 1
        time.sleep(0.003)
    ra = B.finish_group(pa, 900)
    res = [B.finish_group(p, 900) for p in others]
    ck.cov["counters"]["slow_writer_polls"] = polls
    ck.cov["evaluations"] += 1 + len(res)
    desc = "slow-writer %s" % job.name()
    if seen:
        ck.oracle_violation("while a build is in progress a final-named file is not a complete artefact: " + "; ".join(seen[:3]), desc, name="batch")
    for i, (rc, so, se) in enumerate([ra] + res):
        if not outcome_ok(job, rc, so):
            ck.oracle_violation("process %d of a concurrent batch of %d fails or computes wrong values: rc=%s out=%s"
                                % (i, 1 + len(res), rc, (so.strip() or se.strip()[-200:])[:240]), desc, name="batch")
    bad = B.cache_good(cache, ref)
    if bad:
        ck.oracle_violation("after a concurrent batch a final-named file is not a complete artefact: " + "; ".join(bad[:3]), desc, name="batch")
    B.rmtree(cache)


def publication_gap(ck, hb, ref, work, job, ctx):
    """A multi-file stage (io::stageFiles of {binary, output} in the OpenMP probe, {binary, build.log} in the vendor
    probe) publishes its files one rename after the other.  Builder A is stopped for seconds right before the
    LAST rename of such a stage (strace delay injection; the delay is 1.5 x the time a whole cold build took in the
    recording, so that the machine's load does not matter); a second builder is started
    as soon as the first file of the pair is visible, so that it meets the half-published stage."""
    rec = os.path.join(work, "gap-rec.strace")
    rcache = os.path.join(work, "cache-gap-rec")
    B.rmtree(rcache)
    t_rec = time.time()
    B.run_traced(hb, rcache, job.args(), rec, follow=False)
    t_rec = time.time() - t_rec
    recs = B.main_records(B.parse_strace(rec))
    B.rmtree(rcache)
    # a rename that follows another rename in the same directory with nothing but stat/close in between is the
    # LAST rename of a multi-file stage: (ordinal, its target base, directory, base published just before it)
    rn, n, prev, fds = [], 0, None, set()
    croot = os.path.realpath(rcache)
    for (pid, ts, name, args, ret, raw) in recs:
        if name == "rename":
            n += 1
            a = (B.str_arg(args[0]) or b"").decode(errors="replace")
            b = (B.str_arg(args[1]) or b"").decode(errors="replace")
            d = os.path.dirname(a)
            if prev is not None and prev[0] == d:
                rn.append((n, os.path.basename(b), d, prev[1]))
            prev = (d, os.path.basename(b))
        elif name == "openat" and len(args) > 2:
            pth = re.sub(r"/+", "/", (B.str_arg(args[1]) or b"").decode(errors="replace"))
            if pth.startswith(croot):
                # any open of a cache file between two renames means they belong to different stages
                prev = None
                if "O_CREAT" in args[2] and ret is not None and ret >= 0:
                    fds.add(ret)
        elif name == "write":
            if args and args[0].isdigit() and int(args[0]) in fds:
                prev = None
        elif name == "close":
            if args and args[0].isdigit():
                fds.discard(int(args[0]))
        elif name == "mkdir":
            prev = None
    ck.cov["counters"]["publication_gaps"] = len(rn)
    if not rn:
        return
    # one run per gap: a builder that arrives in an early gap completes the whole build itself, so the later
    # gaps of the same run would never open
    chosen = rn if ctx.get("all_gaps") else ctx["rng"].sample(rn, min(2, len(rn)))
    for (k, lastbase, d, firstbase) in chosen:
        cache = os.path.join(work, "cache-gap-%d" % k)
        B.rmtree(cache)
        cmd = ["strace", "-o", os.path.join(work, "gap-a.strace"), "-e", "trace=rename",
               "-e", "inject=rename:delay_enter=%d:when=%d" % (int(max(4.0, 1.5 * t_rec) * 1e6), k), hb] + job.args()
        pa = B.popen_group(cmd, B.run_env(cache))
        others = []
        t0 = time.time()
        dd = os.path.join(cache, "cache", os.path.basename(d))
        while pa.poll() is None and time.time() - t0 < 900:
            if not others and os.path.exists(os.path.join(dd, firstbase)) and not os.path.exists(os.path.join(dd, lastbase)):
                others.append(B.popen_group([hb] + job.args(), B.run_env(cache)))
            time.sleep(0.005)
        ra = B.finish_group(pa, 900)
        res = [B.finish_group(p, 900) for p in others]
        ck.cov["counters"]["publication_gap_builders"] = ck.cov["counters"].get("publication_gap_builders", 0) + len(res)
        ck.cov["evaluations"] += 1 + len(res)
        desc = "publication-gap %s" % job.name()
        for i, (rc, so, se) in enumerate([ra] + res):
            if not outcome_ok(job, rc, so):
                ck.oracle_violation("process %d of a concurrent batch of %d (the first one stopped between %s and %s) fails or computes wrong values: rc=%s out=%s"
                                    % (i, 1 + len(res), firstbase, lastbase, rc, (so.strip() or se.strip()[-200:])[:240]), desc, name="batch")
        bad = B.cache_good(cache, ref)
        if bad:
            ck.oracle_violation("after a concurrent batch a final-named file is not a complete artefact: " + "; ".join(bad[:3]), desc, name="batch")
        B.rmtree(cache)


CORPUS = ["slow-writer Serial s", "publication-gap OpenMP s"]


def main(argv):
    ck = Check("C09", argv)
    thorough = ck.tier == "thorough"
    ck.rule = ("one batch = (mode, 1-3 kernels string/file built by every process in a seeded order, number of processes 2-16, "
               "per-process start delay after a common barrier drawn from {0, <3ms, <300ms, <3s}, cold or prewarmed cache, "
               "with or without strace on every process); a batch counts as non-trivial when all its processes ran to completion "
               "with the right values; plus the slow-writer replay (strace delays one builder's cache writes while a watcher "
               "samples the directory and further builders start)")
    ck.assumptions = ["the compiler is deterministic", "rename(2) is atomic", "staged temp names never repeat across processes",
                      "no build of the batch takes the rmrf-on-failure path (all kernels parse)", "local file system"]
    ck.trusted.append("strace 6.1 for recording / delay injection; tools/checks/_buildfs.py canonicaliser; timestamp merge of per-process logs")
    ck.translate(["gen_hash", "gen_buildfs"])
    ck.prove("C09")
    hb = ck.harness("h_build")
    db = ck.driver("drv_buildfs")
    if hb is None or db is None:
        ck.finish(META["level_text"])
    rng = ck.rng
    work = B.fresh_dir("C09-%d" % ck.seed)
    ref = B.Ref()
    ctx = {"samples": [], "batches": 0, "rng": random.Random(ck.rng.random()), "all_gaps": thorough}
    try:
        C = [rng.randint(2, 40), rng.randint(41, 80), rng.randint(81, 120)]
        ser = [Job("Serial", "s", C[0], work), Job("Serial", "f", C[1], work), Job("Serial", "s", C[2], work)]
        omp = [Job("OpenMP", "s", C[0], work), Job("OpenMP", "f", C[1], work)]
        plan = []
        if ck.replay:
            for l in read_replay(ck.replay):
                m = re.match(r"batch (\w+) n=(\d+) seed=(\d+) traced=(\d) prewarm=(\d) kernels=(\S+)", l)
                if m:
                    js = [Job(m.group(1), k[0], int(k[1:]), work) for k in m.group(6).split(",")]
                    plan.append((m.group(1), js, int(m.group(2)), int(m.group(3)), m.group(4) == "1", m.group(5) == "1"))
                elif l.startswith("slow-writer") or l.startswith("publication-gap"):
                    plan.append(("slow" if l.startswith("slow") else "gap",
                                 [Job(l.split()[1], l.split()[2], int(l.split()[3]) if len(l.split()) > 3 else C[0], work)], 0, 0, False, False))
        elif thorough:
            plan.append(("slow", [ser[0]], 0, 0, False, False))
            plan.append(("slow", [omp[1]], 0, 0, False, False))
            plan.append(("gap", [omp[0]], 0, 0, False, False))
            plan.append(("gap", [ser[1]], 0, 0, False, False))
            for i in range(30):
                mode = "Serial" if i % 3 else "OpenMP"
                pool = ser if mode == "Serial" else omp
                js = rng.sample(pool, rng.randint(1, len(pool)))
                n = rng.choice([2, 2, 3, 4, 5, 6, 8, 8, 12, 16])
                plan.append((mode, js, n, rng.randint(0, 10**6), i % 5 == 0 and n <= 6, rng.random() < 0.3))
        else:
            plan.append(("slow", [ser[0]], 0, 0, False, False))
            plan.append(("gap", [omp[0]], 0, 0, False, False))
            plan.append(("Serial", ser[:2], 8, rng.randint(0, 10**6), False, False))
            plan.append(("OpenMP", omp[:1], 3, rng.randint(0, 10**6), True, False))
        used = []
        for (_, js, *_r) in plan:
            for j in js:
                if j.key not in [u.key for u in used]:
                    used.append(j)
        reference(ck, hb, ref, work, used)
        for (mode, js, n, seed, traced, prewarm) in plan:
            if mode == "slow":
                slow_writer(ck, hb, ref, work, js[0], ctx)
            elif mode == "gap":
                publication_gap(ck, hb, ref, work, js[0], ctx)
            else:
                batch(ck, hb, db, ref, work, mode, js, n, seed, traced, prewarm, ctx)
    except B.Infrastructure as e:
        B.rmtree(work)
        print("INFRASTRUCTURE-ERROR: libocca.so of %s cannot be loaded (%s); no verdict" % (BUILD, e))
        sys.exit(2)
    finally:
        B.rmtree(work)
    ck.cov["samples"] = ctx["samples"][:6] or [{"note": "no traced batch in this run"}]
    ck.finish(META["level_text"])
