"""C14 — Constant folding computes what C++ computes."""
import concurrent.futures
from vlib import *

META = {
    "technique": "Lean 4 proof that a model of occa's evaluator (dispatch rows, rank order, retType rules, literal typing "
                 "regenerated from primitive.cpp/.hpp) agrees with a C++17/LP64 semantics written from the standard, for all "
                 "integer/boolean expression trees; the semantics itself is validated against g++ constant evaluation; the real "
                 "parser+evaluator is run against both the model and g++ on generated expressions under ASan/UBSan",
    "category": "proof",
    "level_text": "Proof (no bounds, induction on the tree) for all expression trees whose C++ result is defined: value, signedness "
                  "and width of occa's result equal the C++ result (C14_agrees_partial for the integer/boolean fragment, "
                  "C14_agrees_float_partial with floating literals), literal text gets the C++ type also in context "
                  "(C14_literal_type, C14_literal_in_context, C14_float_literal_type), operands C++ does not evaluate are not "
                  "evaluated (C14_lazy_*), outside three listed deviations kept as known findings (~bool, bool&|^bool, ?: with "
                  "differently typed branches). For floating point the proof shows that occa applies the same IEEE operations to "
                  "the same operands in the same types as C++ prescribes; the IEEE operations themselves are uninterpreted and "
                  "covered by differential testing (model = occa = g++/clang on generated expressions).",
    "level_note": "Trusted: Lean kernel; translate/gen_prim.py (regex extraction of the case rows, rank order, retType rule, "
                  "integerLiteral branches, evaluate() bodies; hash pins of the hand-modelled functions); the hand transcription of "
                  "primitive::load's scanning loops and of evaluate() in OccaModel/Prim.lean (validated by the correspondence run); "
                  "that g++/clang implement the C++17 semantics stated in OccaModel/CxxSem.lean (validated on every run: CxxSem = "
                  "host compilers on all generated expressions, including which ones are undefined); that Lean's Float/Float32 "
                  "are the host's IEEE double/float (validated by the same run); strtod modelled exactly only for literals with "
                  "mantissa < 2^53 and |decimal exponent| <= 22; the expression parser is exercised (text -> tree) but not modelled.",
    "design_ref": "DESIGN.md section 4, C14",
}

# ----------------------------------------------------------------------------------------------- expression trees
# tree: ("L", text) | ("u", op, e) | ("b", op, l, r) | ("t", c, a, b)

PREC = {"*": 5, "/": 5, "%": 5, "+": 6, "-": 6, "<<": 7, ">>": 7, "<": 9, "<=": 9, ">": 9, ">=": 9,
        "==": 10, "!=": 10, "&": 11, "^": 12, "|": 13, "&&": 14, "||": 15}
ARITH = ["*", "/", "%", "+", "-"]
SHIFT = ["<<", ">>"]
REL = ["<", "<=", ">", ">=", "==", "!="]
BIT = ["&", "^", "|"]
LOGIC = ["&&", "||"]
UNOPS = ["!", "+", "-", "~"]
INT_SUFFIXES = ["", "u", "U", "l", "L", "ll", "LL", "ul", "uL", "Ul", "UL", "ull", "uLL", "Ull", "ULL",
                "lu", "lU", "Lu", "LU", "llu", "llU", "LLu", "LLU"]
BOUNDS = [0, 1, 2, 3, 7, 8, 9, 15, 16, 31, 32, 33, 63, 64, 65, 127, 128, 255, 256, 32767, 32768, 65535, 65536,
          2**31 - 2, 2**31 - 1, 2**31, 2**31 + 1, 2**32 - 2, 2**32 - 1, 2**32, 2**32 + 1,
          2**63 - 2, 2**63 - 1, 2**63, 2**63 + 1, 2**64 - 2, 2**64 - 1]


def int_literal(r, small=False):
    k = r.random()
    if small or k < 0.35:
        v = r.choice([0, 1, 2, 3, 4, 5, 7, 8, 10, 31, 32, 33, 63, 64, 100]) if r.random() < 0.7 else r.randint(0, 300)
    elif k < 0.70:
        v = r.choice(BOUNDS)
    elif k < 0.85:
        v = r.getrandbits(r.choice([8, 16, 31, 32, 33, 62, 63, 64]))
    else:
        v = max(0, min(2**64 - 1, r.choice(BOUNDS) + r.randint(-3, 3)))
    suf = r.choice(INT_SUFFIXES) if r.random() < 0.55 else ""
    base = r.choice(["d", "d", "d", "x", "x", "o", "b"])
    uns = "u" in suf.lower()
    if base == "d":
        if not uns and v > 2**63 - 1:       # no signed type fits: ill-formed in C++ -> make it unsigned
            suf = r.choice(["u", "U", "ul", "ULL", "llu"])
        return "%d%s" % (v, suf)
    if base == "x":
        h = "%x" % v
        h = "".join(c.upper() if r.random() < 0.4 else c for c in h)
        if r.random() < 0.1:
            h = "0" * r.randint(1, 3) + h
        return r.choice(["0x", "0X"]) + h + suf
    if base == "o":
        return "0" + ("%o" % v if v else r.choice(["", "0"])) + suf
    return r.choice(["0b", "0B"]) + ("{0:b}".format(v)) + suf


def float_literal(r):
    nd = r.choice([1, 1, 2, 3, 5, 7, 9, 15])
    digits = "".join(r.choice("0123456789") for _ in range(nd)).lstrip("0") or r.choice("0123456789")
    if r.random() < 0.3:
        digits = r.choice(["1", "2", "5", "10", "25", "125", "3", "16777217", "0", "4294967296", "9007199254740991"])
    if r.random() < 0.15:
        digits = "0" + digits          # leading zero as in 0.5 / 00.5 once split
    split = r.randint(0, len(digits))
    ip, fr = digits[:split], digits[split:]
    form = r.random()
    if form < 0.5:
        body = ip + "." + fr
        if body == ".":
            body = "0."
        dot = True
    else:
        body, fr, dot = digits, "", False
    # exponent so that mantissa * 10^e stays in the exactly converted subset |e10| <= 22
    emin, emax = -22 + len(fr), 22 + len(fr)
    emax = min(emax, 22 - 0)      # keep the magnitude moderate: mantissa < 1e16, e10 <= 22 - 16 for floats below
    need_exp = not dot
    if need_exp or r.random() < 0.4:
        lo = max(emin, -12)
        hi = min(emax, 12 if r.random() < 0.8 else 22)
        # keep |value| < 3e38 / well inside float range when an f suffix may follow
        hi = min(hi, 36 - len(digits))
        if hi < lo:
            hi = lo
        e = r.randint(lo, hi)
        sign = "-" if e < 0 else r.choice(["", "+"])
        body += r.choice("eE") + sign + str(abs(e))
    return body + r.choice(["", "", "f", "F"])


def literal(r, flt):
    k = r.random()
    if k < 0.08:
        return ("L", r.choice(["true", "false"]))
    if flt and k < 0.35:
        return ("L", float_literal(r))
    return ("L", int_literal(r))


FALSY = ["0", "false", "0u", "0L", "0x0", "00", "0ULL"]
TRUTHY = ["1", "true", "2u", "7L", "0x10", "01", "4294967296", "0x8000000000000000"]
UBS = [("b", "/", ("L", "1"), ("L", "0")), ("b", "%", ("L", "5u"), ("L", "0u")), ("b", "/", ("L", "1L"), ("L", "0")),
       ("b", "/", ("b", "-", ("u", "-", ("L", "2147483647")), ("L", "1")), ("u", "-", ("L", "1"))),
       ("b", "%", ("b", "-", ("u", "-", ("L", "9223372036854775807")), ("L", "1")), ("u", "-", ("L", "1L"))),
       ("b", "+", ("L", "2147483647"), ("L", "1")), ("b", "<<", ("L", "1"), ("L", "32")),
       ("b", ">>", ("L", "1"), ("u", "-", ("L", "1"))), ("b", "*", ("L", "9223372036854775807"), ("L", "2")),
       ("b", "/", ("L", "1"), ("b", "-", ("L", "3"), ("L", "3")))]


def relit(r, t):
    """same shape, literals re-drawn with the same spelling class (keeps the C++ type in most cases)"""
    if t[0] == "L":
        s = t[1]
        if s in ("true", "false"):
            return ("L", r.choice(["true", "false"]))
        if any(c in s for c in ".eE") and not s.lower().startswith("0x"):
            return t
        m = re.match(r"(0[xX]|0[bB]|0(?=[0-7])|)([0-9a-fA-F]*?)([uUlL]*)$", s)
        if not m or not m.group(2):
            return t
        pre, dig, suf = m.groups()
        base = 16 if pre.lower() == "0x" else 2 if pre.lower() == "0b" else 8 if pre == "0" else 10
        v = int(dig, base)
        nv = r.randint(v // 2, v) if v > 1 else r.randint(0, 1) if pre else v
        if base == 10 and nv == 0 and v != 0:
            nv = 1
        nd = {16: "%x", 8: "%o", 10: "%d"}.get(base, None)
        nds = (nd % nv) if nd else "{0:b}".format(nv)
        if base == 10 and v == 0:
            return t
        return ("L", pre + nds + suf)
    if t[0] == "u":
        return ("u", t[1], relit(r, t[2]))
    if t[0] == "b":
        return ("b", t[1], relit(r, t[2]), relit(r, t[3]))
    return ("t", relit(r, t[1]), relit(r, t[2]), relit(r, t[3]))


def gen_tree(r, depth, flt):
    if depth <= 0 or r.random() < 0.18:
        return literal(r, flt)
    k = r.random()
    if k < 0.13:
        return ("u", r.choice(UNOPS), gen_tree(r, depth - 1, flt))
    if k < 0.23:
        c = gen_tree(r, depth - 1, flt)
        a = gen_tree(r, depth - 1, flt)
        b = relit(r, a) if r.random() < 0.8 else gen_tree(r, depth - 1, flt)
        if r.random() < 0.25:      # an undefined operand in the branch that is not taken
            g = r.random() < 0.5
            c = ("L", r.choice(TRUTHY if g else FALSY))
            ub = r.choice(UBS)
            return ("t", c, a, ub) if g else ("t", c, ub, a)
        return ("t", c, a, b)
    if k < 0.31:       # guarded undefined behaviour
        op = r.choice(LOGIC)
        left = ("L", r.choice(FALSY if op == "&&" else TRUTHY)) if r.random() < 0.7 else gen_tree(r, depth - 1, flt)
        return ("b", op, left, r.choice(UBS) if r.random() < 0.7 else gen_tree(r, depth - 1, flt))
    grp = r.random()
    if grp < 0.38:
        op = r.choice(ARITH)
    elif grp < 0.54:
        op = r.choice(SHIFT)
    elif grp < 0.74:
        op = r.choice(REL)
    elif grp < 0.88:
        op = r.choice(BIT)
    else:
        op = r.choice(LOGIC)
    l = gen_tree(r, depth - 1, flt)
    if op in SHIFT and r.random() < 0.8:
        rr = ("L", int_literal(r, small=True))
    else:
        rr = gen_tree(r, depth - 1, flt)
    return ("b", op, l, rr)


CLASS_LITS = {
    "bool": ["true", "false"],
    "int": ["0", "1", "2", "3", "7", "31", "32", "33", "100", "2147483647", "0x7fffffff", "017", "0b101"],
    "uint": ["0u", "1u", "2U", "31u", "32u", "4294967295u", "0x80000000", "0xFFFFFFFF", "3000000000u", "037777777777"],
    "long": ["0L", "1l", "3LL", "63L", "64ll", "2147483648", "4294967296", "9223372036854775807", "0x100000000", "0x7fffffffffffffffL"],
    "ulong": ["0ul", "1UL", "2llu", "63uLL", "64Lu", "0x8000000000000000", "18446744073709551615u", "0xFFFFFFFFFFFFFFFF", "4294967296u"],
    "float": ["0.0f", "1.5f", "2.0F", "0.1f", "3e2f", "16777216.0f"],
    "double": ["0.0", "1.5", "2.", ".5", "0.1", "1e10", "4294967296.0"],
}


def matrix_trees(r, per_cell):
    """every operator on every pair of literal type classes (all dispatch rows and conversion pairs on every run)"""
    out = []
    classes = list(CLASS_LITS)
    for op in ARITH + SHIFT + REL + BIT + LOGIC:
        for ca in classes:
            for cb in classes:
                for _ in range(per_cell):
                    a = ("L", r.choice(CLASS_LITS[ca]))
                    b = ("L", r.choice(CLASS_LITS[cb]))
                    if r.random() < 0.3:
                        a = ("u", "-", a)
                    out.append(("b", op, a, b))
    for op in UNOPS:
        for ca in classes:
            for _ in range(2 * per_cell):
                out.append(("u", op, ("L", r.choice(CLASS_LITS[ca]))))
    for ca in classes:
        for cb in classes:
            out.append(("t", ("L", r.choice(CLASS_LITS[ca])), ("L", r.choice(CLASS_LITS[cb])), ("L", r.choice(CLASS_LITS[cb]))))
    return out


def prec(t):
    if t[0] == "L":
        return 0
    if t[0] == "u":
        return 3
    if t[0] == "b":
        return PREC[t[1]]
    return 16


def render(r, t, redundant=0.1):
    """-> (prefix tokens, text); parentheses are inserted where C++ precedence needs them (and sometimes
    where it does not) and appear as `p` nodes in the prefix form"""
    def par(sub, need):
        ptoks, txt = render(r, sub, redundant)
        if need or (r is not None and r.random() < redundant):
            return ["p"] + ptoks, "(" + txt + ")"
        return ptoks, txt
    if t[0] == "L":
        return ["L:" + t[1]], t[1]
    if t[0] == "u":
        ptoks, txt = par(t[2], prec(t[2]) > 3)
        sep = " " if (txt[0] in "+-" or (r is not None and r.random() < 0.2)) else ""
        return ["u:" + t[1]] + ptoks, t[1] + sep + txt
    if t[0] == "b":
        p = PREC[t[1]]
        lt, ltxt = par(t[2], prec(t[2]) > p)
        rt, rtxt = par(t[3], prec(t[3]) >= p)
        tight = (r is not None and r.random() < 0.15 and t[1] in ("*", "/", "%", "^", "==", "!=", "<=", ">=", "<", ">")
                 and rtxt[0] not in "+-*/&|<>=" and not ltxt[-1] in "eE+-")
        sep = "" if tight else " "
        return ["b:" + t[1]] + lt + rt, ltxt + sep + t[1] + sep + rtxt
    ct, ctxt = par(t[1], prec(t[1]) >= 16)
    at, atxt = par(t[2], False)
    bt, btxt = par(t[3], False)      # right associative: a nested ?: on the right needs no parentheses
    return ["t"] + ct + at + bt, ctxt + " ? " + atxt + " : " + btxt


def children(t):
    return {"L": [], "u": [t[2]] if t[0] == "u" else [], "b": list(t[2:4]) if t[0] == "b" else [],
            "t": list(t[1:4]) if t[0] == "t" else []}[t[0]]


def size(t):
    return 1 + sum(size(c) for c in children(t))


# ----------------------------------------------------------------------------------------------- host compiler oracle

GXX_PRELUDE = r"""
#include <cstdio>
#include <cstring>
static void pr(int i, bool v)               { printf("%d bool:%x\n", i, (unsigned) v); }
static void pr(int i, int v)                { printf("%d i32:%x\n", i, (unsigned) v); }
static void pr(int i, unsigned v)           { printf("%d u32:%x\n", i, v); }
static void pr(int i, long v)               { printf("%d i64:%lx\n", i, (unsigned long) v); }
static void pr(int i, unsigned long v)      { printf("%d u64:%lx\n", i, v); }
static void pr(int i, long long v)          { printf("%d i64:%llx\n", i, (unsigned long long) v); }
static void pr(int i, unsigned long long v) { printf("%d u64:%llx\n", i, v); }
static void pr(int i, float v)  { unsigned u; memcpy(&u, &v, 4); if (v != v) u = 0x7fc00000u; printf("%d f32:%x\n", i, u); }
static void pr(int i, double v) { unsigned long u; memcpy(&u, &v, 8); if (v != v) u = 0x7ff8000000000000ul; printf("%d f64:%lx\n", i, u); }
template <class T> static void pr(int i, T) { printf("%d other\n", i); }
"""


def gxx_batch(args):
    """texts -> list of 'T:<tag>:<hex>' | 'U' ; two passes: -fsyntax-only finds the rejected lines"""
    idx, texts, tmpdir = args
    src = os.path.join(tmpdir, "gxx_%d_%d.cpp" % (os.getpid(), idx))
    exe = src[:-4] + ".bin"
    n0 = GXX_PRELUDE.count("\n") + 1

    def write(skip):
        with open(src, "w") as f:
            f.write(GXX_PRELUDE)
            for i, t in enumerate(texts):
                f.write("constexpr auto v%d = (%s);\n" % (i, t) if i not in skip else "\n")
            f.write("int main() {\n")
            for i in range(len(texts)):
                if i not in skip:
                    f.write("  pr(%d, v%d);\n" % (i, i))
            f.write("  return 0;\n}\n")
    write(set())
    # "defined" = accepted as a constant expression by BOTH compilers: g++ 12 loses the overflow flag of
    # `INT_MIN / -1`, `INT_MAX + 1` under && || ?: (accepts them), clang 14 accepts floating results that are
    # infinite; each is strict where the other is lax
    bad = set()
    for cmd in (["g++", "-std=c++17", "-fsyntax-only", "-fmax-errors=0", "-w", src],
                ["clang++-14", "-std=c++17", "-fsyntax-only", "-ferror-limit=0", "-w", src]):
        rc, so, se = sh(cmd, timeout=900)
        found = set(int(m.group(1)) - n0 for m in re.finditer(r"^%s:(\d+):\d+: error" % re.escape(src), se, re.M))
        if rc != 0 and not found:
            return ["?"] * len(texts), "%s failed without line diagnostics: %s" % (cmd[0], se[-300:])
        bad |= found
    write(bad)
    rc, so, se = sh(["g++", "-std=c++17", "-O0", "-w", src, "-o", exe], timeout=900)
    if rc != 0:
        return ["?"] * len(texts), "g++ second pass failed: " + se[-300:]
    rc, so, se = sh([exe], timeout=120)
    res = ["U" if i in bad else "?" for i in range(len(texts))]
    for line in so.splitlines():
        i, v = line.split(" ", 1)
        res[int(i)] = "U" if v == "other" else "T:" + v
    for p in (src, exe):
        try:
            os.unlink(p)
        except OSError:
            pass
    return res, None


def host_compiler(ck, texts, batch=400, workers=4):
    tmpdir = os.path.join(BUILD, "tmp")
    jobs = [(i, texts[i:i + batch], tmpdir) for i in range(0, len(texts), batch)]
    out = [None] * len(texts)
    with concurrent.futures.ThreadPoolExecutor(max_workers=workers) as ex:
        for (i, chunk, _), (res, err) in zip(jobs, ex.map(gxx_batch, jobs)):
            if err:
                ck.problems.append(("tie", "host compiler oracle unavailable: " + err))
            out[i:i + len(chunk)] = res
    ck.cov["counters"]["gxx_batches"] = ck.cov["counters"].get("gxx_batches", 0) + len(jobs)
    return out


# ----------------------------------------------------------------------------------------------- corpus

CORPUS_EXPRS = [
    # (prefix form, text)  — ledger defects first (each is a one-line history)
    ("b:&& L:0 p b:/ L:1 L:0", "0 && (1 / 0)"),                       # F18
    ("b:|| L:1 p b:/ L:1 L:0", "1 || (1 / 0)"),                       # F18
    ("b:> L:2147483648 L:0", "2147483648 > 0"),                       # F19
    ("b:> L:0xFFFFFFFF L:0", "0xFFFFFFFF > 0"),                       # F19
    ("L:4294967296", "4294967296"),                                   # F19
    ("L:037777777777", "037777777777"),                               # F19 (octal)
    ("b:>> u:- L:1 L:1u", "-1 >> 1u"),                                # F20
    ("b:<< L:1 L:2L", "1 << 2L"),                                     # F20
    ("b:== L:1 L:1.0f", "1 == 1.0f"),                                 # F21
    ("b:!= L:2 L:2.0", "2 != 2.0"),                                   # F21
    ("b:== u:- L:0.0 L:0.0", "-0.0 == 0.0"),                          # F21
    ("u:! L:1.5", "!1.5"),                                            # F35
    ("b:&& L:1.5 L:2", "1.5 && 2"),                                   # F35
    ("b:|| L:0.0 L:0", "0.0 || 0"),                                   # F35
    ("b:- L:1 u:- L:2", "1 - -2"),                                    # F39 (parser)
    ("b:& p b:+ L:0 L:2 u:- L:1", "(0 + 2) & -1"),                    # F39
    ("b:+ L:2 u:! L:0101", "2 + !0101"),                              # F39
    ("t L:1 L:2 b:/ L:1 L:0", "1 ? 2 : 1 / 0"),
    ("t L:0 b:/ L:1 L:0 L:2", "0 ? 1 / 0 : 2"),                       # the TRUE operand must not be evaluated either
    ("t L:0 b:<< L:1 L:32 t L:1 L:5 b:% L:1 L:0", "0 ? 1 << 32 : 1 ? 5 : 1 % 0"),
    ("b:+ p b:&& L:0 b:/ L:1 L:0 p b:|| L:1 b:/ L:1 L:0", "(0 && 1 / 0) + (1 || 1 / 0)"),
    ("b:&& L:1 b:&& L:0 b:/ L:1 L:0", "1 && 0 && 1 / 0"),
    ("b:|| L:0 b:|| L:2 b:/ L:1 L:0", "0 || 2 || 1 / 0"),
    ("t L:1 L:2 t L:0 L:3 L:4", "1 ? 2 : 0 ? 3 : 4"),                 # F40 (parser): groups right-to-left
    ("t L:1 t L:0 L:2 L:3 L:4", "1 ? 0 ? 2 : 3 : 4"),                 # F40: conditional in the middle operand
    ("t L:0 t L:1 L:2 L:3 t L:0 L:5 L:6", "0 ? 1 ? 2 : 3 : 0 ? 5 : 6"),
    ("b:+ L:true L:true", "true + true"),
    ("u:- L:true", "-true"),
    ("b:* L:2147483648u L:3", "2147483648u * 3"),
    ("b:- L:0 L:9223372036854775808ull", "0 - 9223372036854775808ull"),
    ("b:<< L:1 L:31", "1 << 31"),
    ("b:< u:- L:1 L:0u", "-1 < 0u"),
    ("b:< u:- L:1 L:0L", "-1 < 0L"),
    ("b:+ L:16777217 L:0.0f", "16777217 + 0.0f"),
    ("b:* L:0.1 L:3", "0.1 * 3"),
    ("b:== L:0.1 L:0.1f", "0.1 == 0.1f"),                             # float is widened, not double narrowed
    ("b:== L:16777217 L:16777216.0f", "16777217 == 16777216.0f"),     # int -> float rounds
    ("b:< L:0.1f L:0.1", "0.1f < 0.1"),
    ("b:+ L:0.1f L:0.2f", "0.1f + 0.2f"),
    ("b:/ L:1 L:3.0", "1 / 3.0"),
    ("b:* L:9007199254740993ull L:1.0", "9007199254740993ull * 1.0"),  # uint64 -> double rounds to even
    ("t L:0.5 L:1 L:2", "0.5 ? 1 : 2"),
    ("b:/ L:1 L:0", "1 / 0"),                                         # trap (undefined in C++)
    ("b:% p b:- u:- L:2147483647 L:1 u:- L:1", "(-2147483647 - 1) % -1"),
]
# known findings: canonical replays (kept as known findings, see known_findings.jsonl)
KNOWN_EXPRS = [
    ("u:~ L:true", "~true"),                                                       # F36
    ("b:& L:true L:false", "true & false"),                                        # F37
    ("b:< p t L:true u:- L:1 L:0u L:0", "(true ? -1 : 0u) < 0"),                   # F38
]
P_CORPUS = ["P -15", "P -0xF", "P 0b1111", "P -0B00001111", "P 15.01", "P -15.01", "P 1e-16", "P 1.e-16", "P -_5",
            "P 0x7fffffff", "P 4294967295", "P -2147483648", "P 12lu", "P 1e5f", "P true", "P false", "P +7", "P 0x", "P abc",
            "P 18446744073709551615u", "P -9223372036854775808", "P 0777", "P .5", "P 5.", "P 1E+2F", "P 089"]


def gen_P(r):
    k = r.random()
    sign = r.choice(["", "", "-", "+", "-_", "+_"])
    if k < 0.6:
        return "P " + sign + int_literal(r)
    if k < 0.9:
        f = float_literal(r)
        if "_" in sign and f[-1] not in "fF":
            sign = sign[0]      # "- 1.5": occa::parseDouble returns an uninitialised double when sscanf fails
        return "P " + sign + f  # (reported by the JSON property's owner); not generated: not deterministic
    # malformed / odd texts: load must behave like the model (no claim about C++ here)
    return "P " + sign + r.choice(["true", "false", "0x", "0b2", "x1", "1e", "08", "0x1G", "1uu", "1lll", "1ulu", "1.5.2"])


# ----------------------------------------------------------------------------------------------- shrinking inside an expression

def parse_prefix(toks):
    """prefix tokens -> (tree with explicit ("p", e) nodes, rest)"""
    t, rest = toks[0], toks[1:]
    if t.startswith("L:"):
        return ("L", t[2:]), rest
    if t == "p":
        e, rest = parse_prefix(rest)
        return ("p", e), rest
    if t.startswith("u:"):
        e, rest = parse_prefix(rest)
        return ("u", t[2:], e), rest
    if t.startswith("b:"):
        l, rest = parse_prefix(rest)
        r, rest = parse_prefix(rest)
        return ("b", t[2:], l, r), rest
    if t == "t":
        c, rest = parse_prefix(rest)
        a, rest = parse_prefix(rest)
        b, rest = parse_prefix(rest)
        return ("t", c, a, b), rest
    raise ValueError(t)


def strip_parens(t):
    if t[0] == "p":
        return strip_parens(t[1])
    if t[0] == "L":
        return t
    if t[0] == "u":
        return ("u", t[1], strip_parens(t[2]))
    if t[0] == "b":
        return ("b", t[1], strip_parens(t[2]), strip_parens(t[3]))
    return ("t", strip_parens(t[1]), strip_parens(t[2]), strip_parens(t[3]))


def smaller(t):
    """candidate replacements of tree t, smallest first: a child, or t with one sub-tree replaced"""
    kids = children(t)
    for k in kids:
        yield k
    if t[0] == "L" and t[1] not in ("0", "1"):
        yield ("L", "1")
        yield ("L", "0")
    for i, k in enumerate(kids):
        for k2 in smaller(k):
            if t[0] == "u":
                yield ("u", t[1], k2)
            elif t[0] == "b":
                yield ("b", t[1], k2, t[3]) if i == 0 else ("b", t[1], t[2], k2)
            else:
                parts = list(t[1:])
                parts[i] = k2
                yield ("t",) + tuple(parts)


def shrink_violations(ck, hb, db, env, budget=60):
    """ddmin in vlib works on op lines; a failing line still holds a whole expression tree.  Replace
    sub-trees by their children / by 0 and 1 while the line keeps failing (the expected value is
    recomputed by the host compilers for every candidate), and rewrite the replay file."""
    for v in ck.violations:
        if not v.get("found_input") or budget <= 0:
            continue
        try:
            lines = read_replay(v["replay"])
            es = [l for l in lines if l.startswith("E ")]
            if len(es) != 1 or len(lines) != 1:
                continue
            toks = es[0].split()
            pre = toks[2:toks.index(";")]
            tree = strip_parens(parse_prefix(pre)[0])
        except Exception:
            continue
        best, best_line = tree, es[0]
        improved = True
        while improved and budget > 0:
            improved = False
            for cand in smaller(best):
                if size(cand) >= size(best) and cand[0] != "L":
                    continue
                budget -= 1
                ptoks, text = render(None, cand, redundant=0)
                exp = host_compiler(ck, [text], workers=1)[0]
                if exp == "?":
                    continue
                line = "E %s %s ; %s" % (exp, " ".join(ptoks), text)
                if ck._fails(hb, db, [line], env, None, None, None):
                    best, best_line, improved = cand, line, True
                    break
                if budget <= 0:
                    break
        if best_line != es[0]:
            im, om, mo = ck._eval(hb, db, [best_line], env, None, None, None)
            what = ck._what("constfold", im, mo, om)
            head = [l for l in open(v["replay"]) if l.startswith("##")]
            with open(v["replay"], "w") as f:
                f.write("".join(head[:1]))
                f.write("## %s\n## impl:  %s\n## model: %s\n## (expression shrunk from: %s)\n" % (
                    what.replace("\n", " "), " | ".join(im)[:300], " | ".join(mo)[:300], es[0][:400]))
                f.write(best_line + "\n")
            v["what"] = what


# ----------------------------------------------------------------------------------------------- main

def main(argv):
    ck = Check("C14", argv)
    ck.rule = ("random expression trees (depth <= 5) over integer literals of every base/suffix/case at type boundaries, bool "
               "and floating literals, all unary/binary/conditional operators, C++-minimal and redundant parentheses, with "
               "undefined sub-expressions planted in operands C++ does not evaluate; every tree is evaluated by the real occa "
               "parser+evaluator, by the Lean model, by the Lean C++ semantics and by g++ (constexpr). Non-trivial = g++ accepts "
               "it as a constant expression (defined C++ result); distinct by SHA-1 of the text")
    ck.assumptions = ["LP64 host, two's complement, IEEE-754", "g++ -std=c++17 constant evaluation is the reference C++ semantics",
                      "long and long long are identified (same width and signedness)"]
    stamps = [("start", time.time())]
    ck.translate(["gen_prim"])
    ck.prove("C14")
    stamps.append(("proofs", time.time()))
    hb = ck.harness("h_prim")
    db = ck.driver("drv_prim")
    stamps.append(("harness+driver", time.time()))
    if hb is None or db is None:
        ck.finish(META["level_text"])
    env = {"ASAN_OPTIONS": "detect_leaks=0:abort_on_error=0:exitcode=66:allocator_may_return_null=1:handle_sigfpe=0"}

    if ck.replay:
        ck.correspond(hb, db, [read_replay(ck.replay)], label="constfold", env=env)
        ck.finish(META["level_text"])

    n = int(os.environ.get("VERIF_C14_N", "0")) or (5000 if ck.tier == "quick" else 60000)
    r = ck.rng
    cands = list(CORPUS_EXPRS) + list(KNOWN_EXPRS)
    ncorpus = len(cands)
    seen = set(t for _, t in cands)
    for tree in matrix_trees(r, 1 if ck.tier == "quick" else 6):
        ptoks, text = render(r, tree, redundant=0.05)
        if text not in seen:
            seen.add(text)
            cands.append((" ".join(ptoks), text))
    nmatrix = len(cands) - ncorpus
    while len(cands) < n + ncorpus:
        flt = r.random() < 0.35
        tree = gen_tree(r, r.choice([1, 2, 2, 3, 3, 4, 5]), flt)
        ptoks, text = render(r, tree)
        if text in seen or len(text) > 900:
            continue
        seen.add(text)
        cands.append((" ".join(ptoks), text))

    # 1. the specification's and the model's verdict (Lean)
    sres = ck.run_model(db, [["S " + p for p, _ in cands[i:i + 500]] for i in range(0, len(cands), 500)])
    sres = [x for chunk in sres for x in chunk]
    if len(sres) != len(cands) or any(x == "bad-op" or x.count(" | ") != 2 for x in sres):
        bad = [cands[i] for i, x in enumerate(sres[:len(cands)]) if x == "bad-op" or x.count(" | ") != 2][:3]
        ck.problems.append(("tie", "driver could not read generated expressions: %s" % bad))
        ck.finish(META["level_text"])
    spec = [x.split(" | ")[0] for x in sres]
    model = [x.split(" | ")[1] for x in sres]
    flags = [x.split(" | ")[2].split(",") for x in sres]

    stamps.append(("generate+spec", time.time()))
    # 2. the host compiler's verdict
    host = host_compiler(ck, [t for _, t in cands], workers=4 if ck.tier == "quick" else 8)
    stamps.append(("host compilers", time.time()))

    # 3. specification vs host compiler: validates CxxSem (value, type, and definedness)
    cnt = ck.cov["counters"]
    cnt.update({"candidates": len(cands), "matrix_cells": nmatrix, "host_defined": 0, "host_rejected": 0, "spec_unsupported": 0, "unclean_dropped": 0,
                "model_ub_skipped": 0, "float_exprs": 0, "guarded_ub_defined": 0})
    spec_bad = 0
    for i, (p, t) in enumerate(cands):
        h, s = host[i], spec[i]
        if h == "?":
            continue
        if s == "unsupported":
            cnt["spec_unsupported"] += 1
            continue
        want = ("val " + h[2:].replace(":", " ")) if h.startswith("T:") else None
        ok = (s == want) if want else not s.startswith("val ")
        if h.startswith("T:"):
            cnt["host_defined"] += 1
            if "integral" not in flags[i]:
                cnt["float_exprs"] += 1
            if "/ 0" in t or "% 0" in t or "<< 32" in t or "/0" in t:
                cnt["guarded_ub_defined"] += 1
        else:
            cnt["host_rejected"] += 1
        if not ok:
            spec_bad += 1
            if spec_bad <= 5:
                ck.problems.append(("tie", "the C++ semantics in OccaModel/CxxSem.lean disagrees with g++: text `%s` spec=%s g++=%s"
                                    % (t, s, h)))
    cnt["spec_vs_host_disagreements"] = spec_bad

    # 4. histories for the real evaluator: expected value from the host compiler
    corpus_lines, known_lines, gen_lines = [], [], []
    nplain = ncorpus - len(KNOWN_EXPRS)
    for i, (p, t) in enumerate(cands):
        if host[i] == "?" or spec[i] == "unsupported":
            continue
        line = "E %s %s ; %s" % (host[i], p, t)
        if i < nplain:
            corpus_lines.append(line)
        elif i < ncorpus:
            known_lines.append(line)
        elif "unclean" in flags[i]:
            cnt["unclean_dropped"] += 1       # steer around the known findings F36-F38
        elif model[i] == "ub" and host[i] == "U":
            cnt["model_ub_skipped"] += 1      # undefined in C++ and in occa's own host code: nothing to compare
        else:
            gen_lines.append(line)
    hs = [[l] for l in corpus_lines]
    hs += [gen_lines[i:i + 20] for i in range(0, len(gen_lines), 20)]
    # primitive::load on signed strings (the json / string constructor path)
    hs += [P_CORPUS] + [[gen_P(r) for _ in range(20)] for _ in range(10 if ck.tier == "quick" else 300)]

    # canonical replays of the known findings: already minimal, run directly (no shrinking rounds)
    if known_lines:
        kh = [[l] for l in known_lines]
        kimpl, kora, _ = ck.run_impl(hb, kh, timeout=1800, env=env)
        kmodel = ck.run_model(db, kh, timeout=1800)
        for i, l in enumerate(known_lines):
            if kora[i] or kimpl[i] != kmodel[i]:
                ck.oracle_violation(ck._what("constfold", kimpl[i], kmodel[i], kora[i]), l)
            else:
                ck.notes.append("known finding no longer reproduces: " + l)
        cnt["known_finding_replays"] = len(known_lines)

    def nontrivial(h, impl):
        return any(l.startswith("E T:") for l in h) or any(l.startswith("P ") for l in h)
    ck.correspond(hb, db, hs, label="constfold", env=env, nontrivial=nontrivial, timeout=1800)
    stamps.append(("occa+model", time.time()))
    shrink_violations(ck, hb, db, env)
    ck.notes.append("stage seconds: " + ", ".join("%s %.0f" % (n, t - stamps[i][1]) for i, (n, t) in enumerate(stamps[1:])))
    cnt["expressions_evaluated_by_occa"] = len(corpus_lines) + len(known_lines) + len(gen_lines)
    ck.cov["evaluations"] = sum(len(h) for h in hs) + len(known_lines)
    ck.cov["distinct_nontrivial"] = len(set(l for h in hs for l in h if l.startswith("E T:")))
    ck.cov["samples"] = [{"text": cands[i][1], "g++": host[i], "spec": spec[i], "model": model[i]}
                         for i in range(ncorpus, min(len(cands), ncorpus + 6))] + ck.cov["samples"][:2]
    ck.finish(META["level_text"])
