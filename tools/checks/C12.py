"""C12 — The tokenizer never crashes and re-reads its own token spellings."""
from vlib import *

META = {
    "technique": "Lean 4 theorems over a model of tokenizer_t (skip loops, primitive::load scanner, operator longest match over the "
                 "generated operator table, string/char/raw-string/comment scanners, escape/unescape, token printers) with every "
                 "look-ahead an explicit bounds-checked read; differential run of the model against the real tokenizer under ASan/UBSan "
                 "on grammar-generated token lists (printed by the real printers, re-tokenized) and on arbitrary/mutated byte strings",
    "category": "proof",
    "level_text": "Proof, for all inputs: the token loop never reads or steps past the terminating NUL and terminates (every getToken "
                  "consumes at least one character); operators are split by longest match over the operator table regenerated from "
                  "operator.cpp; every well-formed token (identifier, operator, numeric literal of the C/OKL grammar, string/char "
                  "literal with prefix, escapes and udf, raw string, line and block comment) printed and followed by whitespace is "
                  "read back as itself, and a whitespace-separated list of such tokens tokenizes to the same list. Tied to the code by "
                  "the regenerated tables/source-shape flags and a seeded differential run of the real tokenizer against the model.",
    "level_note": "Trusted: Lean kernel; translate/gen_lex.py (regex extraction of the operator table, character sets, encoding bits and "
                  "of the statement shapes the model assumes); the hand-written model OccaModel/Lex.lean (validated by the correspondence "
                  "run, not proved equal to the C++); the operator trie is replaced by a search of the table (C28 proves the trie); the "
                  "terminating NUL of the source buffer is the one stated assumption; memory safety of the C++ itself is observed by "
                  "ASan only; numeric values of literals are C14's subject (only spellings and extents here).",
    "design_ref": "DESIGN.md section 4, C12",
}

ENC = {"": 0, "u8": 2, "u": 4, "U": 8, "L": 16}
WS = " \t\r\v\f"
IDS = "abcdefghijklmnopqrstuvwxyzABCDEFGHIJKLMNOPQRSTUVWXYZ_"
IDC = IDS + "0123456789"
OPWORDS = {"sizeof", "new", "delete", "throw", "typeid", "noexcept", "alignof", "true", "false"}
HOT = ['"', "'", "\\", "\n", "/", "*", "R", "u", "8", "U", "L", "0", "x", "b", "1", "e", "E", "+", "-", ".", "(", ")", "_", " ",
       "\t", "f", "l", "<", ">", "=", "#", "@", ":", "t", "r", "a", "s", "i", "z", "o", "n", "w", "\r", "9", "&", "|", "?", "`", "$"]


def hx(s):
    b = s.encode("latin1") if isinstance(s, str) else bytes(s)
    return b.hex() or "-"


def operators():
    """registered operator spellings in id order, read from the generated Lean table (tie T is the single source)"""
    txt = open(os.path.join(LEAN, "OccaGen", "Operators.lean")).read()
    body = txt[txt.index("def registered"):txt.index("def registeredNames")]
    ops = []
    for line in body.splitlines():
        line = line.strip().rstrip(",")
        if line.startswith("[") and line.endswith("]") and "'" in line:
            cs = re.findall(r"'(\\.|[^'])'", line)
            ops.append("".join(c[-1] for c in cs))
    return ops


# ------------------------------------------------------------------ grammar stream

def r_ident(r):
    k = r.random()
    if k < 0.25:
        return r.choice(["true_var", "false_case", "true1", "false0", "truex", "L", "u", "U", "R", "u8", "u8R", "LR", "Ru", "x8",
                         "sizeofx", "news", "_", "__x", "int", "e5", "E", "f", "l", "ul", "x1F", "b101", "deleted", "typeid_", "R_",
                         "trueish", "falsetto", "_true", "a"])
    while True:
        s = r.choice(IDS) + "".join(r.choice(IDC) for _ in range(r.choice([0, 0, 1, 2, 3, 5, 8, 20])))
        if s not in OPWORDS:
            return s


def r_digits(r, alpha="0123456789", lo=1):
    return "".join(r.choice(alpha) for _ in range(r.choice([lo, lo, lo + 1, lo + 2, 5, 10, 19, 25])))


def r_isuffix(r):
    return r.choice(["", "", "", "u", "U", "l", "L", "ul", "UL", "lu", "LU", "ll", "LL", "ull", "ULL", "llu", "LLU", "uLL", "Ul"])


def r_number(r):
    k = r.random()
    if k < 0.08:
        return r.choice(["true", "false"])
    if k < 0.35:
        return r_digits(r) + r_isuffix(r)
    if k < 0.5:
        return "0" + r.choice("xX") + r_digits(r, "0123456789abcdefABCDEF") + r_isuffix(r)
    if k < 0.6:
        return "0" + r.choice("bB") + r_digits(r, "01") + r_isuffix(r)
    # floating
    form = r.randint(0, 3)
    if form == 0:
        m = r_digits(r) + "." + r_digits(r, lo=0)
    elif form == 1:
        m = "." + r_digits(r)
    elif form == 2:
        m = r_digits(r) + "." + r_digits(r)
    else:
        m = r_digits(r)
    ex = ""
    if form == 3 or r.random() < 0.5:
        ex = r.choice("eE") + r.choice(["", "+", "-"]) + r_digits(r)
    return m + ex + r.choice(["", "", "f", "F", "l", "L"])


def r_units(r, q, allow_nl_pair=True):
    """a value in the range of the string/char scanner: plain characters (the quote included, it comes from \\q)
       and backslash pairs \\x with x != q"""
    out = []
    for _ in range(r.choice([0, 1, 1, 2, 3, 5, 9, 30])):
        k = r.random()
        if k < 0.2:
            out.append(q)
        elif k < 0.45:
            x = r.choice(["\\", "n", "t", "0", "x", "'" if q == '"' else '"', "a", " "] + (["\n"] if allow_nl_pair else []))
            out.append("\\" + x)
        else:
            c = chr(r.choice([r.randint(32, 126), r.randint(1, 255), r.randint(32, 126)]))
            if c in ("\\", "\n", "\0"):
                c = "z"
            out.append(c)
    return "".join(out)


def r_raw(r):
    n = r.choice([0, 1, 2, 5, 12])
    alpha = ['"', ")", "(", "_", "\\", "\n", "a", " ", ")\"", ")_\"", "'"]
    return "".join(r.choice(alpha) if r.random() < 0.6 else chr(r.randint(1, 255)) for _ in range(n))


def r_udf(r):
    return "" if r.random() < 0.7 else "_" + "".join(r.choice(IDC) for _ in range(r.randint(0, 4)))


def r_line_comment(r):
    body = []
    for _ in range(r.choice([0, 1, 3, 8, 20])):
        k = r.random()
        if k < 0.1:
            body.append("\\" + r.choice(["\n", "\\", "a", "*", "/"]))
        else:
            c = chr(r.choice([r.randint(32, 126), r.randint(1, 255)]))
            body.append("z" if c in ("\\", "\n") else c)
    return "//" + "".join(body)


def r_block_comment(r):
    while True:
        body = "".join(r.choice(["*", "/", "\\", "\n", " ", "a", "\\*", "*\\", '"', "'", "//", "/*"]) if r.random() < 0.7
                       else chr(r.randint(1, 255)) for _ in range(r.choice([0, 1, 2, 3, 6, 15])))
        if "*/" not in body + "*":
            return "/*" + body + "*/"


def r_sep(r, must_start_nl=False):
    s = "\n" if must_start_nl else r.choice(WS if r.random() < 0.3 else " ")
    for _ in range(r.choice([0, 0, 0, 1, 2, 4])):
        k = r.random()
        s += "\n" if k < 0.25 else ("\\\n" if k < 0.32 else r.choice(WS))
    return s


def gen_roundtrip(r, nops):
    items = []
    for _ in range(r.choice([1, 2, 3, 5, 8, 13, 30])):
        k = r.random()
        nl = False
        if k < 0.2:
            items.append("I:" + hx(r_ident(r)))
        elif k < 0.4:
            items.append("P:" + hx(r_number(r)))
        elif k < 0.62:
            items.append("O:%d" % r.choice(nops))
        elif k < 0.78:
            if r.random() < 0.25:
                enc = ENC[r.choice(list(ENC))] | 1
                items.append("S:%d:%s:%s" % (enc, hx(r_raw(r)), hx(r_udf(r))))
            else:
                items.append("S:%d:%s:%s" % (ENC[r.choice(list(ENC))], hx(r_units(r, '"')), hx(r_udf(r))))
        elif k < 0.88:
            items.append("C:%d:%s:%s" % (r.choice([0, 4, 8, 16]), hx(r_units(r, "'")), hx(r_udf(r))))
        elif k < 0.94:
            items.append("M:" + hx(r_line_comment(r)))
            nl = True
        else:
            items.append("M:" + hx(r_block_comment(r)))
        items.append("W:" + hx(r_sep(r, nl)))
    return "R " + " ".join(items)


# ------------------------------------------------------------------ byte stream

def py_print(item, ops):
    """the repaired printers, only used to produce realistic text to mutate (never as an oracle)"""
    p = item.split(":")
    b = lambda h: b"" if h == "-" else bytes.fromhex(h)
    if p[0] in ("I", "P", "M", "W"):
        return b(p[1])
    if p[0] == "O":
        return ops[int(p[1])].encode("latin1")
    enc = int(p[1])
    pre = b"u8" if enc & 2 else b"u" if enc & 4 else b"U" if enc & 8 else b"L" if enc & 16 else b""
    if p[0] == "S" and enc & 1:
        return pre + b'R"(' + b(p[2]) + b')"' + b(p[3])
    q = b'"' if p[0] == "S" else b"'"
    return pre + q + b(p[2]).replace(q, b"\\" + q) + q + b(p[3])


def gen_bytes(r, ops, nops):
    k = r.random()
    if k < 0.25:
        n = r.choice([0, 1, 2, 3, 8, 40, 200])
        data = bytes(r.randint(0, 255) for _ in range(n))
    elif k < 0.6:
        n = r.choice([1, 2, 3, 4, 6, 10, 25, 80])
        data = "".join(r.choice(HOT) for _ in range(n)).encode("latin1")
    else:
        line = gen_roundtrip(r, nops)
        data = bytearray(b"".join(py_print(i, ops) for i in line.split()[1:]))
        for _ in range(r.choice([0, 1, 1, 2, 4])):
            if not data:
                break
            m = r.random()
            i = r.randrange(len(data))
            if m < 0.3:
                del data[i]
            elif m < 0.55:
                data.insert(i, ord(r.choice(HOT)))
            elif m < 0.75:
                data[i] = r.randint(0, 255)
            elif m < 0.9:
                del data[i:]          # cut the source short: unterminated literals / comments at the end
            else:
                j = r.randrange(len(data))
                data[i], data[j] = data[j], data[i]
        data = bytes(data)
    return "T " + hx(data)


def gen_header(r):
    k = r.random()
    name = "".join(r.choice("abc/._-\\ >\"<") for _ in range(r.choice([0, 1, 3, 8])))
    pre = r.choice(["", "", " ", "\t ", "\\\n"])
    if k < 0.35:
        s = pre + "<" + name + r.choice([">", ">", "", "\n", "> x"])
    elif k < 0.7:
        s = pre + '"' + name.replace('"', "") + r.choice(['"', '"', "", "\n", '" x'])
    else:
        s = pre + "".join(r.choice(HOT) for _ in range(r.choice([0, 1, 2, 5])))
    return "H " + hx(s)


def gen_small(r):
    k = r.random()
    q = r.choice(["22", "27", "5c", "61"])
    s = "".join(r.choice(['"', "'", "\\", "a", "\n", "b"]) for _ in range(r.choice([0, 1, 2, 3, 6, 12])))
    if k < 0.3:
        return "E %s %s" % (q, hx(s))
    if k < 0.6:
        return "U %s %s" % (q, hx(s))
    if k < 0.8:
        return gen_header(r)
    return "G " + hx("".join(r.choice(["u", "8", "U", "L", "R", "u8", "x", ""]) for _ in range(r.choice([0, 1, 2, 3, 4]))))


def gen_history(r, ops, nops):
    h = []
    for _ in range(r.randint(4, 12)):
        k = r.random()
        if k < 0.45:
            h.append(gen_roundtrip(r, nops))
        elif k < 0.9:
            h.append(gen_bytes(r, ops, nops))
        else:
            h.append(gen_small(r))
    return h


def T(s):
    return "T " + hx(s)


# minimised past failures (all repaired by fix: commits; see known_findings.jsonl) and boundary cases
CORPUS = [
    ["R S:0:22616263:- W:20 I:78", "R C:0:27:- W:20", "E 22 22616263", "E 27 27"],            # F16 leading quote
    ["R S:0:615c5c2262:- W:20", "R S:0:5c5c:- W:20", "R S:0:22:- W:20", "R C:0:5c5c:- W:20"],  # backslash runs, lone quote
    [T('"abc'), T("'a"), T('R"abc"'), T('"abc\\'), T('u8R"x(abc)x'), T('R"(abc'), T('"')],       # FL1 unterminated at end of source
    ["R I:4c W:20 S:0:616263:- W:20", "R I:7538 W:09 S:0:61:- W:20", "R I:75 W:20 C:0:61:- W:20", T('L "abc" u\t\'a\'')],  # FL2
    ["R I:7472756531 W:20 I:66616c736530 W:20 P:74727565 W:20", T("true1 false0 true_ truex true.5 true")],                  # FL3
    ["R M:2f2a2f2078202a2f W:20 I:79 W:20", T("/*/ a */ b"), T("/*/"), T("/*")],                                            # FL4
    ["R M:2f2a205c2a2f W:20 I:79 W:20 M:2f2a2a2f W:20", T("/* \\*/ c */ d"), T("/* \\")],                                   # FL5
    ["R S:1:616263:- W:20 I:78 W:20", "R S:3:61292262:5f71 W:20", "R S:17:2922295f22:- W:0a", T('R"abc\nx'), T('R"(abc\nd')],  # FL6 raw strings
    [T("1e+5 0x1F 0b101 1.5e-3f .5 1. 1ull 0xg 1abc 1e 1e+ 1e+x 0x 0b2 1.2.3 1etrue ... .. ."), T("1e+  \n 5 6")],
    [T("+++ <<<= ->* sizeof... sizeof new x >>>= ::: ##"), T("a\\"), T("\\"), T("a\\\nb c\\ d"), T("x ` y $ \x7f\xff")],
    [T("// abc \\\nxyz\n q"), T("// abc"), T("//"), T("/**/"), T("/***/ /*/*/ x")],
    [T('u8"a"_km U\'b\'_x LR"(q)" uR"z(w)z"_s R"x(unterminated)y"'), T('"a\\\nb" \'\\\'\' "\\""'), "G 7538", "G 7552", "G 5275", "G 7575", "G 4c"],
    [T(""), T(" "), T("\n"), T(" \n "), T("a "), T("a\n"), T("\\\n"), T("a\x00b")],
    ["H " + hx("<abc"), "H " + hx('"abc'), "H " + hx("<a/b.h> x"), "H " + hx(' "a.h"'), "H " + hx("<x\ny>"), "H " + hx("5"), "H -",
     "H " + hx("abc"), "H " + hx("+x>"), "H " + hx("<a\\")],                                     # FL1 in getHeader
]


def main(argv):
    ck = Check("C12", argv)
    ck.rule = ("histories mix (R) token lists drawn from the C/OKL lexical grammar — identifiers incl. encoding-prefix and true/false "
               "look-alikes, every registered operator, decimal/octal/hex/binary integers with all suffix forms, floats with exponents "
               "and suffixes, strings/chars with every prefix, escapes (leading/trailing escaped quotes, backslash runs, line "
               "continuations), udf suffixes, raw strings with delimiter-clashing values, line and block comments — separated by "
               "whitespace (blanks, tabs, newlines, continuations), printed by the real token printers and re-tokenized; (T) arbitrary "
               "bytes, strings over a hot alphabet of lexically active characters, and mutations (delete/insert/flip/truncate/swap) of "
               "printed grammar text; (E/U/G) escape, unescape and encoding-prefix probes.  A history is non-trivial if the "
               "implementation produced at least one token; distinct by SHA-1 of the op text")
    ck.assumptions = ["the source buffer is NUL-terminated (std::string::c_str()); a byte string is tokenized up to its first NUL",
                      "char is a byte; comparisons against the ASCII character sets behave the same for signed and unsigned char"]
    ck.translate(["gen_lex"])
    ck.prove("C12")
    hb = ck.harness("h_lex")
    db = ck.driver("drv_lex")
    ops = operators()
    nops = [i for i, s in enumerate(ops) if s not in ("//", "/*")]
    if len(ops) < 60:
        ck.problems.append(("tie", "could not read the generated operator table (%d entries)" % len(ops)))
    if ck.replay:
        hs = [read_replay(ck.replay)]
    else:
        n = 450 if ck.tier == "quick" else 25000
        hs = CORPUS + [gen_history(ck.rng, ops, nops) for _ in range(n)]
    ck.correspond(hb, db, hs, label="lex", timeout=1500,
                  nontrivial=lambda h, obs: any(re.search(r"\be=\d+ \S", o) for o in obs),
                  ubsan_is_violation=r"tokenizer\.cpp|lang/token/|utils/string\.(cpp|hpp)|utils/lex\.cpp|types/primitive\.cpp|trie\.tpp")
    # which token kinds / error paths the run exercised (read off the model's outputs, which equal the
    # implementation's wherever the correspondence held)
    if db and not ck.replay:
        seen = {"I": 0, "P": 0, "O": 0, "N": 0, "S": 0, "C": 0, "M": 0, "U": 0}
        raw = errs = 0
        for obs in ck.run_model(db, hs):
            for o in obs:
                m = re.search(r"\be=(\d+)", o)
                if not m:
                    continue
                errs += int(m.group(1)) > 0
                for t in o.split()[1:]:
                    if t[0] in seen and (len(t) == 1 or t[1] == ":"):
                        seen[t[0]] += 1
                        raw += t.startswith("S:") and int(t.split(":")[1]) & 1
        ck.cov["counters"].update({"tokens_" + k: v for k, v in seen.items()})
        ck.cov["counters"].update({"tokens_raw_string": raw, "tokenizations_with_errors": errs})
    kinds = {"R": 0, "T": 0, "E": 0, "U": 0, "G": 0, "H": 0}
    for h in hs:
        for o in h:
            kinds[o[0]] = kinds.get(o[0], 0) + 1
    ck.cov["counters"].update({"ops_roundtrip": kinds["R"], "ops_bytes": kinds["T"], "ops_escape_unescape_encoding": kinds["E"] + kinds["U"] + kinds["G"],
                               "ops_getHeader": kinds["H"]})
    ck.finish(META["level_text"])
