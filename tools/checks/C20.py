"""C20 (partial) — translated kernels compute what the OKL kernel means, on every backend.

Three ties, all on kernels from the generator of okl_common.py:
  1. structure correspondence (S ops): the statement tree of each real translation (serial, openmp,
     cuda, hip, opencl, metal, dpcpp + the launcher's dimensions), read by harness/h_okl.cpp, against
     serialT / openmpT / launcherT of lean/OccaModel/OklT.lean;
  2. execution (exploration, and the failing-input search): every translation is compiled and run --
     Serial/OpenMP natively, CUDA/HIP/OpenCL/Metal/DPC++ against the emulation headers in
     harness/okl_emu (blocks x threads, threads of a block in lock-step between barriers) -- with ASan
     and exact-size heap arrays, and compared cell by cell with the sequential reading of the kernel;
  3. the Lean theorems of Props/C20.lean (index coverage, commuting of independent iterations,
     privacy of @exclusive cells) on the loop-structure level.
"""
import os, re, sys
sys.path.insert(0, os.path.dirname(os.path.abspath(__file__)))
from vlib import *
import okl_common as G

META = {
    "technique": "loop-structure model of the translations (Lean) with structure correspondence against the seven real translators; "
                 "compile-and-run of every translation (GPU ones under an emulation of the launch model, ASan) against the sequential reading",
    "category": "proof",
    "level_text": "PARTIAL: proved on the loop-structure level (every sequential statement instance is executed by the launch grid and "
                  "no other; independent iterations commute under any interleaving within barrier phases; @exclusive cells are private "
                  "per inner iteration); structure of the real translations matches the model on generated kernels; outputs of compiled "
                  "translations equal the sequential reading on generated independent kernels (exploration, not proof)",
    "level_note": "expression-level rewrites, qualifiers, @restrict, @dim and the compilers are outside the model; they are exercised by "
                  "the execution tie only",
    "design_ref": "DESIGN.md section 4, C20/C21/C22",
}

MODES = ["serial", "openmp", "cuda", "hip", "opencl", "metal", "dpcpp"]


def known_shapes(r):
    """canonical replays of the defects in the ledger, as (kernel, tag)"""
    out = []
    # F64: @shared written in an @inner loop nested in an if, read by the next @inner loop
    w = G.simple_inner(r, "i", 4, kids=[G.Stmt("s[i] = in[o * 4 + i]", uses="s")])
    rd = G.simple_inner(r, "j", 4, kids=[G.Stmt("out[o * 4 + j] = s[3 - j]", uses="s")])
    o = G.Okl("outer", G.Hdr("o", "int", 0, "N", "<", "++v", bound_is_const=False),
              [G.Decl("shared", "int s[4]", "s", "4"), G.If("N > 0", [w]), rd])
    o.count = "N"
    K = G.Kernel("kf64", ["const int N", "const int M", "const int *in", "int *out", "int *acc"], [o])
    K.meta = {"out_cells": 4 * G.MAXN, "M": None, "feats": {"inner-in-if", "shared"}}
    out.append((K, "inner-in-if"))
    ARGS = ["const int N", "const int M", "const int *in", "int *out", "int *acc"]
    OUT = lambda: G.Hdr("o", "int", 0, "N", "<", "++v", bound_is_const=False)
    # F65: OpenCL and Metal have no rewrite for @atomic: the statement stays a plain read-modify-write
    o = G.Okl("outer", OUT(), [G.simple_inner(r, "i", 4, kids=[G.Stmt("out[o * 4 + i] = in[i]"),
                                                              G.Stmt("acc[0] += in[i]", atomic="a", basic=True)])])
    o.count = "N"
    K = G.Kernel("kf65", ARGS, [o]); K.meta = {"out_cells": 4 * G.MAXN, "M": None, "feats": {"atomic-basic"}}
    out.append((K, "atomic-dropped"))
    # F66: sibling @inner loops with different trip counts pass every rule; the launcher takes the first
    o = G.Okl("outer", OUT(), [G.simple_inner(r, "i", 4, kids=[G.Stmt("out[o * 4 + i] = in[i]")]),
                               G.simple_inner(r, "j", 2, kids=[G.Stmt("out[o * 4 + j] += 100", basic=True)])])
    o.count = "N"
    K = G.Kernel("kf66", ARGS, [o]); K.meta = {"out_cells": 4 * G.MAXN, "M": None, "feats": {"different-inner-sizes"}}
    out.append((K, "different-inner-sizes"))
    # F67: @exclusive with a run-time @inner bound: the Serial/OpenMP array has 1024 cells whatever M is
    x = G.Decl("exclusive", "int x", "x"); x.total = 1500
    i1 = G.Okl("inner", G.Hdr("i", "int", 0, "M", "<", "++v", bound_is_const=False), [G.Stmt("{x:x} = in[i % 64]", uses="x")]); i1.count = 1500
    i2 = G.Okl("inner", G.Hdr("j", "int", 0, "M", "<", "++v", bound_is_const=False), [G.Stmt("out[o * 1500 + j] = {x:x}", uses="x")]); i2.count = 1500
    o = G.Okl("outer", OUT(), [x, i1, i2]); o.count = "N"
    K = G.Kernel("kf67", ARGS, [o]); K.meta = {"out_cells": 1500 * G.MAXN, "M": 1500, "feats": {"exclusive-runtime-inner"}}
    out.append((K, "exclusive-runtime-inner"))
    # F68: a kernel-scope local used inside an @outer loop: the extracted device kernels do not have it
    o = G.Okl("outer", OUT(), [G.simple_inner(r, "i", 4, kids=[G.Stmt("out[o * 4 + i] = in[i] + kscope")])])
    o.count = "N"
    K = G.Kernel("kf68", ARGS, [G.Decl("plain", "const int kscope = 2 * N"), o]); K.meta = {"out_cells": 4 * G.MAXN, "M": None, "feats": {"kernel-scope-local"}}
    out.append((K, "kernel-scope-local"))
    return out


def check_atomics_kept(ck, K, g):
    """structural oracle for the known shapes: an @atomic statement must come out as an atomic construct"""
    for m in MODES:
        if m == "serial" or not g.get(m):
            continue
        dev = g[m][0]
        if not re.search(r"atomic|omp critical", dev):
            ck.oracle_violation("the %s translation drops @atomic: the update stays a plain read-modify-write" % m,
                                "## features: atomic-dropped\n" + K.src(), name="okl")


def exec_rounds(ck, hb, rounds):
    """rounds: [(label, kernels, modes or None)].  All translation units of all rounds are compiled and run together;
    every difference is reported as an oracle violation with the OKL source as replay."""
    tus, info = {}, {}
    for label, kernels, modes in rounds:
        if not kernels:
            continue
        tr = G.translate_all(ck, hb, kernels)
        for K, (g, oo) in zip(kernels, tr):
            if g is not None and K.name == "kf65":
                check_atomics_kept(ck, K, g)
            if g is None:
                ck.oracle_violation("translator crashed or failed on a generated rule-conforming kernel: %s" % "; ".join(oo)[:200],
                                    "##regen %d %s %s\n" % (ck.seed, ck.tier, K.name) + K.src(), name="okl")
            else:
                for m in MODES:
                    if g.get(m) is None and not (m in ("cuda", "hip") and "atomic-general" in K.meta["feats"]):
                        ck.oracle_violation("translator %s rejects a generated rule-conforming kernel" % m, K.src(), name="okl")
        for m in (modes or MODES):
            items = [(K, g[m]) for K, (g, oo) in zip(kernels, tr) if g and g.get(m)]
            if items:
                key = "%s__%s" % (label, m)
                tus[key] = (G.build_tu(m, items), ["-fopenmp"] if m == "openmp" else [])
                info[key] = (m, kernels)
        ck.cov["evaluations"] += len(kernels)
        ck.cov["distinct_nontrivial"] += len(set(K.src() for K in kernels))
    res = G.compile_and_run(ck, "c20", tus)
    nrun = 0
    for key, runs in res.items():
        m, kernels = info[key]
        byname = {K.name: K for K in kernels}
        for env, rc, so, se in runs:
            if rc is None:
                ck.oracle_violation("the %s translation does not compile (against the emulation headers): %s" % (m, first_error(se)),
                                    "##regen %d %s %s\n" % (ck.seed, ck.tier, kernels[0].name) + "\n".join(K.src() for K in kernels[:3]), name="okl")
                continue
            seen = set()
            for line in so.splitlines():
                w = line.split()
                if not w:
                    continue
                if w[0] == "OK":
                    seen.add(w[1]); nrun += 1
                elif w[0] in ("DIFF", "DIVERGENT-BARRIER"):
                    K = byname.get(w[1])
                    seen.add(w[1])
                    tags = " ".join(sorted(K.meta["feats"])) if K else ""
                    ck.oracle_violation("output of the %s translation differs from the sequential reading: %s" % (m, line[:160]),
                                        "##regen %d %s %s\n## features: %s\n%s" % (ck.seed, ck.tier, w[1], tags, K.src() if K else ""), name="okl")
            if rc != 0 and not any(l.startswith(("DIFF", "DIVERGENT")) for l in so.splitlines()):
                san = [l for l in se.splitlines() if "ERROR: AddressSanitizer" in l or "runtime error" in l or "SUMMARY" in l]
                missing = [K for K in kernels if K.name not in seen]
                ck.oracle_violation("the %s translation crashed or was stopped by a sanitizer: %s" % (m, " | ".join(san)[:300] or "rc=%s" % rc),
                                    ("##regen %d %s %s\n" % (ck.seed, ck.tier, missing[0].name) + missing[0].src()) if missing else "", name="okl")
    ck.cov["counters"]["kernel_mode_runs"] = ck.cov["counters"].get("kernel_mode_runs", 0) + nrun
    return res


def first_error(se):
    for l in se.splitlines():
        if "error" in l:
            return l[-200:]
    return se[-200:]


def main(argv):
    ck = Check("C20", argv)
    ck.level = "proof"
    ck.rule = ("generated rule-conforming, independent-by-construction kernels (1-3 outer-most @outer nests = split kernels, 1-3 "
               "nested @outer, 1-3 nested @inner with all header forms, 1-4 @inner sections in if/else/for/blocks, @shared with the "
               "write-own/read-any protocol across sections, @exclusive, @atomic, @barrier, @nobarrier, @max_inner_dims, @simd_length, "
               "@restrict, @dim, helper functions, local control flow) x 3 argument sets x 7 translators; distinct by source text")
    ck.assumptions = ["GPU launch model = blocks x threads, threads of a block in lock-step between barriers (harness/okl_emu)",
                      "uniform control flow around @inner loops", "g++ 12 compiles the translations faithfully"]
    ck.translate(["gen_okl"])
    ck.prove("C20")
    hb = ck.harness("h_okl")
    db = ck.driver("drv_okl")
    env = {"ASAN_OPTIONS": "detect_leaks=0:abort_on_error=0:exitcode=66:allocator_may_return_null=1"}
    regen = None
    if ck.replay:
        head = open(ck.replay).read().split("\n")
        rg = [l for l in head if l.startswith("##regen ")]
        if rg:
            _, sd, tier, name = rg[0].split()
            import random
            regen = name
            ck.seed, ck.tier = int(sd), tier
            ck.rng = random.Random(ck.seed * 1000003 + sum(map(ord, "C20")))
        else:
            ck.correspond(hb, db, [read_replay(ck.replay)], label="okl-structure", timeout=3600, env=env)
            ck.finish(META["level_text"])
    n_s = 40 if ck.tier == "quick" else 1500
    n_x = 8 if ck.tier == "quick" else 160
    feats = set()
    hs = []
    for i in range(n_s):
        K = G.gen_kernel(ck.rng, name="k%d" % i, feats=feats)
        hs.append([G.s_op(K)])
    kernels = [K for K, _ in known_shapes(ck.rng)]
    for i in range(n_x):
        kernels.append(G.gen_kernel(ck.rng, name="x%d" % i, feats=feats))
    if regen:
        exec_rounds(ck, hb, [("replay", [K for K in kernels if K.name == regen], ["serial", "openmp"] if regen == "kf67" else None)])
        ck.finish(META["level_text"])
    ck.correspond(hb, db, hs, label="okl-structure", timeout=3600, env=env,
                  nontrivial=lambda h, impl: any("serial=K" in o for o in impl))
    if hb:
        known = [K for K in kernels if K.name.startswith("kf")]
        gen = [K for K in kernels if not K.name.startswith("kf")]
        # the canonical replays of the known findings get translation units of their own, so that a sanitizer stop or a
        # compile error there does not hide other kernels
        rounds = [("known", [K for K in known if K.name not in ("kf67", "kf68")], None),
                  ("known67", [K for K in known if K.name == "kf67"], ["serial", "openmp"]),
                  ("known68", [K for K in known if K.name == "kf68"], ["serial", "cuda", "opencl"])]
        per = 12 if ck.tier == "quick" else 24
        rounds += [("gen%d" % lo, gen[lo:lo + per], None) for lo in range(0, len(gen), per)]
        for lo in range(0, len(rounds), 10):
            exec_rounds(ck, hb, rounds[lo:lo + 10])
    ck.cov["counters"]["features_seen"] = " ".join(sorted(feats))
    ck.finish(META["level_text"])
