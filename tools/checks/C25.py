"""C25 — JSON path access and merging follow nested-dictionary semantics."""
from vlib import *
from jsongen import *

META = {
    "technique": "Lean 4 model of json::operator[] (const and non-const), getPathValue/get<T>, has, remove, set, operator+=/mergeWithObject on sorted association lists; the nested-dictionary laws (read-after-write, frame, intermediates created, reads create nothing, remove, recursive right-biased merge, size) proved for all trees, paths and histories; differential run of histories against the real occa::json with a std::map dictionary reference as model-independent oracle",
    "category": "proof",
    "level_text": "Proof for all json trees, key paths and operation histories of the nested-dictionary laws of the model (C25_read_after_write, C25_write_frame, C25_write_creates_intermediates, C25_write_through_leaf_fails, C25_read_missing_undefined, C25_has_of_defined, C25_touch_has/_read/_frame/_creates_intermediates, C25_remove_spec, C25_remove_frame, C25_set_spec, C25_merge_spec, C25_mergeVal_spec, C25_merge_keys, C25_size_insert, C25_history_wf, C25_path_string), tied to the code by a seeded differential run of operation histories on the real occa::json against the model and against an independent std::map dictionary.",
    "level_note": "Trusted: Lean kernel; the hand-written model lean/OccaModel/JsonPath.lean (validated by the correspondence run, not proved equal to the C++); harness/h_jsonpath.cpp and its dictionary reference. The model is of the repaired code (fixes/FJ1 stale primitive source, FJ2 set() on a non-object, FJ3 merge key lookup, FJ6 getPathValue escape). The non-const operator[] is modelled as the write-path accessor it is: it leaves an undefined placeholder for a missing path (reported, not hidden); the property's reads are the const accessors.",
    "design_ref": "DESIGN.md section 4, C25",
}

KEYS = [b"a", b"b", b"c", b"ab"]
ODD_KEYS = [b"a/b", b"x\\/y", b"a b", b"\\", b"k\\", b"a/", b"/a", b"\"q\"", b"modes"]


def rpath(r, odd=0.12):
    n = r.choice([1, 1, 2, 2, 3, 4])
    ks = [r.choice(KEYS) for _ in range(n)]
    p = b"/".join(ks)
    k = r.random()
    if k < odd:
        p = r.choice([p + b"/", b"/" + p, p.replace(b"/", b"//", 1), b"", b"/", p + b"\\/x", b"x\\/y", b"a\\", b"\\/", p + b"/" + r.choice(ODD_KEYS)])
    return p


def rvalue(r, depth=2):
    o = TreeOpts(none=0.05, keys=KEYS if r.random() < 0.85 else KEYS + ODD_KEYS, strmax=4, parsed=(r.random() < 0.3), dupkeys=0.05)
    k = r.random()
    if k < 0.45:
        return [rleaf(r, o)]
    if k < 0.9:
        n = r.randint(0, 3)
        out = ["O%d" % n]
        for _ in range(n):
            out += [hx(rkey(r, o))] + rtree(r, depth - 1, 3, o)
        return out
    return rtree(r, depth, 3, o)


def rleaf_typed(r):
    k = r.random()
    if k < 0.15:
        return r.choice(["T", "F"])
    if k < 0.4:
        return "S:" + hx(rbytes(r, 4))
    return rnum(r, parsed=False)


def related(r, p):
    """a path next to `p`: a child, the parent, a sibling or `p` itself"""
    ks = p.split(b"/")
    k = r.random()
    if k < 0.45:
        return p + b"/" + r.choice(KEYS)
    if k < 0.6 and len(ks) > 1:
        return b"/".join(ks[:-1])
    if k < 0.8:
        return b"/".join(ks[:-1] + [r.choice(KEYS)])
    return p


def probes(r, h, p):
    """reads around a path that was just written / touched / removed"""
    if r.random() < 0.6:
        h.append("has " + hx(related(r, p)))
    if r.random() < 0.4:
        h.append("rc " + hx(related(r, p)))


def gen_history(r, thorough=False):
    h = []
    if r.random() < 0.6:
        h.append("new " + " ".join(rvalue(r, 3)))
    for _ in range(r.randint(8, 40 if thorough else 24)):
        k = r.random()
        if r.random() < 0.05:
            # an object overwritten by a leaf (typed or json assignment), then read below it
            p, c = rpath(r, odd=0.0), r.choice(KEYS)
            h.append("w %s O2 %s %s %s O1 %s Z" % (hx(p), hx(c), rleaf_typed(r), hx(r.choice(KEYS)), hx(c)))
            h.append(("wt %s %s" % (hx(p), rleaf_typed(r))) if r.random() < 0.6 else ("w %s %s" % (hx(p), rleaf_typed(r))))
            h.append("has %s" % hx(p + b"/" + c))
            h.append("rc %s" % hx(p + b"/" + c))
            if r.random() < 0.5:
                h.append("setat %s %s %s" % (hx(p), hx(r.choice(KEYS)), rleaf_typed(r)))
                h.append("show")
            continue
        if k < 0.16:
            p = rpath(r)
            h.append("w %s %s" % (hx(p), " ".join(rvalue(r))))
            probes(r, h, p)
        elif k < 0.22:
            p = rpath(r)
            h.append("wt %s %s" % (hx(p), rleaf_typed(r)))
            probes(r, h, p)
        elif k < 0.28:
            p = rpath(r)
            h.append("touch " + hx(p))
            probes(r, h, p)
        elif k < 0.38:
            h.append("rc " + hx(rpath(r)))
        elif k < 0.46:
            kind = r.choice(["int", "bool", "str", "json", "json"])
            d = rleaf_typed(r) if kind != "json" else " ".join(rvalue(r, 1))
            h.append("get %s %s %s" % (hx(rpath(r)), kind, d))
        elif k < 0.56:
            h.append("has " + hx(rpath(r)))
        elif k < 0.60:
            h.append(r.choice(["size", "sizeat " + hx(rpath(r)), "keys"]))
        elif k < 0.67:
            p = rpath(r)
            h.append("rm " + hx(p))
            probes(r, h, p)
        elif k < 0.73:
            key = r.choice(KEYS + ODD_KEYS) if r.random() < 0.5 else r.choice(KEYS)
            h.append("set %s %s" % (hx(key), " ".join(rvalue(r))))
        elif k < 0.77:
            key = r.choice(KEYS + ODD_KEYS) if r.random() < 0.4 else r.choice(KEYS)
            h.append("setat %s %s %s" % (hx(rpath(r)), hx(key), " ".join(rvalue(r, 1))))
        elif k < 0.87:
            h.append("merge " + " ".join(rvalue(r, 3)))
        elif k < 0.91:
            h.append("mergeat %s %s" % (hx(rpath(r)), " ".join(rvalue(r, 2))))
        elif k < 0.94:
            h.append("plus " + " ".join(rvalue(r, 3)))
        elif k < 0.97:
            h.append("show")
        else:
            h.append("dump %d" % r.choice([0, 2]))
    h.append("show")
    return h


def T(s):
    return hx(s.encode())


CORPUS = [
    # FJ1 (fixed): typed assignment over a parsed number kept the old source text
    ["new O1 61 P:3132", "wt 61 i32:5", "show", "dump 0", "rc 61"],
    ["new P:3132", "wt - T", "show"],
    # FJ2 (fixed): set() on a non-object resurrected the members of an object stored there before
    ["new O1 62 O1 78 i32:1", "wt 62 S:737472", "setat 62 6b i32:2", "show"],
    ["new O1 78 i32:1", "wt - i32:7", "set 6b i32:2", "show"],
    # FJ3 (fixed): merge looked the member key up as a path
    ["new O0", "set %s O1 79 i32:2" % T("a/b"), "merge O1 %s O1 78 i32:1" % T("a/b"), "show"],
    ["new O1 61 O1 62 i32:5", "merge O1 %s O1 78 i32:1" % T("a/b"), "show"],
    # FJ6 (fixed): get<T> split the path at an escaped slash
    ["new N", "w %s i32:1" % T("x\\/y"), "has %s" % T("x\\/y"), "rc %s" % T("x\\/y"), "get %s json i32:9" % T("x\\/y"), "get %s int i32:9" % T("x\\/y")],
    # placeholders left by the non-const operator[]
    ["new N", "touch 782f792f7a", "show", "has 782f792f7a", "has 782f79", "size", "dump 0", "rc 782f792f7a", "get 782f792f7a json i32:3"],
    ["new O1 61 i32:1", "touch 612f62", "w 612f62 i32:2", "show"],
    # reads create nothing; write through a leaf throws and changes nothing
    ["new O1 61 O1 62 i32:1", "rc 612f78", "get 612f78 int i32:7", "has 612f78", "show", "w 612f622f63 i32:3", "show"],
    # merge: right wins, recursive, conflicting kinds, none member on the right
    ["new O2 61 O2 78 i32:1 79 i32:2 62 i32:3", "merge O2 61 O2 79 S:7a 7a Z 62 O1 6b T", "show", "merge O1 61 i32:0", "show", "merge O1 61 N", "show"],
    ["new N", "merge O1 61 i32:1", "show", "new N", "merge A2 i32:1 i32:2", "show", "new N", "merge u8:5", "show", "new i32:1", "merge i64:2", "show", "merge S:78", "show"],
    # path shapes
    ["new N", "w 612f2f62 i32:1", "show", "w 2f61 i32:2", "show", "w 612f i32:3", "show", "rm 612f", "show", "w - i32:4", "show"],
]


def main(argv):
    ck = Check("C25", argv)
    ck.rule = ("histories (8..40 operations) on one json value: new, write through operator[] (json and typed operator=), touch "
               "(non-const read), const operator[], get<int|bool|string|json> with defaults, has, size, remove, set (literal key), "
               "set at a member, +=, += at a member, operator+; paths of 1..4 keys over {a,b,c,ab} with trailing/leading/double "
               "slashes, escaped slashes and empty paths mixed in; literal keys containing '/', '\\' and spaces through set and "
               "merge; values of every kind incl. nested objects/arrays, none_ members and numbers carrying source text.  "
               "Non-trivial: at least one successful mutation; distinct by SHA-1 of the op text.")
    ck.assumptions = ["paths and keys are NUL-terminated C strings", "float -> int conversions out of range (UB) are not executed"]
    ck.translate(["gen_hash", "gen_json"])
    ck.prove("C25")
    hb = ck.harness("h_jsonpath")
    db = ck.driver("drv_json")
    if ck.replay:
        hs = [read_replay(ck.replay)]
    else:
        n = 1000 if ck.tier == "quick" else 12000
        hs = CORPUS + [gen_history(ck.rng, ck.tier == "thorough") for _ in range(n)]
    ck.correspond(hb, db, hs, label="jsonpath", ubsan_is_violation=r"types/json\.|utils/lex\.",
                  nontrivial=lambda h, obs: any(o == "ok" for o in obs))
    c = ck.cov["counters"]
    for name in ("w", "wt", "touch", "rc", "get", "has", "rm", "set", "setat", "merge", "mergeat", "plus"):
        c["op_" + name] = sum(1 for h in hs for l in h if l.split(" ", 1)[0] == name)
    ck.finish(META["level_text"])
