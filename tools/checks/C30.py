"""C30 — With sharable devices, concurrent handle use is race-free."""
from vlib import *

META = {
    "technique": "Lean 4 proof over a micro-step concurrency model of the reference protocol for all schedules and thread counts, lock scopes regenerated from the C++; deterministic replay of the model's racing schedule through yield hooks and seeded stress under ThreadSanitizer in the ENABLE_SHARABLE_DEVICE build",
    "category": "proof",
    "level_text": "Partial.  Proved for every schedule, every number of threads and every program: if link, unlink+needsFree-check+delete and the byte-counter update are each one critical section the protocol never double-frees, uses after free, loses a reference or leaks, and the counter is exact at quiescence (C30_locked_safe, C30_counter_exact); if the check is outside the unlink's critical section, or the counter update is a plain read-modify-write, or addRef is unlocked, an explicit schedule breaks it (C30_unlocked_check_races, C30_nonatomic_counter_loses, C30_unlocked_addRef_loses).  Which side applies to /repo is decided by the lock-scope table regenerated from gc.tpp, the six remove*Ref functions and device.hpp on every run; the racing schedule is replayed on the real library through the yield hooks, and a seeded multi-thread stress runs under TSan.",
    "level_note": "Trusted: Lean kernel; translate/gen_lockregions.py (regex extraction of lock scopes from the preprocessed gc.tpp and the remove*Ref bodies); the abstraction of a ring to the list of its handles and of the C++ to sequentially consistent micro-steps (OccaModel/GcConc.lean).  Not modelled (observed with TSan only, on the schedules a stress run happens to take): data races on plain fields as such, the C++ memory model, the real mutex, races outside the reference protocol (device kernel cache, settings()).",
    "design_ref": "DESIGN.md section 4, C30",
}


def lock_cfg():
    p = os.path.join(LEAN, "OccaGen", "LockRegions.lean")
    txt = open(p).read() if os.path.exists(p) else ""
    cfg = {}
    for k in ("addRefLocked", "removeRefLocked", "checkInsideLock", "counterAtomic"):
        m = re.search(k + r" := (true|false)", txt)
        cfg[k] = (m.group(1) == "true") if m else None
    return cfg


def run_h(ck, hb, args, timeout=300, tsan_halt=False):
    env = ck.run_env({"TSAN_OPTIONS": "halt_on_error=0:report_signal_unsafe=0:exitcode=0:second_deadlock_stack=1",
                      "OCCA_CACHE_DIR": os.path.join(BUILD, "occa_cache_tsan")})
    return sh([hb] + args, timeout=timeout, env=env)


def tsan_reports(se):
    """distinct ThreadSanitizer reports, keyed by report kind and the occa functions on top of the two stacks"""
    out = []
    for blk in se.split("WARNING: ThreadSanitizer:")[1:]:
        kind = blk.strip().splitlines()[0].split("(pid")[0].strip()[:60]
        if kind.startswith("thread leak"):
            continue
        fns = []
        # only the two racing accesses (not the allocation / thread-creation stacks)
        for stack in re.split(r"\n\s*\n", blk):
            if not re.search(r"(?:[Rr]ead|[Ww]rite|[Aa]tomic \w+) of size", stack.strip().splitlines()[0] if stack.strip() else ""):
                if not (stack is blk.split("\n\n")[0]):
                    continue
            for m in re.finditer(r"#\d+ (\S[^\n]*?) (/\S+:\d+)", stack):
                fn, where = m.group(1), m.group(2)
                if fn.startswith("occa::") and "/harness/" not in where:
                    f = re.sub(r"\(.*", "", fn)
                    if f not in fns:
                        fns.append(f)
                    break
        out.append((kind, tuple(fns[:2]), blk[:1500]))
    return out


def main(argv):
    ck = Check("C30", argv)
    ck.rule = ("(a) replay of the model's double-free schedule per handle kind through the yield hooks; (b) seeded stress "
               "runs (threads x iterations x operation mix of copy/destroy, alloc/free, kernel build+run) in the sharable TSan "
               "build; a run is non-trivial if all threads completed their iterations; distinct by (seed, threads, mix)")
    ck.assumptions = ["sequentially consistent interleaving of the listed micro-steps", "a handle being copied from is not written concurrently (user obligation)",
                      "ENABLE_SHARABLE_DEVICE=ON build"]
    ck.translate(["gen_lockregions"])
    ck.prove("C30")
    cfg = lock_cfg()
    ck.cov["counters"]["lock_cfg"] = cfg
    model_says_safe = bool(cfg["addRefLocked"] and cfg["checkInsideLock"] and cfg["counterAtomic"])
    hb = ck.harness("h_conc", variant="tsan")
    if hb:
        # (a) the model's witness schedule on the real code
        for kind in ("memory", "stream"):
            rc, so, se = run_h(ck, hb, ["replay-f34", kind], timeout=120)
            ck.cov["evaluations"] += 1
            ck.cov["samples"].append({"replay": "two threads drop the last two %s handles, both held between unlink and needsFree()" % kind,
                                      "impl": so.strip().splitlines()[-3:]})
            ora = [l[8:] for l in so.splitlines() if l.startswith("!ORACLE ")]
            if rc != 0 and not ora:
                ora.append("replay harness failed rc=%d %s" % (rc, se[-200:]))
            if ora:
                ck.oracle_violation("double destruction when the last two %s handles are dropped concurrently: %s" % (kind, "; ".join(sorted(set(ora)))),
                                    "replay-f34 %s" % kind, name="sched")
            elif not cfg["checkInsideLock"]:
                ck.problems.append(("tie", "lock table says the needsFree() check of %s is outside the lock but the replayed schedule did not double-free" % kind))
        # (a2) first concurrent use of the library (settings() initialisation), fresh process each time
        first_reports = {}
        for rep in range(3 if ck.tier == "quick" else 12):
            rc, so, se = run_h(ck, hb, ["firstuse", "8"], timeout=300)
            ck.cov["evaluations"] += 1
            for l in so.splitlines():
                if l.startswith("!ORACLE "):
                    ck.oracle_violation("first use: " + l[8:], "firstuse 8", name="firstuse")
            if rc != 0 and "result done" not in so:
                ck.oracle_violation("first-use run crashed (rc=%d)" % rc, "firstuse 8", name="firstuse")
            for kind, where, blk in tsan_reports(se):
                first_reports.setdefault((kind, where), ("firstuse 8", blk))
        for (kind, where), (text, blk) in sorted(first_reports.items()):
            ck.oracle_violation("ThreadSanitizer: %s in %s" % (kind, " / ".join(where) or "?"), text + "\n" + blk, name="tsan")
        # (b) stress
        runs = [(2, 300, "ccafy"), (8, 200, "ccaafy"), (4, 60, "ccakkfy")] if ck.tier == "quick" else \
               [(n, 400, m) for n in (2, 3, 4, 8, 12, 16) for m in ("ccafy", "caafy", "ccakkfy", "akkfy")]
        seen_races = {}
        nt = 0
        for i, (n, iters, mix) in enumerate(runs):
            seed = ck.seed * 1000 + i
            rc, so, se = run_h(ck, hb, ["stress", str(seed), str(n), str(iters), mix], timeout=900)
            ck.cov["evaluations"] += 1
            if "result done" in so:
                nt += 1
            text = "stress %d %d %d %s" % (seed, n, iters, mix)
            if rc != 0 and "result done" not in so:
                ck.oracle_violation("stress run crashed or hung (rc=%d): %s" % (rc, (se.strip().splitlines() or [""])[-1][:200]), text, name="stress")
            for l in so.splitlines():
                if l.startswith("!ORACLE "):
                    ck.oracle_violation("stress: " + l[8:], text, name="stress")
            for kind, where, blk in tsan_reports(se):
                key = (kind, where)
                if key not in seen_races:
                    seen_races[key] = (text, blk)
            if i == 0:
                ck.cov["samples"].append({"stress": text, "impl": so.strip().splitlines()[-2:]})
        ck.cov["distinct_nontrivial"] += nt + 2
        ck.cov["counters"]["tsan_distinct_reports"] = len(seen_races)
        for (kind, where), (text, blk) in sorted(seen_races.items()):
            ck.oracle_violation("ThreadSanitizer: %s in %s" % (kind, " / ".join(where) or "?"), text + "\n" + blk, name="tsan")
    if not model_says_safe:
        # the model refutes the property for the lock scopes found in the source; make sure that
        # is reported even if no run exhibited it (it is a listed known finding on the unchanged tree)
        what = "lock-scope table refutes C30 in the model: " + ", ".join("%s=%s" % kv for kv in sorted(cfg.items()))
        ck.oracle_violation(what, "theorems C30_unlocked_check_races / C30_nonatomic_counter_loses / C30_unlocked_addRef_loses apply; table: %s" % cfg, name="table")
    ck.finish(META["level_text"])
