"""C21 (partial) — OpenMP kernels are deterministic for every thread count and schedule.

  1. structure correspondence of the OpenMP translation (shared with C20: S ops, openmpT);
  2. execution: the OpenMP translation of generated kernels is compiled (g++ -fopenmp, ASan) twice --
     as emitted, and with `schedule(runtime)` appended to the emitted `#pragma omp parallel for` so that
     the schedule kind and chunk can be varied -- and run with 1..16 threads x static/dynamic/guided
     schedules x several chunk sizes, repeatedly; every run is compared with the sequential reading
     (which the Serial translation is compared with as well);
  3. the Lean theorems of Props/C21.lean: any interleaving of the outer iterations of an independent
     kernel gives the sequential result (atomic statements being single steps), every
     @shared/@exclusive declaration and the exclusive index of openmpT lie inside the parallel loop,
     every outer-most @outer loop carries the pragma, every @atomic statement is guarded.
"""
import os, sys
sys.path.insert(0, os.path.dirname(os.path.abspath(__file__)))
from vlib import *
import okl_common as G
import C20

META = {
    "technique": "interleaving semantics of the OpenMP translation on the loop-structure level (Lean), placement theorems for the "
                 "pragmas and private declarations; compile-and-run of the OpenMP translation under many thread counts and schedules",
    "category": "proof",
    "level_text": "PARTIAL: proved that any interleaving of independent outer iterations (atomic statements indivisible) equals the "
                  "sequential run, that openmpT puts every @shared/@exclusive declaration and the exclusive index inside the parallel "
                  "loop body, the pragma before every outer-most @outer loop and a guard before every @atomic statement; the real "
                  "OpenMP translation matches openmpT on generated kernels and its compiled code gives the sequential result for "
                  "1-16 threads x static/dynamic/guided schedules (exploration)",
    "level_note": "the OpenMP runtime and compiler are assumptions; no race detector is run (libgomp is not instrumented for TSan)",
    "design_ref": "DESIGN.md section 4, C20/C21/C22",
}


def envs(tier, runtime):
    threads = [1, 2, 3, 4, 8, 16] if tier == "thorough" else [1, 2, 4, 16]
    out = []
    if not runtime:
        for t in threads:
            for rep in range(2 if tier == "quick" else 4):
                out.append({"OMP_NUM_THREADS": str(t), "OMP_DYNAMIC": "false"})
    else:
        scheds = [(1, 1), (1, 3), (2, 1), (2, 2), (3, 1)] if tier == "quick" else [(1, 1), (1, 2), (1, 3), (1, 7), (2, 1), (2, 2), (2, 5), (3, 1), (3, 2), (4, 0)]
        for k, c in scheds:           # omp_sched_t: 1 static, 2 dynamic, 3 guided, 4 auto
            for t in ([2, 4, 16] if tier == "quick" else threads[1:]):
                out.append({"OMP_NUM_THREADS": str(t), "EMU_SCHED": "%d,%d" % (k, c), "OMP_DYNAMIC": "false"})
    return out


def omp_round(ck, hb, kernels, label):
    tr = G.translate_all(ck, hb, kernels)
    items_o = [(K, g["openmp"]) for K, (g, oo) in zip(kernels, tr) if g and g.get("openmp")]
    items_s = [(K, g["serial"]) for K, (g, oo) in zip(kernels, tr) if g and g.get("serial")]
    for K, (g, oo) in zip(kernels, tr):
        if g is None or g.get("openmp") is None:
            ck.oracle_violation("the OpenMP translator fails on a generated rule-conforming kernel: %s" % "; ".join(oo)[:200], K.src(), name="okl")
    tus = {"serial": (G.build_tu("serial", items_s), []),
           "omp_asis": (G.build_tu("openmp", items_o), ["-fopenmp"]),
           "omp_runtime": (G.build_tu("openmp", items_o, omp_variant="runtime"), ["-fopenmp"])}
    run_envs = {"omp_asis": envs(ck.tier, False), "omp_runtime": envs(ck.tier, True)}
    res = G.compile_and_run(ck, label, tus, run_envs)
    byname = {K.name: K for K in kernels}
    runs = 0
    for name, rr in res.items():
        for env, rc, so, se in rr:
            how = " ".join("%s=%s" % kv for kv in sorted(env.items()) if kv[0] != "OMP_DYNAMIC")
            if rc is None:
                ck.oracle_violation("the %s build of the translation does not compile: %s" % (name, C20.first_error(se)), kernels[0].src(), name="okl")
                continue
            bad = False
            for line in so.splitlines():
                w = line.split()
                if w and w[0] == "OK":
                    runs += 1
                elif w and w[0] == "DIFF":
                    bad = True
                    K = byname.get(w[1])
                    ck.oracle_violation("%s [%s]: output differs from the sequential reading: %s" % (name, how, line[:150]),
                                        "##regen %d %s %s\n## features: %s\n%s" % (ck.seed, ck.tier, w[1], " ".join(sorted(K.meta["feats"])) if K else "", K.src() if K else ""),
                                        name="okl")
            if rc != 0 and not bad:
                san = [l for l in se.splitlines() if "ERROR: AddressSanitizer" in l or "runtime error" in l or "SUMMARY" in l]
                ck.oracle_violation("%s [%s]: crashed or stopped by a sanitizer: %s" % (name, how, " | ".join(san)[:300] or "rc=%s" % rc),
                                    kernels[0].src(), name="okl")
    ck.cov["counters"]["kernel_schedule_runs_" + label] = runs
    ck.cov["evaluations"] += len(kernels)
    ck.cov["distinct_nontrivial"] += len(set(K.src() for K in kernels))


def gen_omp_kernel(r, name, feats):
    # general @atomic regions (omp critical) are host-only: allow them here
    K = G.gen_kernel(r, name=name, feats=feats, general_atomic=True)
    return K


def main(argv):
    ck = Check("C21", argv)
    ck.rule = ("generated independent kernels (as C20, plus general @atomic regions -> omp critical) x {as emitted, schedule(runtime)} x "
               "thread counts 1..16 x static/dynamic/guided x chunk sizes x repeated runs; distinct by source text")
    ck.assumptions = ["OpenMP runtime: any assignment of outer iterations to threads, any interleaving, atomic/critical constructs indivisible",
                      "g++ 12 / libgomp implement OpenMP faithfully"]
    ck.translate(["gen_okl"])
    ck.prove("C21")
    hb = ck.harness("h_okl")
    db = ck.driver("drv_okl")
    env = {"ASAN_OPTIONS": "detect_leaks=0:abort_on_error=0:exitcode=66:allocator_may_return_null=1"}
    regen = None
    if ck.replay:
        rg = [l for l in open(ck.replay).read().split("\n") if l.startswith("##regen ")]
        if rg:
            import random
            _, sd, tier, regen = rg[0].split()
            ck.seed, ck.tier = int(sd), tier
            ck.rng = random.Random(ck.seed * 1000003 + sum(map(ord, "C21")))
        else:
            ck.correspond(hb, db, [read_replay(ck.replay)], label="okl-openmp-structure", timeout=3600, env=env)
            ck.finish(META["level_text"])
    feats = set()
    n_s = 25 if ck.tier == "quick" else 800
    n_x = 6 if ck.tier == "quick" else 120
    hs = [[G.s_op(gen_omp_kernel(ck.rng, "k%d" % i, feats))] for i in range(n_s)]
    kernels = [gen_omp_kernel(ck.rng, "x%d" % i, feats) for i in range(n_x)]
    if regen:
        omp_round(ck, hb, [K for K in kernels if K.name == regen], "c21_replay")
        ck.finish(META["level_text"])
    ck.correspond(hb, db, hs, label="okl-openmp-structure", timeout=3600, env=env,
                  nontrivial=lambda h, impl: any("openmp=K" in o for o in impl),
                  canon_impl=only_host, canon_model=only_host)
    if hb:
        for lo in range(0, len(kernels), 24):
            omp_round(ck, hb, kernels[lo:lo + 24], "c21_%d" % lo)
    ck.cov["counters"]["features_seen"] = " ".join(sorted(feats))
    ck.finish(META["level_text"])


def only_host(obs):
    """C21 compares the serial and openmp summaries only"""
    return [" ".join(p for p in o.split() if p.startswith(("serial=", "openmp="))) for o in obs]
