"""C08 — a crash at any point of a kernel build never poisons the cache."""
import os, random, re, shutil, time
from concurrent.futures import ThreadPoolExecutor
from vlib import *
import _buildfs as B

META = {
    "technique": "Lean 4 proof over a model of the cache file system (atomic steps mkdir/creat/append/close/rename/stat/open/exec-compiler/rmrf) that every trace obeying the staging discipline keeps 'every final-named file is a complete artefact' at every prefix (= every kill point), that the modelled build pipeline obeys the discipline for all answers of the file system, and that a later build from any such state ends with a complete binary; tied to /repo by (T) a regenerated table of every file-writing call site and of the shape of io::stageFiles, (H1) real builds under strace canonicalised to model steps and compared step by step with the model's own buildSteps, (H2) real SIGKILL injection at the builder's file-system syscalls followed by a follow-up build",
    "category": "proof",
    "level_text": "Partial. Proved for all traces, all kill points, any amount of temp-named debris: C08_prefix_good (Good is kept at every prefix of a discipline-obeying trace), C08_no_partial_read (a final name is never opened on a partial file), C08_buildSteps_accepted (the modelled Serial/OpenMP string/file build obeys the discipline whatever the file system answers), C08_recovery (from any Good state a build ends with a complete, correct, loadable binary), C08_write_sites_staged (every file-writing call site of the current source names a staged temp file). The model's step list is compared with strace logs of real cold / warm / partially filled / debris-laden builds; kill -9 is injected for real at the builder's open/write/close/rename/fsync/mkdir calls (stride sample in quick, exhaustive in thorough) and the follow-up build must succeed with the right values and a cache in which every final-named file equals the complete artefact.",
    "level_note": "Outside the model, only sampled by the harness or not covered: page-cache / fsync ordering under power loss (fsync is a step without effect; only process death is modelled), NFS rename semantics, the compiler's and linker's own temporary files and partial outputs (the compiler child is one atomic step; killed compilers are sampled by timed group kills), the dynamic loader, directories as a precondition of creat, sys::rmrf as a sequence of unlinks, kernels with #include dependencies, launcher kernels of GPU modes. Trusted: Lean kernel; translate/gen_buildfs.py (regex); the hand-written pipeline in OccaModel/BuildFS.lean (validated step by step against strace, not proved equal to the C++); the strace canonicaliser tools/checks/_buildfs.py; hypotheses stated in the theorems: deterministic compiler (Spec.Coherent), atomic rename, unique temp names (FreshOuts / injective token supply).",
    "design_ref": "DESIGN.md section 4, C08/C09",
}

WORKERS = int(os.environ.get("VERIF_BFS_WORKERS", "6"))


class Job:
    def __init__(self, mode, kind, C, work):
        self.mode, self.kind, self.C = mode, kind, C
        self.key = (mode, kind, C)
        self.okl = os.path.join(work, "k%d.okl" % C)
        if kind == "f" and not os.path.exists(self.okl):
            open(self.okl, "w").write(B.kernel_text(C))

    def args(self):
        return [self.mode, ("s:%d" % self.C) if self.kind == "s" else "f:%d:%s" % (self.C, self.okl)]

    def expected(self):
        return [B.expected_line(0, self.C), "DONE"]

    def name(self):
        return "%s %s %d" % (self.mode, self.kind, self.C)


def outcome_ok(job, rc, so):
    return rc == 0 and [l for l in so.splitlines() if l.strip()] == job.expected()


# ------------------------------------------------------------------ H1: trace acceptance

def drive(ck, db, lines):
    out = ck.run_model(db, [lines])[0]
    if len(out) != len(lines):
        ck.problems.append(("tie", "driver answered %d lines for %d" % (len(out), len(lines))))
        return None
    return out


def h1_check(ck, db, ref, canon, job, before, steps, label, ctx):
    """feed one observed run to the model; returns index of the first rejected/differing step or None"""
    lines = ref.cfg_lines(canon, job.key) + ref.spec_lines(canon) + before + steps + \
        ["check accepts", "check good", "check consistent", "model 1"]
    out = drive(ck, db, lines)
    if out is None:
        return 0
    bad_at = None
    for l, o in zip(lines, out):
        if l.startswith("check "):
            if not o.endswith(" 1"):
                ck.problems.append(("tie", "H1 %s %s: %s" % (job.name(), label, o[:300])))
                m = re.search(r"(?:step|after) (\d+)", o)
                bad_at = int(m.group(1)) if m else 0
        elif l.startswith("model "):
            head, *evs = o.split(" | ")
            a, b = B.normalise_steps(steps), B.normalise_steps(evs)
            ck.cov["counters"]["h1_steps_compared"] = ck.cov["counters"].get("h1_steps_compared", 0) + len(a)
            if "accepts=1" not in head:
                ck.problems.append(("tie", "H1 %s %s: the model's own step list is not accepted: %s" % (job.name(), label, head)))
            if a != b:
                i = next((i for i in range(max(len(a), len(b))) if (a[i] if i < len(a) else None) != (b[i] if i < len(b) else None)), 0)
                ck.problems.append(("tie", "H1 %s %s: observed step list differs from the model's buildSteps at step %d: observed `%s` model `%s`"
                                    % (job.name(), label, i, B.short(a[i] if i < len(a) else "<end>"), B.short(b[i] if i < len(b) else "<end>"))))
                if bad_at is None:
                    # position in the un-normalised list
                    kept = [k for k, s in enumerate(steps) if " statdir " not in s]
                    bad_at = kept[i] if i < len(kept) else len(steps) - 1
            ctx["samples"].append({"scenario": "%s %s" % (job.name(), label), "steps": len(a), "model": head,
                                   "first": [B.short(x, 70) for x in a[:3]]})
        elif o != "ok":
            ck.problems.append(("tie", "H1 %s %s: driver rejected line `%s`: %s" % (job.name(), label, B.short(l, 80), o)))
    return bad_at


def traced_build(ck, hb, job, cache, out):
    rc, so, se = B.run_traced(hb, cache, job.args(), out)
    ck.cov["evaluations"] += 1
    return rc, so, se, B.parse_strace(out)


def junk_debris(rng, cache, ref, job):
    """temp-named leftovers of imaginary dead processes: truncated, empty and garbage files"""
    made = []
    for (d, f), data in list(ref.files.items()):
        if rng.random() < 0.5 and os.path.isdir(os.path.join(cache, "cache", d)):
            tok = "%016x" % rng.getrandbits(64)
            cut = rng.choice([0, 1, len(data) // 2, max(0, len(data) - 1)])
            open(os.path.join(cache, "cache", d, tok + "." + f), "wb").write(data[:cut])
            made.append("%s/%s.%s[%d]" % (d, tok, f, cut))
    return made


def h1_config(ck, hb, db, ref, job, work, rng, phases, ctx):
    """cold, warm, partially filled and debris-laden builds of one configuration"""
    tag = "%s%s%d" % (job.mode[0], job.kind, job.C)
    cache = os.path.join(work, "cache-" + tag)
    names = {"dirs": {}, "toks": {}, "k": 0}
    info = {"recs": None, "cold_s": 0.0, "targets": []}
    for phase in phases:
        canon = B.Canon(cache, names)
        label = phase
        if phase == "cold":
            B.rmtree(cache)
            before = []
        elif phase == "warm":
            before = B.snapshot_lines(cache, canon, ref)
        elif phase.startswith("killed"):
            # the cache a really killed build leaves behind (kill point drawn from the cold recording)
            cache = os.path.join(work, "cache-%s-%s" % (tag, phase))
            B.rmtree(cache)
            canon = B.Canon(cache, names)
            pts = [p for p in B.kill_points(info["recs"], info["cache"], B.KILL_CALLS) if p[2]] if info["recs"] else []
            if not pts:
                continue
            call, n, _, what = rng.choice(pts)
            B.run_killed(hb, cache, job.args(), call, n, os.path.join(work, "trace-%s-%s.kill" % (tag, phase)))
            time.sleep(0.05)
            label = "%s at %s#%d" % (phase, call, n)
            bad = B.cache_good(cache, ref)
            if bad:
                ck.oracle_violation("after kill -9 at the builder's %s #%d a final-named file is not a complete artefact: %s"
                                    % (call, n, "; ".join(bad[:3])), "kill %s %s %d %s %d" % (job.mode, job.kind, job.C, call, n), name="kill")
            before = B.snapshot_lines(cache, canon, ref)
        else:
            # a Good state between empty and complete: delete a random subset of the final-named files
            full = os.path.join(work, "cache-" + tag)
            cache = os.path.join(work, "cache-%s-%s" % (tag, phase))
            B.rmtree(cache)
            shutil.copytree(full, cache)
            canon = B.Canon(cache, names)
            dels = []
            for (d, f) in sorted(B.cache_state(cache)):
                if rng.random() < 0.45:
                    os.unlink(os.path.join(cache, "cache", d, f))
                    dels.append("%s/%s" % (ref.role(d) or "K", f))
            junk = junk_debris(rng, cache, ref, job) if phase.startswith("debris") else []
            label = "%s del=%s junk=%d" % (phase, ",".join(dels) or "-", len(junk))
            before = B.snapshot_lines(cache, canon, ref)
        t0 = time.time()
        out = os.path.join(work, "trace-%s-%s.txt" % (tag, phase))
        rc, so, se, recs = traced_build(ck, hb, job, cache, out)
        if phase == "cold":
            info["cold_s"] = time.time() - t0
            info["recs"], info["cache"] = recs, cache
            ref.learn(cache, job.key, B.kernel_text(job.C))
            for p in ref.problems:
                ck.oracle_violation("reference build: " + p, "scenario %s cold" % job.name())
            ref.problems = []
        if not outcome_ok(job, rc, so):
            ck.oracle_violation("build fails or computes wrong values (%s): rc=%s out=%s err=%s"
                                % (label, rc, so.strip()[:200], se.strip()[-200:]), "scenario %s %s" % (job.name(), label))
            continue
        bad = B.cache_good(cache, ref)
        if bad:
            ck.oracle_violation("after a complete build a final-named file is not a complete artefact: " + "; ".join(bad[:3]),
                                "scenario %s %s" % (job.name(), label))
        steps = canon.steps(recs, "1")
        for n in canon.notes:
            ck.problems.append(("tie", "H1 %s %s: canonicaliser: %s" % (job.name(), label, n)))
        ctx["scenarios"] += 1
        bad_at = h1_check(ck, db, ref, canon, job, before, steps, label, ctx)
        if bad_at is not None and phase == "cold":
            # search for a concrete failing input around the step the model objects to
            for k in range(max(0, bad_at - 1), min(len(canon.origin), bad_at + 5)):
                call, n = canon.origin[k]
                if call in B.KILL_CALLS and (call, n) not in info["targets"]:
                    info["targets"].append((call, n))
        if phase not in ("cold", "warm"):
            B.rmtree(cache)
    return info


def h1_parsefail(ck, hb, db, ref, work, C, silent, ctx):
    """the failed-build path: an OKL string that does not parse; with `silent` the mode returns a null kernel and
    device::buildKernel removes the hash directory (sys::rmrf), without it the parser error is raised"""
    # sys::rmrf refuses (sys/safe_rmrf) unless a path component is named occa / .occa / occa_* / .occa_*
    cache = os.path.join(work, "occa_parsefail%d" % int(silent))
    B.rmtree(cache)
    text = "@kernel void verifK(const int n { %d" % C
    args = ["Serial"] + (["--silent"] if silent else []) + ["x:%d" % C]
    out = os.path.join(work, "trace-parsefail-%d.txt" % int(silent))
    rc, so, se = B.run_traced(hb, cache, args, out)
    ck.cov["evaluations"] += 1
    label = "parse failure silent=%d" % int(silent)
    lines_out = [l for l in so.splitlines() if l.strip()]
    want_ok = (rc == 0 and lines_out == ["K 0 %d uninitialized" % C, "DONE"]) if silent else (rc == 3 and lines_out and lines_out[0].startswith("EXC"))
    if not want_ok:
        ck.oracle_violation("a build of an unparsable kernel does not end as documented (%s): rc=%s out=%s" % (label, rc, so.strip()[:200]),
                            "scenario Serial x %d %s" % (C, label))
        return
    bad = B.cache_good(cache, ref)
    # with silent the hash directory is gone; without it the two source files stay: they are complete files
    bad = [b for b in bad if "no complete build produces" not in b]
    if bad:
        ck.oracle_violation("after a failed build a final-named file is not a complete artefact: " + "; ".join(bad[:3]),
                            "scenario Serial x %d %s" % (C, label))
    canon = B.Canon(cache, {"dirs": {}, "toks": {}, "k": 0})
    steps = canon.steps(B.parse_strace(out), "1")
    vd = [d for (d, b) in ref.files if ref.role(d) == "V"]
    if not vd:
        return
    kd = [k for k, v in canon.names["dirs"].items() if v == "K0"]
    K = "K0"
    cfg = ["cfg openmp 0", "cfg fromString 1", "cfg silent %d" % int(silent), "cfg parseOk 0", "cfg kdir " + K,
           "cfg vdir " + canon.dname(vd[0], "V"), "cfg rawBase string_source.raw_source.cpp", "cfg cppBase string_source.source.cpp",
           "content str " + text.encode().hex(), "content raw " + (b"\n" + text.encode()).hex(),
           "content vsrc " + ref.files[(vd[0], "findCompilerVendor.cpp")].hex(), "content vout " + ref.files[(vd[0], "output")].hex()]
    spec = [l for l in ref.spec_lines(canon) if l.split()[1].startswith("V/")] + \
           ["spec %s/string_source.cpp %s" % (K, text.encode().hex()), "spec %s/string_source.raw_source.cpp %s" % (K, (b"\n" + text.encode()).hex())]
    lines = cfg + spec + steps + ["check accepts", "check good", "check consistent", "model 1"]
    outl = drive(ck, db, lines)
    if outl is None:
        return
    ctx["scenarios"] += 1
    for l, o in zip(lines, outl):
        if l.startswith("check "):
            if not o.endswith(" 1"):
                ck.problems.append(("tie", "H1 %s: %s" % (label, o[:300])))
        elif l.startswith("model "):
            head, *evs = o.split(" | ")
            a, b = B.normalise_steps(steps), B.normalise_steps(evs)
            want_head = "model null" if silent else "model raised"
            if not head.startswith(want_head):
                ck.problems.append(("tie", "H1 %s: the model ends with `%s`" % (label, head)))
            if a != b:
                i = next((i for i in range(max(len(a), len(b))) if (a[i] if i < len(a) else None) != (b[i] if i < len(b) else None)), 0)
                ck.problems.append(("tie", "H1 %s: observed step list differs from the model's buildSteps at step %d: observed `%s` model `%s`"
                                    % (label, i, B.short(a[i] if i < len(a) else "<end>"), B.short(b[i] if i < len(b) else "<end>"))))
            ctx["samples"].append({"scenario": label, "steps": len(a), "model": head, "last": [B.short(x, 70) for x in a[-2:]]})
        elif o != "ok":
            ck.problems.append(("tie", "H1 %s: driver rejected line `%s`: %s" % (label, B.short(l, 80), o)))
    B.rmtree(cache)


# ------------------------------------------------------------------ H2: real fault injection

def kill_case(hb, job, ref, work, call, n, idx):
    cache = os.path.join(work, "kill-%d" % idx)
    B.rmtree(cache)
    out = os.path.join(work, "kill-%d.strace" % idx)
    rc, so, se = B.run_killed(hb, cache, job.args(), call, n, out)
    last = ""
    try:
        ls = [l for l in open(out, errors="replace").read().splitlines() if l.strip()]
        killed = any("killed by SIGKILL" in l for l in ls[-2:])
        last = ls[-2] if len(ls) >= 2 else ""
    except OSError:
        killed = False
    res = {"call": call, "n": n, "killed": killed, "problems": [], "where": B.short(re.sub(r'\\x[0-9a-f]{2}', "", last), 60)}
    time.sleep(0.05)
    bad = B.cache_good(cache, ref)
    if bad:
        res["problems"].append("after kill -9 at the builder's %s #%d a final-named file is not a complete artefact: %s"
                               % (call, n, "; ".join(bad[:3])))
    rc2, so2, se2 = B.run_plain(hb, cache, job.args())
    if not outcome_ok(job, rc2, so2):
        res["problems"].append("follow-up build after kill -9 at the builder's %s #%d fails or computes wrong values: rc=%s out=%s"
                               % (call, n, rc2, (so2.strip() or se2.strip()[-200:])[:240]))
    else:
        bad = B.cache_good(cache, ref)
        if bad:
            res["problems"].append("after the follow-up build a final-named file is not a complete artefact: " + "; ".join(bad[:3]))
    B.rmtree(cache)
    try:
        os.unlink(out)
    except OSError:
        pass
    return res


def timed_kill_case(hb, job, ref, work, delay, idx):
    """kill the whole process group (builder AND compiler children) `delay` seconds into a cold build"""
    import signal
    cache = os.path.join(work, "tkill-%d" % idx)
    B.rmtree(cache)
    p = B.popen_group([hb] + job.args(), B.run_env(cache))
    time.sleep(delay)
    try:
        os.killpg(p.pid, signal.SIGKILL)
    except ProcessLookupError:
        pass
    p.communicate()
    res = {"call": "group-kill", "n": int(delay * 1000), "killed": p.returncode not in (0, 3), "problems": [], "where": "t=%.2fs" % delay}
    time.sleep(0.05)
    bad = B.cache_good(cache, ref)
    if bad:
        res["problems"].append("after kill -9 of builder and compiler at t=%.2fs a final-named file is not a complete artefact: %s"
                               % (delay, "; ".join(bad[:3])))
    rc2, so2, se2 = B.run_plain(hb, cache, job.args())
    if not outcome_ok(job, rc2, so2):
        res["problems"].append("follow-up build after kill -9 of builder and compiler at t=%.2fs fails or computes wrong values: rc=%s out=%s"
                               % (delay, rc2, (so2.strip() or se2.strip()[-200:])[:240]))
    B.rmtree(cache)
    return res


def choose_kills(rng, pts, targets, quick_n, thorough):
    rel = [(c, n) for (c, n, r, _) in pts if r]
    non = [(c, n) for (c, n, r, _) in pts if not r]
    chosen = list(targets)
    if thorough:
        chosen += rel + non[::7]
    else:
        by = {}
        for c, n in rel:
            by.setdefault(c, []).append((c, n))
        # stratified: every syscall type gets its share, at least two
        for c, L in sorted(by.items()):
            k = max(2, round(quick_n * len(L) / max(1, len(rel))))
            chosen += rng.sample(L, min(k, len(L)))
        chosen += rng.sample(non, min(2, len(non)))
    seen, out = set(), []
    for x in chosen:
        if x not in seen:
            seen.add(x)
            out.append(x)
    return out


def run_kills(ck, hb, job, ref, work, kills, timed, ctx):
    results = []
    with ThreadPoolExecutor(max_workers=WORKERS) as ex:
        futs = [ex.submit(kill_case, hb, job, ref, work, c, n, ctx["kill_idx"] + i) for i, (c, n) in enumerate(kills)]
        futs += [ex.submit(timed_kill_case, hb, job, ref, work, d, ctx["kill_idx"] + 1000 + i) for i, d in enumerate(timed)]
        ctx["kill_idx"] += len(kills) + 2000
        for f in futs:
            results.append(f.result())
    for r in results:
        ck.cov["evaluations"] += 1
        cnt = ck.cov["counters"]
        cnt["kill_points"] = cnt.get("kill_points", 0) + 1
        cnt["kill_" + r["call"]] = cnt.get("kill_" + r["call"], 0) + 1
        if r["killed"]:
            cnt["kills_landed"] = cnt.get("kills_landed", 0) + 1
            ck.cov["distinct_nontrivial"] += 1
        for p in r["problems"]:
            ck.oracle_violation(p, "kill %s %s %d %s %d" % (job.mode, job.kind, job.C, r["call"], r["n"]), name="kill")
    return results


CORPUS = [
    # F35 (fixed): sys::compilerVendor() wrote <cache>/<hash>/output under its final name; kill -9 at that
    # write left an empty file that every later build read as vendor 0.  The replay finds the write
    # by its position in a fresh recording (see main), so it needs no fixed ordinal here.
    "vendor-output-window Serial s 5",
]


def main(argv):
    ck = Check("C08", argv)
    thorough = ck.tier == "thorough"
    ck.rule = ("(H1) one strace-recorded real build per scenario = configuration (Serial/OpenMP x string/file, kernel constant from "
               "the seed) x cache state (cold, warm, random subset of the final files deleted, the same plus truncated/empty/garbage "
               "temp-named debris); a scenario counts when the build succeeded and its canonical step list was compared with the model; "
               "(H2) one kill point = (configuration, syscall name, ordinal of that syscall in the builder) on a cold cache, chosen "
               "among the builder's open/write/close/rename/fsync/mkdir calls from its first touch of the cache on (stratified sample in "
               "quick, all cache-touching calls plus every 7th other call in thorough) plus timed kills of builder and compiler together; "
               "a kill point is non-trivial when strace reports the builder was killed there")
    ck.assumptions = ["the compiler is deterministic (checked: every complete build produced byte-identical artefacts)",
                      "rename(2) is atomic", "staged temp names (hash_t::random) never repeat",
                      "process death only: no power loss, local file system"]
    ck.trusted.append("strace 6.1 (ptrace) for recording and for SIGKILL injection; tools/checks/_buildfs.py canonicaliser")
    ck.translate(["gen_hash", "gen_buildfs"])
    ck.prove("C08")
    hb = ck.harness("h_build")
    db = ck.driver("drv_buildfs")
    if hb is None or db is None:
        ck.finish(META["level_text"])
    rng = ck.rng
    work = B.fresh_dir("C08-%d" % ck.seed)
    ref = B.Ref()
    ctx = {"samples": [], "scenarios": 0, "kill_idx": 0}
    try:
        if ck.replay:
            replay(ck, hb, db, ref, work, read_replay(ck.replay), ctx)
        else:
            C1, C2 = rng.randint(2, 60), rng.randint(61, 120)
            if thorough:
                plan = [(Job("Serial", "s", C1, work), ["cold", "warm", "partial1", "partial2", "debris1", "debris2", "killed1", "killed2"]),
                        (Job("OpenMP", "f", C2, work), ["cold", "warm", "partial1", "partial2", "debris1", "debris2", "killed1", "killed2"]),
                        (Job("Serial", "f", C1 + 1, work), ["cold", "warm", "partial1", "debris1", "killed1"]),
                        (Job("OpenMP", "s", C2 + 1, work), ["cold", "warm", "partial1", "debris1", "killed1"])]
            else:
                plan = [(Job("Serial", "s", C1, work), ["cold", "warm", "debris1"]),
                        (Job("OpenMP", "f", C2, work), ["cold", "partial1", "killed1"])]
            with ThreadPoolExecutor(max_workers=len(plan)) as ex:
                infos = list(ex.map(lambda jp: h1_config(ck, hb, db, ref, jp[0], work, random.Random(rng.random()), jp[1], ctx), plan))
            # the failed-build path (rmrf of the hash directory / raised parser error)
            h1_parsefail(ck, hb, db, ref, work, C1, True, ctx)
            if thorough:
                h1_parsefail(ck, hb, db, ref, work, C1, False, ctx)
            # corpus: the F35 window, located in this run's own recording
            corpus_kills = {}
            for (job, _), info in zip(plan, infos):
                if info["recs"] and job.mode == "Serial":
                    corpus_kills[job.key] = vendor_output_kills(info["recs"], info["cache"])
            for (job, _), info in zip(plan, infos):
                if not info["recs"]:
                    continue
                pts = B.kill_points(info["recs"], info["cache"], B.KILL_CALLS_THOROUGH if thorough else B.KILL_CALLS)
                ck.cov["counters"]["builder_fs_calls_" + job.mode + "_" + job.kind] = len(pts)
                ck.cov["counters"]["cache_touching_calls_" + job.mode + "_" + job.kind] = sum(1 for p in pts if p[2])
                kills = choose_kills(rng, pts, info["targets"] + corpus_kills.get(job.key, []), 11 if not thorough else 0, thorough)
                cold = max(1.0, info["cold_s"] / 3.0)      # the traced cold build is ~3x slower than a plain one
                timed = [cold * f for f in ([0.35, 0.7] if not thorough else [0.1 * i for i in range(1, 13)])]
                run_kills(ck, hb, job, ref, work, kills, timed, ctx)
            for (job, _) in plan:
                B.rmtree(os.path.join(work, "cache-%s%s%d" % (job.mode[0], job.kind, job.C)))
    except B.Infrastructure as e:
        B.rmtree(work)
        print("INFRASTRUCTURE-ERROR: libocca.so of %s cannot be loaded (%s); no verdict" % (BUILD, e))
        sys.exit(2)
    finally:
        B.rmtree(work)
    ck.cov["counters"]["h1_scenarios"] = ctx["scenarios"]
    ck.cov["samples"] = ctx["samples"][:6]
    ck.finish(META["level_text"])


def vendor_output_kills(recs, cache):
    """the write/close calls that follow the creation of the vendor probe's `output` (temp or final name)"""
    cnt, out, armed = {}, [], 0
    for (pid, ts, name, args, ret, raw) in B.main_records(recs):
        cnt[name] = cnt.get(name, 0) + 1
        if name == "openat" and len(args) > 2 and "O_CREAT" in args[2]:
            p = (B.str_arg(args[1]) or b"").decode(errors="replace")
            armed = 3 if re.search(r"/(?:[0-9a-f]{16}\.)?output$", p) else 0
            if armed:
                out.append(("openat", cnt[name]))
        elif armed and name in ("write", "close", "fsync", "rename"):
            out.append((name, cnt[name]))
            armed -= 1
    return out[:6]


def replay(ck, hb, db, ref, work, lines, ctx):
    for l in lines:
        w = l.split()
        if w[0] in ("kill", "vendor-output-window") and len(w) >= 4:
            job = Job(w[1], w[2], int(w[3]), work)
            info = h1_config(ck, hb, db, ref, job, work, ck.rng, ["cold"], ctx)
            if not info["recs"]:
                continue
            kills = [(w[4], int(w[5]))] if w[0] == "kill" and w[4] != "group-kill" else vendor_output_kills(info["recs"], info["cache"])
            timed = [int(w[5]) / 1000.0] if w[0] == "kill" and w[4] == "group-kill" else []
            run_kills(ck, hb, job, ref, work, [] if timed else kills + info["targets"], timed, ctx)
        elif w[0] == "scenario" and len(w) >= 5:
            job = Job(w[1], w[2], int(w[3]), work)
            phases = ["cold"] + ([w[4]] if w[4] != "cold" else [])
            if w[4] not in ("cold", "warm"):
                phases = ["cold", "warm", w[4]]
            h1_config(ck, hb, db, ref, job, work, ck.rng, phases, ctx)
